/-
C11 — executable model of `func_adl_xAOD.common.cpp_ast` as it is NOW (after the commit
"fix: substitute the arguments of an injected C++ function simultaneously, not one after another"):

  Part A  `_replace_whole_words`         → `replaceWholeWords` (dict.setdefault, sort by length, one
                                           combined regex `\bs1\b|\bs2\b|…` run by `re.sub` with a
                                           function replacement) and the declarative reading of the
                                           property, `substSim` (a map over maximal word / non-word runs)
  Part B  `build_CPPCodeValue`           → `buildCPPCodeValue`
  Part C  `cpp_ast_finder`               → `finder`
  Part D  `process_ast_node` + the part of the expression visitor that feeds it → `emit`, `runQuery`

Text is `List Char` (code points), the driver converts from/to `String`.
Word characters: everything in Part A is parametric in the class `W : Char → Bool` of word
characters.  Python's `re` uses its Unicode `\w`; C++ (and the property: "whole-word") means
identifier characters.  On ASCII both are `[A-Za-z0-9_]` = `asciiWord`; the harness passes the
class explicitly for every non-ASCII character occurring in a case (see tools/props/c11.py).
No Mathlib/Batteries import: this file is what the driver runs.
-/
namespace FaxVerif.C11

abbrev Str := List Char
/-- (source name, replacement text): one entry of `repl_list` -/
abbrev Binding := Str × Str

/-- `[A-Za-z0-9_]` -/
def asciiWord (c : Char) : Bool := c.isAlphanum || c == '_'

/-! ## Part A — whole-word substitution -/

/-- A maximal run of word characters (`isWord = true`) or of non-word characters. -/
structure Tok where
  isWord : Bool
  text : Str
deriving Repr, DecidableEq, Inhabited

section Subst
variable (W : Char → Bool)

def pushChar (c : Char) : List Tok → List Tok
  | [] => [⟨W c, [c]⟩]
  | t :: ts => if t.isWord = W c then ⟨t.isWord, c :: t.text⟩ :: ts else ⟨W c, [c]⟩ :: t :: ts

/-- The line as its maximal word / non-word runs (characterised uniquely by `tokenise_spec` and
`tokenise_unique`). -/
def tokenise : Str → List Tok
  | [] => []
  | c :: cs => pushChar W c (tokenise cs)

def detok (ts : List Tok) : Str := ts.flatMap (·.text)

/-- first binding wins (`lookup.setdefault(src, dest)`) -/
def lookup : List Binding → Str → Option Str
  | [], _ => none
  | (s, d) :: ps, w => if s = w then some d else lookup ps w

def substTok (ps : List Binding) (t : Tok) : Str :=
  if t.isWord then (lookup ps t.text).getD t.text else t.text

/-- What the property asks for: every word token that is a parameter is replaced by that
parameter's argument text, all at once; nothing else changes; inserted text is not looked at. -/
def substSim (ps : List Binding) (line : Str) : Str :=
  (tokenise W line).flatMap (substTok ps)

/-! ### the code: dict, sort, combined regex, `re.sub` -/

/-- `for src, dest in repl_list: lookup.setdefault(src, dest)` — keys in insertion order -/
def dedupe : List Binding → List Binding
  | [] => []
  | b :: bs => b :: (dedupe bs).filter (fun a => !decide (a.1 = b.1))

def insertByLen (b : Binding) : List Binding → List Binding
  | [] => [b]
  | a :: as => if a.1.length ≤ b.1.length then b :: a :: as else a :: insertByLen b as

/-- `sorted(lookup, key=len, reverse=True)` (stable) -/
def sortByLenDesc : List Binding → List Binding
  | [] => []
  | b :: bs => insertByLen b (sortByLenDesc bs)

def isW : Option Char → Bool
  | none => false
  | some c => W c

/-- `\b` between two neighbouring positions (`none` = outside the string) -/
def boundary (a b : Option Char) : Bool := isW W a != isW W b

/-- `rest = src ++ after` → `some after` -/
def stripPrefix : Str → Str → Option Str
  | [], r => some r
  | _ :: _, [] => none
  | a :: s, b :: r => if a = b then stripPrefix s r else none

/-- does the alternative `\b<src>\b` (src escaped: a literal) match at the head of `rest`, the
character before being `prev`?  An empty `src` never matches here (the code would build `\b\b`;
empty parameter names are outside the property and outside the generators). -/
def matchesAt (prev : Option Char) (src rest : Str) : Bool :=
  match src.getLast?, stripPrefix src rest with
  | some lastc, some after => boundary W prev rest.head? && boundary W (some lastc) after.head?
  | _, _ => false

/-- alternation: the first alternative that matches at this position -/
def firstMatch (alts : List Binding) (prev : Option Char) (rest : Str) : Option Binding :=
  alts.find? (fun a => matchesAt W prev a.1 rest)

/-- `re.sub(pattern, lambda m: lookup[m.group(0)], line)`: left to right, non-overlapping; the
replacement is emitted verbatim and the scan continues *after the matched source text* (`skip`
counts the characters of the match still to be passed over). -/
def scan (alts : List Binding) : Option Char → Nat → Str → Str
  | _, _, [] => []
  | _, skip + 1, c :: cs => scan alts (some c) skip cs
  | prev, 0, c :: cs =>
    match firstMatch W alts prev (c :: cs) with
    | some a => a.2 ++ scan alts (some c) (a.1.length - 1) cs
    | none => c :: scan alts (some c) 0 cs

/-- `_replace_whole_words(line, repl_list)` -/
def replaceWholeWords (repl : List Binding) (line : Str) : Str :=
  match dedupe repl with
  | [] => line
  | lk => scan W (sortByLenDesc lk) none 0 line

/-- The algorithm before the fix: one `re.sub(r"\b src \b", dest, line)` per binding, in order,
each pass looking again at what the previous passes inserted.  Kept for the counterexample. -/
def substSeq : List Binding → Str → Str
  | [], l => l
  | b :: bs, l => substSeq bs (scan W [b] none 0 l)

end Subst

/-- `arbitrary_statement.emit`: a `;` is appended when the line does not end with one -/
def withSemi (l : Str) : Str := if l.getLast? = some ';' then l else l ++ [';']

/-! ## Part B — `CPPCodeSpecification` → `CPPCodeValue` -/

structure FSpec where
  name : Str
  includes : List Str
  args : List Str
  code : List Str
  result : Str
  retType : Str
  isCollection : Bool
  methodObject : Option Str
  /-- the optional key `instance_object` ("the name of the object if this is being used as a method"): carried by the
  specification, read by nothing in `build_CPPCodeValue` — a specification is a method exactly when `method_object` is given -/
  instanceObject : Option Str := none
deriving Repr, DecidableEq, Inhabited

/-- The part of a `CPPCodeValue` the back end uses. `varPrefix` is the argument of
`unique_name`, `instance_` is `replacement_instance_obj` = (word in the code, Python name of the receiver). -/
structure CodeValue where
  varPrefix : Str
  includes : List Str
  args : List Str
  code : List Str
  result : Str
  retType : Str
  isCollection : Bool
  instance_ : Option (Str × Str)
deriving Repr, DecidableEq, Inhabited

inductive Err where
  | arity                    -- ValueError
  | functionAsMethod         -- ValueError
  | methodAsFunction         -- ValueError
  | refused                  -- RuntimeError of `getAttribute`
  | badCallee                -- func neither Name nor Attribute-of-Name (never reached through the finder)
  | unbound (id : Str)       -- a Python name without a representation
  | unsupported              -- expression form outside the modelled fragment
deriving Repr, DecidableEq

/-- Python expressions, as far as the finder and the injected-code emission look at them.
`opaque` is an expression without any call the finder could recognise whose C++ text has been
measured from the translator itself (a leaf for the emission model).
`cpp cv args` is a `Call` whose `func` has been replaced by a `CPPCodeValue`. -/
inductive Expr where
  | name (id : Str)
  | const (text : Str)
  | opaque (text : Str)
  | attr (obj : Expr) (a : Str)
  | call (f : Expr) (args : List Expr)
  | binop (op : Str) (l r : Expr)
  | cpp (cv : CodeValue) (args : List Expr)
deriving Repr, Inhabited

def FSpec.toCodeValue (spec : FSpec) (inst : Option (Str × Str)) : CodeValue :=
  { varPrefix := spec.name, includes := spec.includes, args := spec.args, code := spec.code,
    result := spec.result, retType := spec.retType, isCollection := spec.isCollection, instance_ := inst }

/-- What `build_CPPCodeValue` and `cpp_ast_finder.visit_Call` look at in `call_node.func`. -/
inductive Shape where
  | name (n : Str)                 -- `f(...)`
  | attrName (r a : Str)           -- `r.a(...)`, `r` a plain `Name`
  | attrOther (a : Str)            -- `<expr>.a(...)`
  | other
deriving Repr, DecidableEq

def shape : Expr → Shape
  | .name n => .name n
  | .attr (.name r) a => .attrName r a
  | .attr _ a => .attrOther a
  | _ => .other

/-- `build_CPPCodeValue(spec, call_node)`; `f` is `call_node.func`. Order of the checks as in
the code: number of arguments, function invoked like a method, method invoked like a function. -/
def buildCPPCodeValue (spec : FSpec) (f : Expr) (args : List Expr) : Except Err Expr :=
  if args.length ≠ spec.args.length then .error .arity
  else match shape f, spec.methodObject with
    | .attrName _ _, none => .error .functionAsMethod
    | .attrOther _, none => .error .functionAsMethod
    | .name _, some _ => .error .methodAsFunction
    | .name _, none => .ok (.cpp (spec.toCodeValue none) args)
    | .attrName r _, some mo => .ok (.cpp (spec.toCodeValue (some (mo, r))) args)
    | _, _ => .error .badCallee

/-- `isNonnullAst` of the two CMS back ends: only the number of arguments is looked at. -/
def nonnullCodeValue : CodeValue :=
  { varPrefix := "is_non_null".toList, includes := [], args := ["cms_object".toList],
    code := ["auto result = (cms_object).isNonnull();".toList], result := "result".toList,
    retType := "bool".toList, isCollection := false, instance_ := none }

/-- What a name in `method_names` is bound to. -/
inductive Handler where
  | spec (s : FSpec)         -- `lambda call_node: build_CPPCodeValue(spec, call_node)`
  | nonnull                  -- `isNonnullAst`
  | refuse                   -- `getAttribute`: raises
deriving Repr, DecidableEq

abbrev Table := List (Str × Handler)

def Table.get? : Table → Str → Option Handler
  | [], _ => none
  | (k, h) :: t, n => if k = n then some h else Table.get? t n

def applyHandler (h : Handler) (f : Expr) (args : List Expr) : Except Err Expr :=
  match h with
  | .spec s => buildCPPCodeValue s f args
  | .nonnull => if args.length ≠ 1 then .error .arity else .ok (.cpp nonnullCodeValue args)
  | .refuse => .error .refused

/-! ## Part C — `cpp_ast_finder` -/

/-- The name under which `visit_Call` looks the call up: `obj.name(...)` only when `obj` is a
plain `Name`, or `name(...)`. -/
def calleeKey (f : Expr) : Option Str :=
  match shape f with
  | .attrName _ a => some a
  | .name n => some n
  | _ => none

mutual
/-- `cpp_ast_finder(method_names).visit(e)`: children first (`func`, then the arguments), then
the call itself. -/
def finder (tbl : Table) : Expr → Except Err Expr
  | .name id => .ok (.name id)
  | .const t => .ok (.const t)
  | .opaque t => .ok (.opaque t)
  | .attr o a =>
    match finder tbl o with
    | .error e => .error e
    | .ok o' => .ok (.attr o' a)
  | .binop op l r =>
    match finder tbl l with
    | .error e => .error e
    | .ok l' =>
      match finder tbl r with
      | .error e => .error e
      | .ok r' => .ok (.binop op l' r')
  | .cpp cv args =>
    match finderList tbl args with
    | .error e => .error e
    | .ok args' => .ok (.cpp cv args')
  | .call f args =>
    match finder tbl f with
    | .error e => .error e
    | .ok f' =>
      match finderList tbl args with
      | .error e => .error e
      | .ok args' =>
        match calleeKey f' with
        | none => .ok (.call f' args')
        | some k =>
          match tbl.get? k with
          | none => .ok (.call f' args')
          | some h => applyHandler h f' args'
def finderList (tbl : Table) : List Expr → Except Err (List Expr)
  | [] => .ok []
  | e :: es =>
    match finder tbl e with
    | .error x => .error x
    | .ok e' =>
      match finderList tbl es with
      | .error x => .error x
      | .ok es' => .ok (e' :: es')
end

/-! ## Part D — `process_ast_node` inside the enclosing block -/

/-- What lands in the enclosing block (the loop body). Names of generated variables are text. -/
inductive Item where
  | decl (ty name : Str)                         -- `T name;` in the declaration list of the block
  | block (lines : List Str) (lhs rhs : Str)     -- `{ lines…; lhs = rhs; }`
deriving Repr, DecidableEq

structure St where
  next : Nat                 -- `cpp_vars.unique_var_index`
  decls : List Item          -- declarations of the enclosing block, in creation order
  stmts : List Item          -- statements of the enclosing block, in insertion order
  includes : List Str        -- `generated_code._include_files`
deriving Repr

/-- `gc.add_include` for each file: no duplicates, first occurrence order -/
def addIncludes : List Str → List Str → List Str
  | acc, [] => acc
  | acc, i :: is => addIncludes (if i ∈ acc then acc else acc ++ [i]) is

/-- `str(n)` (= `(toString n).toList`, `Nat.toList_repr`) -/
def natStr (n : Nat) : Str := Nat.toDigits 10 n

/-- `unique_name(prefix)` -/
def uniqueName (pre : Str) (idx : Nat) : Str := pre ++ natStr idx

def declType (cv : CodeValue) : Str :=
  if cv.isCollection then "std::vector<".toList ++ cv.retType ++ ">".toList else cv.retType

/-- the replacement list of `process_ast_node`: receiver first, then parameter ↦ argument text -/
def replList (cv : CodeValue) (recv : Option Str) (argTexts : List Str) : List Binding :=
  (match cv.instance_, recv with
   | some (mo, _), some r => [(mo, r)]
   | _, _ => []) ++ cv.args.zip argTexts

/-- the lines of the injected block -/
def blockLines (W : Char → Bool) (cv : CodeValue) (repl : List Binding) : List Str :=
  cv.code.map (fun l => withSemi (replaceWholeWords W repl l))

abbrev Env := List (Str × Str)

def Env.get? : Env → Str → Option Str
  | [], _ => none
  | (k, v) :: t, n => if k = n then some v else Env.get? t n

/-- the receiver text `process_ast_node` binds (`visitor.resolve_id(name).rep.as_cpp()`):
`none` = a receiver name without representation -/
def recvOf (env : Env) (cv : CodeValue) : Option (Option Str) :=
  match cv.instance_ with
  | none => some none
  | some (_, r) =>
    match env.get? r with
    | some t => some (some t)
    | none => none

mutual
/-- The C++ text standing for `e` and the state of the enclosing block afterwards.
For a `cpp` node this is `process_ast_node`: declare the result variable in the *enclosing*
block, add the include files, bind the receiver, evaluate the arguments left to right (their
own injected blocks are emitted first), then emit one block: substituted code lines followed by
`resultVar = <result name>;`. -/
def emit (W : Char → Bool) (env : Env) : Expr → St → Except Err (Str × St)
  | .opaque t, s => .ok (t, s)
  | .const t, s => .ok (t, s)
  | .name id, s =>
    match env.get? id with
    | some t => .ok (t, s)
    | none => .error (.unbound id)
  | .attr _ _, _ => .error .unsupported
  | .call _ _, _ => .error .unsupported
  | .binop _ _ _, _ => .error .unsupported
  | .cpp cv args, s =>
    match recvOf env cv with
    | none => .error (.unbound [])
    | some recv =>
      match emitList W env args
          { s with next := s.next + 1,
                   decls := s.decls ++ [.decl (declType cv) (uniqueName cv.varPrefix s.next)],
                   includes := addIncludes s.includes cv.includes } with
      | .error e => .error e
      | .ok (texts, s2) =>
        .ok (uniqueName cv.varPrefix s.next,
             { s2 with stmts := s2.stmts ++
                 [.block (blockLines W cv (replList cv recv texts)) (uniqueName cv.varPrefix s.next) cv.result] })
def emitList (W : Char → Bool) (env : Env) : List Expr → St → Except Err (List Str × St)
  | [], s => .ok ([], s)
  | e :: es, s =>
    match emit W env e s with
    | .error x => .error x
    | .ok (t, s1) =>
      match emitList W env es s1 with
      | .error x => .error x
      | .ok (ts, s2) => .ok (t :: ts, s2)
end

structure Body where
  decls : List Item
  stmts : List Item
  cols : List Str            -- the text each column of the final `Select` evaluates to
  includes : List Str
deriving Repr

/-- metadata functions override built-ins of the same name (`method_names.update`), a later
metadata entry overrides an earlier one -/
def mkTable (builtins : Table) (specs : List FSpec) : Table :=
  (specs.reverse.map (fun s => (s.name, Handler.spec s))) ++ builtins

/-- finder, then emission of the columns in order, in an initially empty enclosing block -/
def runQuery (W : Char → Bool) (builtins : Table) (specs : List FSpec) (env : Env) (cols : List Expr)
    (start : Nat) : Except Err Body :=
  match finderList (mkTable builtins specs) cols with
  | .error e => .error e
  | .ok cols' =>
    match emitList W env cols' ⟨start, [], [], []⟩ with
    | .error e => .error e
    | .ok (texts, s) => .ok ⟨s.decls, s.stmts, texts, s.includes⟩

end FaxVerif.C11
