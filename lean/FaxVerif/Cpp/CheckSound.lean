/-
Cpp — soundness of the definite-assignment checker `da` with respect to the semantics `exec`.

Main theorem `exec_sound`: if `da` accepts a statement from analysis state `s`, then for ANY two
machine states that agree on the initialised names `s.A` (and have the names of `s.D` declared),
running the statement gives the same outcome: the same fault — which is never `unbound` — or
states that again agree on the resulting `A`, with the same rows written.
Taking the two states equal gives "no read of an undeclared/uninitialised name" (C02);
taking them different gives "the outcome depends on nothing outside `A`" (C05).
-/
import FaxVerif.Cpp.Check
namespace FaxVerif.Cpp
variable {D : Type}

/-! ## lists as sets -/

theorem subset_iff (xs ys : List String) : subset xs ys = true ↔ ∀ x ∈ xs, x ∈ ys := by
  simp [subset, List.all_eq_true]

theorem mem_inter (x : String) (xs ys : List String) : x ∈ inter xs ys ↔ x ∈ xs ∧ x ∈ ys := by
  simp [inter, List.mem_filter]

/-! ## the semantic invariant -/

/-- Two environments are *good* for an analysis state: every initialised name holds the same
value in both, every declared name is declared in both. -/
def Good (s : DA) (σ σ' : Env D) : Prop :=
  (∀ x ∈ s.A, ∃ v, σ x = some (.val v) ∧ σ' x = some (.val v)) ∧
  (∀ x ∈ s.D, (σ x).isSome = true ∧ (σ' x).isSome = true)

theorem Good.weaken {s s' : DA} {σ σ' : Env D} (h : Good s' σ σ')
    (hA : ∀ x ∈ s.A, x ∈ s'.A) (hD : ∀ x ∈ s.D, x ∈ s'.D) : Good s σ σ' :=
  ⟨fun x hx => h.1 x (hA x hx), fun x hx => h.2 x (hD x hx)⟩

theorem Good.set {s : DA} {σ σ' : Env D} (h : Good s σ σ') (x : String) (v : Val D) :
    Good { D := x :: s.D, A := x :: s.A } (σ.set x v) (σ'.set x v) := by
  constructor
  · intro y hy
    by_cases hyx : y = x
    · subst hyx; exact ⟨v, by simp [Env.set], by simp [Env.set]⟩
    · have : y ∈ s.A := by simpa [hyx] using hy
      obtain ⟨w, h1, h2⟩ := h.1 y this
      exact ⟨w, by simp [Env.set, hyx, h1], by simp [Env.set, hyx, h2]⟩
  · intro y hy
    by_cases hyx : y = x
    · subst hyx; simp [Env.set]
    · have : y ∈ s.D := by simpa [hyx] using hy
      simpa [Env.set, hyx] using h.2 y this

theorem Good.set' {s : DA} {σ σ' : Env D} (h : Good s σ σ') (x : String) (v : Val D) :
    Good { s with A := x :: s.A } (σ.set x v) (σ'.set x v) :=
  (h.set x v).weaken (fun _ hy => hy) (fun y hy => List.mem_cons_of_mem _ hy)

theorem Good.declare {s : DA} {σ σ' : Env D} (h : Good s σ σ') (x : String) (hx : x ∉ s.A) :
    Good { D := x :: s.D, A := s.A } (σ.declare x) (σ'.declare x) := by
  constructor
  · intro y hy
    have hyx : y ≠ x := fun e => hx (e ▸ hy)
    obtain ⟨w, h1, h2⟩ := h.1 y hy
    exact ⟨w, by simp [Env.declare, hyx, h1], by simp [Env.declare, hyx, h2]⟩
  · intro y hy
    by_cases hyx : y = x
    · subst hyx; simp [Env.declare]
    · have : y ∈ s.D := by simpa [hyx] using hy
      simpa [Env.declare, hyx] using h.2 y this

/-! ## expressions -/

def NotUnbound {α} (r : Except Fault α) : Prop := ∀ n, r ≠ .error (.unbound n)

theorem arith_nu (N : Num D) (op : String) (a b : Val D) : NotUnbound (arith N op a b) := by
  intro n
  unfold arith
  repeat' split
  all_goals simp

theorem unop_nu (N : Num D) (op : String) (a : Val D) : NotUnbound (unop N op a) := by
  intro n
  unfold unop
  repeat' split
  all_goals simp

theorem castTo_nu (N : Num D) (ty : String) (a : Val D) : NotUnbound (castTo N ty a) := by
  intro n
  unfold castTo
  repeat' split
  all_goals simp

theorem member_nu (r : Val D) (name : String) (args : List (Val D)) : NotUnbound (member r name args) := by
  intro n
  unfold member
  repeat' split
  all_goals simp

mutual
  theorem evalE_good (N : Num D) (s : DA) (σ σ' : Env D) (h : Good s σ σ') :
      ∀ e : CExpr, clean e = true → (∀ x ∈ vars e, x ∈ s.A) →
        evalE N σ e = evalE N σ' e ∧ NotUnbound (evalE N σ e)
    | .var n, _, hv => by
      obtain ⟨v, h1, h2⟩ := h.1 n (hv n (by simp [vars]))
      simp [evalE, h1, h2, NotUnbound]
    | .int _, _, _ => by simp [evalE, NotUnbound]
    | .dbl _ _ _, _, _ => by simp [evalE, NotUnbound]
    | .bool _, _, _ => by simp [evalE, NotUnbound]
    | .str _, _, _ => by simp [evalE, NotUnbound]
    | .un op a, hc, hv => by
      have ih := evalE_good N s σ σ' h a (by simpa [clean] using hc) (fun x hx => hv x (by simpa [vars] using hx))
      constructor
      · simp only [evalE, ih.1]
      · intro n
        simp only [evalE]
        cases hr : evalE N σ a with
        | ok v => exact unop_nu N op v n
        | error f => have := ih.2 n; rw [hr] at this; simpa using this
    | .bin op a b, hc, hv => by
      have hc' : clean a = true ∧ clean b = true := by simpa [clean] using hc
      have iha := evalE_good N s σ σ' h a hc'.1 (fun x hx => hv x (by simp [vars, hx]))
      have ihb := evalE_good N s σ σ' h b hc'.2 (fun x hx => hv x (by simp [vars, hx]))
      constructor
      · simp only [evalE, iha.1, ihb.1]
      · intro n
        simp only [evalE]
        cases hra : evalE N σ a with
        | error f => have := iha.2 n; rw [hra] at this; simpa using this
        | ok va =>
          have hb := ihb.2 n
          cases hrb : evalE N σ b with
          | error f =>
            rw [hrb] at hb
            simp only []
            repeat' split
            all_goals first | exact hb | simp
          | ok vb =>
            have := arith_nu N op va vb n
            simp only []
            repeat' split
            all_goals first | exact this | simp
    | .deref a, hc, hv => by
      have ih := evalE_good N s σ σ' h a (by simpa [clean] using hc) (fun x hx => hv x (by simpa [vars] using hx))
      constructor
      · simp only [evalE, ih.1]
      · intro n
        simp only [evalE]
        cases hr : evalE N σ a with
        | ok v => cases v <;> simp
        | error f => have := ih.2 n; rw [hr] at this; simpa using this
    | .mem o arrow name args, hc, hv => by
      have hc' : clean o = true ∧ cleanL args = true := by simpa [clean] using hc
      have iho := evalE_good N s σ σ' h o hc'.1 (fun x hx => hv x (by simp [vars, hx]))
      have iha := evalEs_good N s σ σ' h args hc'.2 (fun x hx => hv x (by simp [vars, hx]))
      constructor
      · simp only [evalE, iho.1, iha.1]
      · intro n
        simp only [evalE]
        cases hro : evalE N σ o with
        | error f => have := iho.2 n; rw [hro] at this; simpa using this
        | ok r =>
          cases hra : evalEs N σ args with
          | error f => have := iha.2 n; rw [hra] at this; simpa using this
          | ok vs => exact member_nu r name vs n
    | .call f args, hc, hv => by
      have iha := evalEs_good N s σ σ' h args (by simpa [clean] using hc) (fun x hx => hv x (by simpa [vars] using hx))
      constructor
      · simp only [evalE, iha.1]
      · intro n
        simp only [evalE]
        cases hra : evalEs N σ args with
        | error f => have := iha.2 n; rw [hra] at this; simpa using this
        | ok vs =>
          simp only []
          repeat' split
          all_goals simp
    | .cast ty a, hc, hv => by
      have ih := evalE_good N s σ σ' h a (by simpa [clean] using hc) (fun x hx => hv x (by simpa [vars] using hx))
      constructor
      · simp only [evalE, ih.1]
      · intro n
        simp only [evalE]
        cases hr : evalE N σ a with
        | ok v => exact castTo_nu N ty v n
        | error f => have := ih.2 n; rw [hr] at this; simpa using this
    | .opaque _, hc, _ => by simp [clean] at hc
  theorem evalEs_good (N : Num D) (s : DA) (σ σ' : Env D) (h : Good s σ σ') :
      ∀ es : List CExpr, cleanL es = true → (∀ x ∈ varsL es, x ∈ s.A) →
        evalEs N σ es = evalEs N σ' es ∧ NotUnbound (evalEs N σ es)
    | [], _, _ => by simp [evalEs, NotUnbound]
    | e :: es, hc, hv => by
      have hc' : clean e = true ∧ cleanL es = true := by simpa [cleanL] using hc
      have ihe := evalE_good N s σ σ' h e hc'.1 (fun x hx => hv x (by simp [varsL, hx]))
      have ihs := evalEs_good N s σ σ' h es hc'.2 (fun x hx => hv x (by simp [varsL, hx]))
      constructor
      · simp only [evalEs, ihe.1, ihs.1]
      · intro n
        simp only [evalEs]
        cases hre : evalE N σ e with
        | error f => have := ihe.2 n; rw [hre] at this; simpa using this
        | ok v =>
          cases hrs : evalEs N σ es with
          | error f => have := ihs.2 n; rw [hrs] at this; simpa using this
          | ok vs => simp
end

theorem okE_good (N : Num D) (s : DA) (σ σ' : Env D) (h : Good s σ σ') (e : CExpr) (hok : okE s e = true) :
    evalE N σ e = evalE N σ' e ∧ NotUnbound (evalE N σ e) := by
  have : clean e = true ∧ subset (vars e) s.A = true := by simpa [okE] using hok
  exact evalE_good N s σ σ' h e this.1 ((subset_iff _ _).1 this.2)

end FaxVerif.Cpp

namespace FaxVerif.Cpp
variable {D : Type}

/-! ## statements -/

def AsubD (s : DA) : Prop := ∀ x ∈ s.A, x ∈ s.D

mutual
  theorem da_mono (C : DACtx) : ∀ (st : Stmt) (s s' : DA), da C st s = some s' → AsubD s →
      AsubD s' ∧ (∀ x ∈ s.A, x ∈ s'.A) ∧ (∀ x ∈ s.D, x ∈ s'.D)
    | .block body, s, s', h, hs => by
      simp only [da] at h
      split at h
      · rename_i s1 h1
        obtain ⟨_, hA, _⟩ := das_mono C body s s1 h1 hs
        simp only [Option.some.injEq] at h; subst h
        refine ⟨?_, ?_, fun x hx => hx⟩
        · intro x hx; simp only [List.mem_filter, decide_eq_true_eq] at hx; exact hx.2
        · intro x hx; simp only [List.mem_filter, decide_eq_true_eq]; exact ⟨hA x hx, hs x hx⟩
      · simp at h
    | .loop x coll body, s, s', h, hs => by
      simp only [da] at h
      split at h
      · split at h
        · simp only [Option.some.injEq] at h; subst h; exact ⟨hs, fun _ h => h, fun _ h => h⟩
        · simp at h
      · simp at h
    | .ite c thn els, s, s', h, hs => by
      simp only [da] at h
      split at h
      · split at h
        · simp at h
        · rename_i st hst
          obtain ⟨_, hAt, _⟩ := das_mono C thn s st hst hs
          split at h
          · simp at h
          · rename_i se hse
            obtain ⟨_, hAe, _⟩ := das_mono C els s se hse hs
            simp only [Option.some.injEq] at h; subst h
            refine ⟨?_, ?_, fun x hx => hx⟩
            · intro x hx; simp only [List.mem_filter, decide_eq_true_eq] at hx; exact hx.2
            · intro x hx
              simp only [List.mem_filter, decide_eq_true_eq, mem_inter]
              exact ⟨⟨hAt x hx, hAe x hx⟩, hs x hx⟩
      · simp at h
    | .decl ty n init, s, s', h, hs => by
      simp only [da] at h
      split at h
      · simp at h
      · cases init with
        | some e =>
          simp only at h
          split at h
          · simp only [Option.some.injEq] at h; subst h
            refine ⟨?_, fun x hx => List.mem_cons_of_mem _ hx, fun x hx => List.mem_cons_of_mem _ hx⟩
            intro x hx
            rcases List.mem_cons.1 hx with rfl | hx
            · simp
            · exact List.mem_cons_of_mem _ (hs x hx)
          · simp at h
        | none =>
          simp only at h
          split at h
          · simp only [Option.some.injEq] at h; subst h
            refine ⟨?_, fun x hx => List.mem_cons_of_mem _ hx, fun x hx => List.mem_cons_of_mem _ hx⟩
            intro x hx
            rcases List.mem_cons.1 hx with rfl | hx
            · simp
            · exact List.mem_cons_of_mem _ (hs x hx)
          · simp only [Option.some.injEq] at h; subst h
            exact ⟨fun x hx => List.mem_cons_of_mem _ (hs x hx), fun _ h => h, fun x hx => List.mem_cons_of_mem _ hx⟩
    | .set x e, s, s', h, hs => by
      simp only [da] at h
      split at h
      · rename_i hc
        simp only [Option.some.injEq] at h; subst h
        have hx : x ∈ s.D := by simp only [Bool.and_eq_true, decide_eq_true_eq] at hc; exact hc.1
        refine ⟨?_, fun y hy => List.mem_cons_of_mem _ hy, fun _ h => h⟩
        intro y hy
        rcases List.mem_cons.1 hy with rfl | hy
        · exact hx
        · exact hs y hy
      · simp at h
    | .push x e, s, s', h, hs => by
      simp only [da] at h
      split at h
      · simp only [Option.some.injEq] at h; subst h; exact ⟨hs, fun _ h => h, fun _ h => h⟩
      · simp at h
    | .clear x, s, s', h, hs => by
      simp only [da] at h
      split at h
      · simp only [Option.some.injEq] at h; subst h; exact ⟨hs, fun _ h => h, fun _ h => h⟩
      · simp at h
    | .fill _, s, s', h, hs => by
      simp only [da] at h
      split at h
      · simp only [Option.some.injEq] at h; subst h; exact ⟨hs, fun _ h => h, fun _ h => h⟩
      · simp at h
    | .throw _, s, s', h, hs => by
      simp only [da, Option.some.injEq] at h; subst h; exact ⟨hs, fun _ h => h, fun _ h => h⟩
    | .retrieve how _ v bank token, s, s', h, hs => by
      simp only [da] at h
      split at h
      · rename_i hc
        simp only [Option.some.injEq] at h; subst h
        have hv : v ∈ s.D := by simp only [Bool.and_eq_true, decide_eq_true_eq] at hc; exact hc.1
        refine ⟨?_, fun y hy => List.mem_cons_of_mem _ hy, fun _ h => h⟩
        intro y hy
        rcases List.mem_cons.1 hy with rfl | hy
        · exact hv
        · exact hs y hy
      · simp at h
    | .line _, s, s', h, _ => by simp [da] at h
  theorem das_mono (C : DACtx) : ∀ (l : List Stmt) (s s' : DA), das C l s = some s' → AsubD s →
      AsubD s' ∧ (∀ x ∈ s.A, x ∈ s'.A) ∧ (∀ x ∈ s.D, x ∈ s'.D)
    | [], s, s', h, hs => by
      simp only [das, Option.some.injEq] at h; subst h; exact ⟨hs, fun _ h => h, fun _ h => h⟩
    | st :: rest, s, s', h, hs => by
      simp only [das] at h
      split at h
      · rename_i s1 h1
        obtain ⟨hs1, hA1, hD1⟩ := da_mono C st s s1 h1 hs
        obtain ⟨hs2, hA2, hD2⟩ := das_mono C rest s1 s' h hs1
        exact ⟨hs2, fun x hx => hA2 x (hA1 x hx), fun x hx => hD2 x (hD1 x hx)⟩
      · simp at h
end

end FaxVerif.Cpp

namespace FaxVerif.Cpp
variable {D : Type}

/-- Outcomes of two runs are *good* for the resulting analysis state: the same fault, which is
not `unbound`; or two states that are good for it and have written the same rows. -/
def ResGood (s' : DA) (r r' : Except Fault (St D)) : Prop :=
  (∃ f, r = .error f ∧ r' = .error f ∧ ∀ n, f ≠ .unbound n) ∨
  (∃ t t', r = .ok t ∧ r' = .ok t' ∧ Good s' t.env t'.env ∧ t.rows = t'.rows)

theorem ResGood.weaken {s s' : DA} {r r' : Except Fault (St D)} (h : ResGood s' r r')
    (hA : ∀ x ∈ s.A, x ∈ s'.A) (hD : ∀ x ∈ s.D, x ∈ s'.D) : ResGood s r r' := by
  rcases h with h | ⟨t, t', h1, h2, hg, hr⟩
  · exact Or.inl h
  · exact Or.inr ⟨t, t', h1, h2, hg.weaken hA hD, hr⟩

theorem resGood_err {s' : DA} (f : Fault) (hf : ∀ n, f ≠ .unbound n) :
    ResGood (D := D) s' (.error f) (.error f) := Or.inl ⟨f, rfl, rfl, hf⟩

theorem readCols_good (s : DA) (σ σ' : Env D) (h : Good s σ σ') :
    ∀ cols : List String, (∀ c ∈ cols, c ∈ s.A) → readCols σ cols = readCols σ' cols ∧ NotUnbound (readCols σ cols)
  | [], _ => by simp [readCols, NotUnbound]
  | c :: cs, hc => by
    obtain ⟨v, h1, h2⟩ := h.1 c (hc c (by simp))
    have ih := readCols_good s σ σ' h cs (fun x hx => hc x (by simp [hx]))
    constructor
    · simp only [readCols, h1, h2, ih.1]
    · intro n
      simp only [readCols, h1]
      cases hr : readCols σ cs with
      | ok vs => simp
      | error f => have := ih.2 n; rw [hr] at this; simpa using this

theorem retrReq_good (C : Ctx D) (DC : DACtx) (htok : ∀ t ∈ DC.tokens, (C.tokenBank t).isSome = true)
    (s : DA) (σ σ' : Env D) (h : Good s σ σ') (how ty : String) (bank : CExpr) (token : String)
    (hok : retrOk DC s how bank token = true) :
    retrReq C σ how ty bank token = retrReq C σ' how ty bank token ∧ NotUnbound (retrReq C σ how ty bank token) := by
  unfold retrOk at hok
  unfold retrReq
  by_cases hh : how = "token"
  · simp only [hh, if_true] at hok ⊢
    have ht := htok token (by simpa using hok)
    cases htb : C.tokenBank token with
    | none => rw [htb] at ht; simp at ht
    | some p =>
      refine ⟨trivial, ?_⟩
      intro n
      obtain ⟨tty, b⟩ := p
      simp only []
      repeat' split
      all_goals simp
  · simp only [hh, if_false] at hok ⊢
    have he := okE_good C.N s σ σ' h bank hok
    constructor
    · rw [he.1]
    · intro n
      have hnu := he.2 n
      generalize evalE C.N σ bank = r at hnu
      cases r with
      | error f => simpa using hnu
      | ok v =>
        cases v <;> simp only [] <;> (repeat' split) <;> simp

theorem iter_good (s sb : DA) (f : St D → Val D → Except Fault (St D))
    (hf : ∀ t t' v, Good s t.env t'.env → t.rows = t'.rows → ResGood sb (f t v) (f t' v))
    (hA : ∀ x ∈ s.A, x ∈ sb.A) (hD : ∀ x ∈ s.D, x ∈ sb.D) :
    ∀ (l : List (Val D)) (t t' : St D), Good s t.env t'.env → t.rows = t'.rows →
      ResGood s (iter f l t) (iter f l t')
  | [], t, t', hg, hr => Or.inr ⟨t, t', rfl, rfl, hg, hr⟩
  | v :: vs, t, t', hg, hr => by
    rcases hf t t' v hg hr with ⟨e, h1, h2, he⟩ | ⟨u, u', h1, h2, hgu, hru⟩
    · simp only [iter, h1, h2]; exact resGood_err e he
    · simp only [iter, h1, h2]
      exact iter_good s sb f hf hA hD vs u u' (hgu.weaken hA hD) hru

mutual
  theorem exec_sound (C : Ctx D) (DC : DACtx) (hcols : DC.cols = C.cols)
      (htok : ∀ t ∈ DC.tokens, (C.tokenBank t).isSome = true) :
      ∀ (st : Stmt) (s s' : DA) (t t' : St D), da DC st s = some s' → AsubD s →
        Good s t.env t'.env → t.rows = t'.rows → ResGood s' (exec C st t) (exec C st t')
    | .block body, s, s', t, t', h, hs, hg, hr => by
      simp only [da] at h
      split at h
      · rename_i s1 h1
        simp only [Option.some.injEq] at h; subst h
        have := execs_sound C DC hcols htok body s s1 t t' h1 hs hg hr
        obtain ⟨_, _, hD1⟩ := das_mono DC body s s1 h1 hs
        simp only [exec]
        exact this.weaken (fun x hx => by simp only [List.mem_filter, decide_eq_true_eq] at hx; exact hx.1) hD1
      · simp at h
    | .loop x coll body, s, s', t, t', h, hs, hg, hr => by
      simp only [da] at h
      split at h
      · rename_i hc
        split at h
        · rename_i sb hb
          simp only [Option.some.injEq] at h; subst h
          have hc' : okE s coll = true ∧ x ∉ s.D := by simpa using hc
          have he := okE_good C.N s t.env t'.env hg coll hc'.1
          simp only [exec, ← he.1]
          cases hr' : evalE C.N t.env coll with
          | error f => exact resGood_err f (fun n => by have := he.2 n; rw [hr'] at this; simpa using this)
          | ok v =>
            have hsx : AsubD { D := x :: s.D, A := x :: s.A } := by
              intro y hy
              rcases List.mem_cons.1 hy with rfl | hy
              · simp
              · exact List.mem_cons_of_mem _ (hs y hy)
            obtain ⟨_, hAb, hDb⟩ := das_mono DC body _ sb hb hsx
            cases v with
            | vec l =>
              simp only []
              apply iter_good s sb _ _ (fun y hy => hAb y (List.mem_cons_of_mem _ hy))
                (fun y hy => hDb y (List.mem_cons_of_mem _ hy)) l t t' hg hr
              intro u u' w hgu hru
              exact execs_sound C DC hcols htok body _ sb _ _ hb hsx (hgu.set x w) hru
            | _ => exact resGood_err _ (by simp)
        · simp at h
      · simp at h
    | .ite c thn els, s, s', t, t', h, hs, hg, hr => by
      simp only [da] at h
      split at h
      · rename_i hc
        split at h
        · simp at h
        · rename_i st hst
          split at h
          · simp at h
          · rename_i se hse
            simp only [Option.some.injEq] at h; subst h
            have he := okE_good C.N s t.env t'.env hg c hc
            obtain ⟨_, _, hDt⟩ := das_mono DC thn s st hst hs
            obtain ⟨_, _, hDe⟩ := das_mono DC els s se hse hs
            simp only [exec, ← he.1]
            cases hr' : evalE C.N t.env c with
            | error f => exact resGood_err f (fun n => by have := he.2 n; rw [hr'] at this; simpa using this)
            | ok v =>
              simp only []
              cases hb : asBool C.N v with
              | none => exact resGood_err _ (by simp)
              | some b =>
                cases b with
                | true =>
                  simp only []
                  exact (execs_sound C DC hcols htok thn s st t t' hst hs hg hr).weaken
                    (fun x hx => by simp only [List.mem_filter, decide_eq_true_eq, mem_inter] at hx; exact hx.1.1) hDt
                | false =>
                  simp only []
                  exact (execs_sound C DC hcols htok els s se t t' hse hs hg hr).weaken
                    (fun x hx => by simp only [List.mem_filter, decide_eq_true_eq, mem_inter] at hx; exact hx.1.2) hDe
      · simp at h
    | .decl ty n init, s, s', t, t', h, hs, hg, hr => by
      simp only [da] at h
      split at h
      · simp at h
      · rename_i hn
        cases init with
        | some e =>
          simp only at h
          split at h
          · rename_i hc
            simp only [Option.some.injEq] at h; subst h
            have he := okE_good C.N s t.env t'.env hg e hc
            simp only [exec, ← he.1]
            cases hr' : evalE C.N t.env e with
            | error f => exact resGood_err f (fun n => by have := he.2 n; rw [hr'] at this; simpa using this)
            | ok v =>
              simp only []
              cases hcst : castTo C.N ty v with
              | error f => exact resGood_err f (castTo_nu C.N ty v · |> fun h => by rw [hcst] at h; simpa using h)
              | ok v' => exact Or.inr ⟨_, _, rfl, rfl, hg.set n v', hr⟩
          · simp at h
        | none =>
          simp only at h
          split at h
          · rename_i hv
            simp only [Option.some.injEq] at h; subst h
            simp only [exec, hv, if_true]
            exact Or.inr ⟨_, _, rfl, rfl, hg.set n _, hr⟩
          · rename_i hv
            simp only [Option.some.injEq] at h; subst h
            simp only [exec, hv]
            exact Or.inr ⟨_, _, rfl, rfl, hg.declare n (fun hA => hn (hs n hA)), hr⟩
    | .set x e, s, s', t, t', h, hs, hg, hr => by
      simp only [da] at h
      split at h
      · rename_i hc
        simp only [Option.some.injEq] at h; subst h
        have hc' : x ∈ s.D ∧ okE s e = true := by simpa using hc
        have he := okE_good C.N s t.env t'.env hg e hc'.2
        obtain ⟨h1, h2⟩ := hg.2 x hc'.1
        simp only [exec, ← he.1]
        cases hx : t.env x with
        | none => rw [hx] at h1; simp at h1
        | some sl =>
          cases hx' : t'.env x with
          | none => rw [hx'] at h2; simp at h2
          | some sl' =>
            simp only []
            cases hr' : evalE C.N t.env e with
            | error f => exact resGood_err f (fun n => by have := he.2 n; rw [hr'] at this; simpa using this)
            | ok v => exact Or.inr ⟨_, _, rfl, rfl, hg.set' x v, hr⟩
      · simp at h
    | .push x e, s, s', t, t', h, hs, hg, hr => by
      simp only [da] at h
      split at h
      · rename_i hc
        simp only [Option.some.injEq] at h; subst h
        have hc' : x ∈ s.A ∧ okE s e = true := by simpa using hc
        have he := okE_good C.N s t.env t'.env hg e hc'.2
        obtain ⟨v, h1, h2⟩ := hg.1 x hc'.1
        simp only [exec, h1, h2, ← he.1]
        cases v with
        | vec l =>
          simp only []
          cases hr' : evalE C.N t.env e with
          | error f => exact resGood_err f (fun n => by have := he.2 n; rw [hr'] at this; simpa using this)
          | ok w =>
            exact Or.inr ⟨_, _, rfl, rfl, (hg.set' x _).weaken (fun y hy => List.mem_cons_of_mem _ hy) (fun _ hy => hy), hr⟩
        | _ => exact resGood_err _ (by simp)
      · simp at h
    | .clear x, s, s', t, t', h, hs, hg, hr => by
      simp only [da] at h
      split at h
      · rename_i hc
        simp only [Option.some.injEq] at h; subst h
        obtain ⟨v, h1, h2⟩ := hg.1 x (by simpa using hc)
        simp only [exec, h1, h2]
        cases v with
        | vec l =>
          exact Or.inr ⟨_, _, rfl, rfl, (hg.set' x _).weaken (fun y hy => List.mem_cons_of_mem _ hy) (fun _ hy => hy), hr⟩
        | _ => exact resGood_err _ (by simp)
      · simp at h
    | .fill _, s, s', t, t', h, hs, hg, hr => by
      simp only [da] at h
      split at h
      · rename_i hc
        simp only [Option.some.injEq] at h; subst h
        have hcs := readCols_good s t.env t'.env hg C.cols (by rw [← hcols]; exact (subset_iff _ _).1 hc)
        simp only [exec, ← hcs.1]
        cases hr' : readCols t.env C.cols with
        | error f => exact resGood_err f (fun n => by have := hcs.2 n; rw [hr'] at this; simpa using this)
        | ok r => exact Or.inr ⟨_, _, rfl, rfl, hg, by simp [hr]⟩
      · simp at h
    | .throw msg, s, s', t, t', h, hs, hg, hr => by
      simp only [exec]; exact resGood_err _ (by simp)
    | .retrieve how ty v bank token, s, s', t, t', h, hs, hg, hr => by
      simp only [da] at h
      split at h
      · rename_i hc
        simp only [Option.some.injEq] at h; subst h
        have hc' : v ∈ s.D ∧ retrOk DC s how bank token = true := by simpa using hc
        have hq := retrReq_good C DC htok s t.env t'.env hg how ty bank token hc'.2
        obtain ⟨h1, h2⟩ := hg.2 v hc'.1
        simp only [exec, ← hq.1]
        cases hx : t.env v with
        | none => rw [hx] at h1; simp at h1
        | some sl =>
          cases hx' : t'.env v with
          | none => rw [hx'] at h2; simp at h2
          | some sl' =>
            simp only []
            cases hr' : retrReq C t.env how ty bank token with
            | error f => exact resGood_err f (fun n => by have := hq.2 n; rw [hr'] at this; simpa using this)
            | ok content => exact Or.inr ⟨_, _, rfl, rfl, hg.set' v content, hr⟩
      · simp at h
    | .line _, s, s', t, t', h, _, _, _ => by simp [da] at h
  theorem execs_sound (C : Ctx D) (DC : DACtx) (hcols : DC.cols = C.cols)
      (htok : ∀ t ∈ DC.tokens, (C.tokenBank t).isSome = true) :
      ∀ (l : List Stmt) (s s' : DA) (t t' : St D), das DC l s = some s' → AsubD s →
        Good s t.env t'.env → t.rows = t'.rows → ResGood s' (execs C l t) (execs C l t')
    | [], s, s', t, t', h, hs, hg, hr => by
      simp only [das, Option.some.injEq] at h; subst h
      exact Or.inr ⟨t, t', rfl, rfl, hg, hr⟩
    | st :: rest, s, s', t, t', h, hs, hg, hr => by
      simp only [das] at h
      split at h
      · rename_i s1 h1
        obtain ⟨hs1, _, _⟩ := da_mono DC st s s1 h1 hs
        rcases exec_sound C DC hcols htok st s s1 t t' h1 hs hg hr with ⟨e, e1, e2, he⟩ | ⟨u, u', e1, e2, hgu, hru⟩
        · simp only [execs, e1, e2]; exact resGood_err e he
        · simp only [execs, e1, e2]
          exact execs_sound C DC hcols htok rest s1 s' u u' h hs1 hgu hru
      · simp at h
end

end FaxVerif.Cpp
