/-
Cpp — soundness of the definite-assignment checker `da` with respect to the semantics `exec`.

Main theorem `exec_sound`: if `da` accepts a statement from analysis state `s`, then for ANY two
machine states that agree on the initialised names `s.A` (and have the names of `s.D` declared),
running the statement gives the same outcome: the same fault — which is never `unbound` — or
states that again agree on the resulting `A`, with the same rows written.
Taking the two states equal gives "no read of an undeclared/uninitialised name" (C02);
taking them different gives "the outcome depends on nothing outside `A`" (C05).
-/
import FaxVerif.Cpp.Check
namespace FaxVerif.Cpp
variable {D : Type}

/-! ## lists as sets -/

theorem subset_iff (xs ys : List String) : subset xs ys = true ↔ ∀ x ∈ xs, x ∈ ys := by
  simp [subset, List.all_eq_true]

theorem mem_inter (x : String) (xs ys : List String) : x ∈ inter xs ys ↔ x ∈ xs ∧ x ∈ ys := by
  simp [inter, List.mem_filter]

/-! ## the semantic invariant -/

/-- Two environments are *good* for an analysis state: every initialised name holds the same
value in both, every declared name is declared in both. -/
def Good (s : DA) (σ σ' : Env D) : Prop :=
  (∀ x ∈ s.A, ∃ v, σ x = some (.val v) ∧ σ' x = some (.val v)) ∧
  (∀ x ∈ s.D, (σ x).isSome = true ∧ (σ' x).isSome = true)

theorem Good.weaken {s s' : DA} {σ σ' : Env D} (h : Good s' σ σ')
    (hA : ∀ x ∈ s.A, x ∈ s'.A) (hD : ∀ x ∈ s.D, x ∈ s'.D) : Good s σ σ' :=
  ⟨fun x hx => h.1 x (hA x hx), fun x hx => h.2 x (hD x hx)⟩

theorem Good.set {s : DA} {σ σ' : Env D} (h : Good s σ σ') (x : String) (v : Val D) :
    Good { D := x :: s.D, A := x :: s.A } (σ.set x v) (σ'.set x v) := by
  constructor
  · intro y hy
    by_cases hyx : y = x
    · subst hyx; exact ⟨v, by simp [Env.set], by simp [Env.set]⟩
    · have : y ∈ s.A := by simpa [hyx] using hy
      obtain ⟨w, h1, h2⟩ := h.1 y this
      exact ⟨w, by simp [Env.set, hyx, h1], by simp [Env.set, hyx, h2]⟩
  · intro y hy
    by_cases hyx : y = x
    · subst hyx; simp [Env.set]
    · have : y ∈ s.D := by simpa [hyx] using hy
      simpa [Env.set, hyx] using h.2 y this

theorem Good.set' {s : DA} {σ σ' : Env D} (h : Good s σ σ') (x : String) (v : Val D) :
    Good { s with A := x :: s.A } (σ.set x v) (σ'.set x v) :=
  (h.set x v).weaken (fun _ hy => hy) (fun y hy => List.mem_cons_of_mem _ hy)

theorem Good.declare {s : DA} {σ σ' : Env D} (h : Good s σ σ') (x : String) (hx : x ∉ s.A) :
    Good { D := x :: s.D, A := s.A } (σ.declare x) (σ'.declare x) := by
  constructor
  · intro y hy
    have hyx : y ≠ x := fun e => hx (e ▸ hy)
    obtain ⟨w, h1, h2⟩ := h.1 y hy
    exact ⟨w, by simp [Env.declare, hyx, h1], by simp [Env.declare, hyx, h2]⟩
  · intro y hy
    by_cases hyx : y = x
    · subst hyx; simp [Env.declare]
    · have : y ∈ s.D := by simpa [hyx] using hy
      simpa [Env.declare, hyx] using h.2 y this

/-! ## expressions -/

def NotUnbound {α} (r : Except Fault α) : Prop := ∀ n, r ≠ .error (.unbound n)

theorem arith_nu (N : Num D) (op : String) (a b : Val D) : NotUnbound (arith N op a b) := by
  intro n
  unfold arith
  repeat' split
  all_goals simp

theorem unop_nu (N : Num D) (op : String) (a : Val D) : NotUnbound (unop N op a) := by
  intro n
  unfold unop
  repeat' split
  all_goals simp

theorem castTo_nu (N : Num D) (ty : String) (a : Val D) : NotUnbound (castTo N ty a) := by
  intro n
  unfold castTo
  repeat' split
  all_goals simp

theorem member_nu (r : Val D) (name : String) (args : List (Val D)) : NotUnbound (member r name args) := by
  intro n
  unfold member
  repeat' split
  all_goals simp

mutual
  theorem evalE_good (N : Num D) (s : DA) (σ σ' : Env D) (h : Good s σ σ') :
      ∀ e : CExpr, clean e = true → (∀ x ∈ vars e, x ∈ s.A) →
        evalE N σ e = evalE N σ' e ∧ NotUnbound (evalE N σ e)
    | .var n, _, hv => by
      obtain ⟨v, h1, h2⟩ := h.1 n (hv n (by simp [vars]))
      simp [evalE, h1, h2, NotUnbound]
    | .int _, _, _ => by simp [evalE, NotUnbound]
    | .dbl _ _ _, _, _ => by simp [evalE, NotUnbound]
    | .bool _, _, _ => by simp [evalE, NotUnbound]
    | .str _, _, _ => by simp [evalE, NotUnbound]
    | .un op a, hc, hv => by
      have ih := evalE_good N s σ σ' h a (by simpa [clean] using hc) (fun x hx => hv x (by simpa [vars] using hx))
      constructor
      · simp only [evalE, ih.1]
      · intro n
        simp only [evalE]
        cases hr : evalE N σ a with
        | ok v => exact unop_nu N op v n
        | error f => have := ih.2 n; rw [hr] at this; simpa using this
    | .bin op a b, hc, hv => by
      have hc' : clean a = true ∧ clean b = true := by simpa [clean] using hc
      have iha := evalE_good N s σ σ' h a hc'.1 (fun x hx => hv x (by simp [vars, hx]))
      have ihb := evalE_good N s σ σ' h b hc'.2 (fun x hx => hv x (by simp [vars, hx]))
      constructor
      · simp only [evalE, iha.1, ihb.1]
      · intro n
        simp only [evalE]
        cases hra : evalE N σ a with
        | error f => have := iha.2 n; rw [hra] at this; simpa using this
        | ok va =>
          have hb := ihb.2 n
          cases hrb : evalE N σ b with
          | error f =>
            rw [hrb] at hb
            simp only []
            repeat' split
            all_goals first | exact hb | simp
          | ok vb =>
            have := arith_nu N op va vb n
            simp only []
            repeat' split
            all_goals first | exact this | simp
    | .deref a, hc, hv => by
      have ih := evalE_good N s σ σ' h a (by simpa [clean] using hc) (fun x hx => hv x (by simpa [vars] using hx))
      constructor
      · simp only [evalE, ih.1]
      · intro n
        simp only [evalE]
        cases hr : evalE N σ a with
        | ok v => cases v <;> simp
        | error f => have := ih.2 n; rw [hr] at this; simpa using this
    | .mem o arrow name args, hc, hv => by
      have hc' : clean o = true ∧ cleanL args = true := by simpa [clean] using hc
      have iho := evalE_good N s σ σ' h o hc'.1 (fun x hx => hv x (by simp [vars, hx]))
      have iha := evalEs_good N s σ σ' h args hc'.2 (fun x hx => hv x (by simp [vars, hx]))
      constructor
      · simp only [evalE, iho.1, iha.1]
      · intro n
        simp only [evalE]
        cases hro : evalE N σ o with
        | error f => have := iho.2 n; rw [hro] at this; simpa using this
        | ok r =>
          cases hra : evalEs N σ args with
          | error f => have := iha.2 n; rw [hra] at this; simpa using this
          | ok vs => exact member_nu r name vs n
    | .call f args, hc, hv => by
      have iha := evalEs_good N s σ σ' h args (by simpa [clean] using hc) (fun x hx => hv x (by simpa [vars] using hx))
      constructor
      · simp only [evalE, iha.1]
      · intro n
        simp only [evalE]
        cases hra : evalEs N σ args with
        | error f => have := iha.2 n; rw [hra] at this; simpa using this
        | ok vs =>
          simp only []
          repeat' split
          all_goals simp
    | .cast ty a, hc, hv => by
      have ih := evalE_good N s σ σ' h a (by simpa [clean] using hc) (fun x hx => hv x (by simpa [vars] using hx))
      constructor
      · simp only [evalE, ih.1]
      · intro n
        simp only [evalE]
        cases hr : evalE N σ a with
        | ok v => exact castTo_nu N ty v n
        | error f => have := ih.2 n; rw [hr] at this; simpa using this
    | .opaque _, hc, _ => by simp [clean] at hc
  theorem evalEs_good (N : Num D) (s : DA) (σ σ' : Env D) (h : Good s σ σ') :
      ∀ es : List CExpr, cleanL es = true → (∀ x ∈ varsL es, x ∈ s.A) →
        evalEs N σ es = evalEs N σ' es ∧ NotUnbound (evalEs N σ es)
    | [], _, _ => by simp [evalEs, NotUnbound]
    | e :: es, hc, hv => by
      have hc' : clean e = true ∧ cleanL es = true := by simpa [cleanL] using hc
      have ihe := evalE_good N s σ σ' h e hc'.1 (fun x hx => hv x (by simp [varsL, hx]))
      have ihs := evalEs_good N s σ σ' h es hc'.2 (fun x hx => hv x (by simp [varsL, hx]))
      constructor
      · simp only [evalEs, ihe.1, ihs.1]
      · intro n
        simp only [evalEs]
        cases hre : evalE N σ e with
        | error f => have := ihe.2 n; rw [hre] at this; simpa using this
        | ok v =>
          cases hrs : evalEs N σ es with
          | error f => have := ihs.2 n; rw [hrs] at this; simpa using this
          | ok vs => simp
end

theorem okE_good (N : Num D) (s : DA) (σ σ' : Env D) (h : Good s σ σ') (e : CExpr) (hok : okE s e = true) :
    evalE N σ e = evalE N σ' e ∧ NotUnbound (evalE N σ e) := by
  have : clean e = true ∧ subset (vars e) s.A = true := by simpa [okE] using hok
  exact evalE_good N s σ σ' h e this.1 ((subset_iff _ _).1 this.2)

end FaxVerif.Cpp

namespace FaxVerif.Cpp
variable {D : Type}

/-! ## the path-sensitive part of the invariant -/

/-- `f` holds a value that a condition reads as false -/
def Falsy (N : Num D) (σ : Env D) (f : String) : Prop :=
  ∃ v, σ f = some (.val v) ∧ asBool N v = some false

/-- flags in `T` hold `true` in both states; a fact `(f, x)` says: when `f` is false in the first
state, `x` is initialised — to the same value in both states. -/
def Extra (N : Num D) (s : DA) (σ σ' : Env D) : Prop :=
  (∀ f ∈ s.T, σ f = some (.val (.bool true)) ∧ σ' f = some (.val (.bool true))) ∧
  (∀ p ∈ s.G, Falsy N σ p.1 → ∃ v, σ p.2 = some (.val v) ∧ σ' p.2 = some (.val v))

def Good2 (N : Num D) (s : DA) (σ σ' : Env D) : Prop := Good s σ σ' ∧ Extra N s σ σ'

theorem Good.of_eq {s s' : DA} {σ σ' : Env D} (h : Good s σ σ') (hA : s'.A = s.A) (hD : s'.D = s.D) :
    Good s' σ σ' := by
  unfold Good at *; rw [hA, hD]; exact h

theorem Env.set_ne (σ : Env D) (x y : String) (v : Val D) (h : y ≠ x) : (σ.set x v) y = σ y := by
  simp [Env.set, h]

theorem Env.set_eq (σ : Env D) (x : String) (v : Val D) : (σ.set x v) x = some (.val v) := by
  simp [Env.set]

theorem Env.declare_ne (σ : Env D) (x y : String) (h : y ≠ x) : (σ.declare x) y = σ y := by
  simp [Env.declare, h]

theorem Falsy.set_ne (N : Num D) (σ : Env D) (x f : String) (v : Val D) (h : f ≠ x) :
    Falsy N (σ.set x v) f ↔ Falsy N σ f := by
  unfold Falsy; rw [Env.set_ne σ x f v h]

theorem Falsy.declare_ne (N : Num D) (σ : Env D) (x f : String) (h : f ≠ x) :
    Falsy N (σ.declare x) f ↔ Falsy N σ f := by
  unfold Falsy; rw [Env.declare_ne σ x f h]

theorem eff_sound {N : Num D} {s : DA} {σ σ' : Env D} (h : Good2 N s σ σ') (p : String × String)
    (he : s.eff p = true) (hf : Falsy N σ p.1) : ∃ v, σ p.2 = some (.val v) ∧ σ' p.2 = some (.val v) := by
  simp only [DA.eff, Bool.or_eq_true, decide_eq_true_eq] at he
  rcases he with (he | he) | he
  · exact h.2.2 p he hf
  · exact h.1.1 p.2 he
  · obtain ⟨v, hv, hb⟩ := hf
    have := (h.2.1 p.1 he).1
    rw [this] at hv
    simp only [Option.some.injEq, Slot.val.injEq] at hv
    subst hv
    simp [asBool] at hb

/-- a fact about names other than `x` survives an assignment to `x`; a fact whose target is `x` holds after it -/
theorem fact_set {N : Num D} {σ σ' : Env D} (p : String × String) (x : String) (v : Val D)
    (hp : p.1 ≠ x)
    (h : Falsy N σ p.1 → ∃ w, σ p.2 = some (.val w) ∧ σ' p.2 = some (.val w)) :
    Falsy N (σ.set x v) p.1 → ∃ w, (σ.set x v) p.2 = some (.val w) ∧ (σ'.set x v) p.2 = some (.val w) := by
  intro hf
  by_cases h2 : p.2 = x
  · rw [h2]; exact ⟨v, Env.set_eq σ x v, Env.set_eq σ' x v⟩
  · obtain ⟨w, h1, h2'⟩ := h ((Falsy.set_ne N σ x p.1 v hp).1 hf)
    exact ⟨w, by rw [Env.set_ne σ x p.2 v h2]; exact h1, by rw [Env.set_ne σ' x p.2 v h2]; exact h2'⟩

theorem Good2.assign {N : Num D} {s : DA} {σ σ' : Env D} (h : Good2 N s σ σ') (x : String) (v : Val D) :
    Good2 N (s.assign x) (σ.set x v) (σ'.set x v) := by
  have hg : Good (s.assign x) (σ.set x v) (σ'.set x v) := (h.1.set' x v).of_eq rfl rfl
  refine ⟨hg, ?_, ?_⟩
  · intro f hf
    simp only [DA.assign, List.mem_filter, bne_iff_ne, ne_eq] at hf
    rw [Env.set_ne σ x f v hf.2, Env.set_ne σ' x f v hf.2]
    exact h.2.1 f hf.1
  · intro p hp
    simp only [DA.assign, List.mem_filter, Bool.or_eq_true, bne_iff_ne, ne_eq, decide_eq_true_eq] at hp
    rcases hp.2 with h1 | h2
    · exact fact_set p x v h1 (h.2.2 p hp.1)
    · intro _; exact hg.1 p.2 h2

theorem Good2.restrict {N : Num D} {s : DA} {σ σ' : Env D} (h : Good2 N s σ σ') (D0 : List String)
    (hD : ∀ x ∈ D0, x ∈ s.D) : Good2 N (s.restrict D0) σ σ' := by
  refine ⟨⟨?_, fun x hx => h.1.2 x (hD x hx)⟩, ?_, ?_⟩
  · intro x hx
    simp only [DA.restrict, List.mem_filter] at hx
    exact h.1.1 x hx.1
  · intro f hf
    simp only [DA.restrict, List.mem_filter] at hf
    exact h.2.1 f hf.1
  · intro p hp
    simp only [DA.restrict, List.mem_filter] at hp
    exact h.2.2 p hp.1

theorem Good2.join_left {N : Num D} {st se : DA} {σ σ' : Env D} (h : Good2 N st σ σ') (D0 : List String)
    (hD : ∀ x ∈ D0, x ∈ st.D) : Good2 N (DA.join D0 st se) σ σ' := by
  refine ⟨⟨?_, fun x hx => h.1.2 x (hD x hx)⟩, ?_, ?_⟩
  · intro x hx
    simp only [DA.join, List.mem_filter, mem_inter] at hx
    exact h.1.1 x hx.1.1
  · intro f hf
    simp only [DA.join, List.mem_filter, mem_inter] at hf
    exact h.2.1 f hf.1.1
  · intro p hp
    simp only [DA.join, List.mem_filter, List.mem_append] at hp
    rcases hp.1 with h1 | h1
    · exact h.2.2 p h1.1
    · exact eff_sound h p h1.2

theorem Good2.join_right {N : Num D} {st se : DA} {σ σ' : Env D} (h : Good2 N se σ σ') (D0 : List String)
    (hD : ∀ x ∈ D0, x ∈ se.D) : Good2 N (DA.join D0 st se) σ σ' := by
  refine ⟨⟨?_, fun x hx => h.1.2 x (hD x hx)⟩, ?_, ?_⟩
  · intro x hx
    simp only [DA.join, List.mem_filter, mem_inter] at hx
    exact h.1.1 x hx.1.2
  · intro f hf
    simp only [DA.join, List.mem_filter, mem_inter] at hf
    exact h.2.1 f hf.1.2
  · intro p hp
    simp only [DA.join, List.mem_filter, List.mem_append] at hp
    rcases hp.1 with h1 | h1
    · exact eff_sound h p h1.2
    · exact h.2.2 p h1.1

theorem Good2.knowFalse {N : Num D} {s : DA} {σ σ' : Env D} (h : Good2 N s σ σ') (c : CExpr)
    (hc : ∀ f, c = .var f → Falsy N σ f) : Good2 N (s.knowFalse c) σ σ' := by
  cases c with
  | var f =>
    have hf := hc f rfl
    refine ⟨⟨?_, h.1.2⟩, h.2.1, h.2.2⟩
    intro x hx
    simp only [DA.knowFalse, List.mem_append, List.mem_filter, List.mem_map] at hx
    rcases hx with ⟨⟨p, ⟨hp, hpf⟩, rfl⟩, _⟩ | hx
    · have : p.1 = f := by simpa using hpf
      exact h.2.2 p hp (this ▸ hf)
    · exact h.1.1 x hx
  | _ => exact h

/-- entering a loop body / declaring an initialised name: facts and flags about OTHER names are untouched -/
theorem Extra.set_other {N : Num D} {T : List String} {G : List (String × String)} {s : DA} {σ σ' : Env D}
    (h : Extra N s σ σ') (x : String) (v : Val D)
    (hT : ∀ f ∈ T, f ∈ s.T ∧ f ≠ x) (hG : ∀ p ∈ G, p ∈ s.G ∧ p.1 ≠ x)
    (D' A' : List String) :
    Extra N { D := D', A := A', T := T, G := G } (σ.set x v) (σ'.set x v) := by
  refine ⟨?_, ?_⟩
  · intro f hf
    obtain ⟨h1, h2⟩ := hT f hf
    rw [Env.set_ne σ x f v h2, Env.set_ne σ' x f v h2]
    exact h.1 f h1
  · intro p hp
    obtain ⟨h1, h2⟩ := hG p hp
    exact fact_set p x v h2 (h.2 p h1)

theorem Extra.declare_other {N : Num D} {T : List String} {G : List (String × String)} {s : DA} {σ σ' : Env D}
    (h : Extra N s σ σ') (x : String)
    (hT : ∀ f ∈ T, f ∈ s.T ∧ f ≠ x) (hG : ∀ p ∈ G, p ∈ s.G ∧ p.1 ≠ x ∧ p.2 ≠ x)
    (D' A' : List String) :
    Extra N { D := D', A := A', T := T, G := G } (σ.declare x) (σ'.declare x) := by
  refine ⟨?_, ?_⟩
  · intro f hf
    obtain ⟨h1, h2⟩ := hT f hf
    rw [Env.declare_ne σ x f h2, Env.declare_ne σ' x f h2]
    exact h.1 f h1
  · intro p hp
    obtain ⟨h1, h2, h3⟩ := hG p hp
    intro hf
    obtain ⟨w, e1, e2⟩ := h.2 p h1 ((Falsy.declare_ne N σ x p.1 h2).1 hf)
    exact ⟨w, by rw [Env.declare_ne σ x p.2 h3]; exact e1, by rw [Env.declare_ne σ' x p.2 h3]; exact e2⟩

theorem fresh_T (s : DA) (n f : String) (h : f ∈ (s.fresh n).T) : f ∈ s.T ∧ f ≠ n := by
  simpa [DA.fresh, List.mem_filter] using h

theorem fresh_G (s : DA) (n : String) (p : String × String) (h : p ∈ (s.fresh n).G) :
    p ∈ s.G ∧ p.1 ≠ n ∧ p.2 ≠ n := by
  simpa [DA.fresh, List.mem_filter] using h

theorem castTo_bool_true (N : Num D) : castTo N "bool" (.bool true) = .ok (.bool true) := by
  simp [castTo, asBool]

/-! ## statements -/

def AsubD (s : DA) : Prop := ∀ x ∈ s.A, x ∈ s.D

theorem AsubD.assign {s : DA} (h : AsubD s) (x : String) (hx : x ∈ s.D) : AsubD (s.assign x) := by
  intro y hy
  rcases List.mem_cons.1 hy with rfl | hy
  · exact hx
  · exact h y hy

theorem AsubD.knowFalse {s : DA} (h : AsubD s) (c : CExpr) : AsubD (s.knowFalse c) := by
  cases c with
  | var f =>
    intro x hx
    simp only [DA.knowFalse, List.mem_append, List.mem_filter] at hx
    rcases hx with ⟨_, hx⟩ | hx
    · have : x ∈ s.D := by simpa using hx
      exact this
    · exact h x hx
  | _ => exact h

theorem knowFalse_A (s : DA) (c : CExpr) : ∀ x ∈ s.A, x ∈ (s.knowFalse c).A := by
  cases c with
  | var f => intro x hx; simp only [DA.knowFalse, List.mem_append]; exact Or.inr hx
  | _ => intro x hx; exact hx

theorem knowFalse_D (s : DA) (c : CExpr) : (s.knowFalse c).D = s.D := by
  cases c <;> rfl

mutual
  theorem da_mono (C : DACtx) : ∀ (st : Stmt) (s s' : DA), da C st s = some s' → AsubD s →
      AsubD s' ∧ (∀ x ∈ s.A, x ∈ s'.A) ∧ (∀ x ∈ s.D, x ∈ s'.D)
    | .block body, s, s', h, hs => by
      simp only [da] at h
      split at h
      · rename_i s1 h1
        obtain ⟨_, hA, _⟩ := das_mono C body s s1 h1 hs
        simp only [Option.some.injEq] at h; subst h
        refine ⟨?_, ?_, fun x hx => hx⟩
        · intro x hx; simp only [DA.restrict, List.mem_filter, decide_eq_true_eq] at hx; exact hx.2
        · intro x hx; simp only [DA.restrict, List.mem_filter, decide_eq_true_eq]; exact ⟨hA x hx, hs x hx⟩
      · simp at h
    | .loop x coll body, s, s', h, hs => by
      simp only [da] at h
      split at h
      · split at h
        · simp at h
        · split at h
          · simp at h
          · split at h
            · simp only [Option.some.injEq] at h; subst h; exact ⟨hs, fun _ h => h, fun _ h => h⟩
            · simp at h
      · simp at h
    | .ite c thn els, s, s', h, hs => by
      simp only [da] at h
      split at h
      · split at h
        · simp at h
        · rename_i st hst
          obtain ⟨_, hAt, _⟩ := das_mono C thn s st hst hs
          split at h
          · simp at h
          · rename_i se hse
            obtain ⟨_, hAe, _⟩ := das_mono C els (s.knowFalse c) se hse (hs.knowFalse c)
            split at h
            · simp only [Option.some.injEq] at h; subst h
              refine ⟨?_, ?_, fun x hx => hx⟩
              · intro x hx; simp only [DA.restrict, List.mem_filter, decide_eq_true_eq] at hx; exact hx.2
              · intro x hx
                simp only [DA.restrict, List.mem_filter, decide_eq_true_eq]
                exact ⟨hAe x (knowFalse_A s c x hx), hs x hx⟩
            · simp only [Option.some.injEq] at h; subst h
              refine ⟨?_, ?_, fun x hx => hx⟩
              · intro x hx; simp only [DA.join, List.mem_filter, decide_eq_true_eq] at hx; exact hx.2
              · intro x hx
                simp only [DA.join, List.mem_filter, decide_eq_true_eq, mem_inter]
                exact ⟨⟨hAt x hx, hAe x (knowFalse_A s c x hx)⟩, hs x hx⟩
      · simp at h
    | .decl ty n init, s, s', h, hs => by
      simp only [da] at h
      split at h
      · simp at h
      · cases init with
        | some e =>
          simp only at h
          split at h
          · simp only [Option.some.injEq] at h; subst h
            refine ⟨?_, fun x hx => List.mem_cons_of_mem _ hx, fun x hx => List.mem_cons_of_mem _ hx⟩
            intro x hx
            rcases List.mem_cons.1 hx with rfl | hx
            · simp
            · exact List.mem_cons_of_mem _ (hs x hx)
          · simp at h
        | none =>
          simp only at h
          split at h
          · simp only [Option.some.injEq] at h; subst h
            refine ⟨?_, fun x hx => List.mem_cons_of_mem _ hx, fun x hx => List.mem_cons_of_mem _ hx⟩
            intro x hx
            rcases List.mem_cons.1 hx with rfl | hx
            · simp
            · exact List.mem_cons_of_mem _ (hs x hx)
          · simp only [Option.some.injEq] at h; subst h
            exact ⟨fun x hx => List.mem_cons_of_mem _ (hs x hx), fun _ h => h, fun x hx => List.mem_cons_of_mem _ hx⟩
    | .set x e, s, s', h, hs => by
      simp only [da] at h
      split at h
      · rename_i hc
        simp only [Option.some.injEq] at h; subst h
        have hx : x ∈ s.D := by simp only [Bool.and_eq_true, decide_eq_true_eq] at hc; exact hc.1
        exact ⟨hs.assign x hx, fun y hy => List.mem_cons_of_mem _ hy, fun _ h => h⟩
      · simp at h
    | .push x e, s, s', h, hs => by
      simp only [da] at h
      split at h
      · rename_i hc
        simp only [Option.some.injEq] at h; subst h
        have hx : x ∈ s.A := by simp only [Bool.and_eq_true, decide_eq_true_eq] at hc; exact hc.1
        exact ⟨hs.assign x (hs x hx), fun y hy => List.mem_cons_of_mem _ hy, fun _ h => h⟩
      · simp at h
    | .clear x, s, s', h, hs => by
      simp only [da] at h
      split at h
      · rename_i hc
        simp only [Option.some.injEq] at h; subst h
        have hx : x ∈ s.A := by simpa using hc
        exact ⟨hs.assign x (hs x hx), fun y hy => List.mem_cons_of_mem _ hy, fun _ h => h⟩
      · simp at h
    | .fill _, s, s', h, hs => by
      simp only [da] at h
      split at h
      · simp only [Option.some.injEq] at h; subst h; exact ⟨hs, fun _ h => h, fun _ h => h⟩
      · simp at h
    | .throw _, s, s', h, hs => by
      simp only [da, Option.some.injEq] at h; subst h; exact ⟨hs, fun _ h => h, fun _ h => h⟩
    | .retrieve how _ v bank token, s, s', h, hs => by
      simp only [da] at h
      split at h
      · rename_i hc
        simp only [Option.some.injEq] at h; subst h
        have hv : v ∈ s.D := by simp only [Bool.and_eq_true, decide_eq_true_eq] at hc; exact hc.1
        exact ⟨hs.assign v hv, fun y hy => List.mem_cons_of_mem _ hy, fun _ h => h⟩
      · simp at h
    | .line _, s, s', h, _ => by simp [da] at h
  theorem das_mono (C : DACtx) : ∀ (l : List Stmt) (s s' : DA), das C l s = some s' → AsubD s →
      AsubD s' ∧ (∀ x ∈ s.A, x ∈ s'.A) ∧ (∀ x ∈ s.D, x ∈ s'.D)
    | [], s, s', h, hs => by
      simp only [das, Option.some.injEq] at h; subst h; exact ⟨hs, fun _ h => h, fun _ h => h⟩
    | st :: rest, s, s', h, hs => by
      simp only [das] at h
      split at h
      · rename_i s1 h1
        obtain ⟨hs1, hA1, hD1⟩ := da_mono C st s s1 h1 hs
        obtain ⟨hs2, hA2, hD2⟩ := das_mono C rest s1 s' h hs1
        exact ⟨hs2, fun x hx => hA2 x (hA1 x hx), fun x hx => hD2 x (hD1 x hx)⟩
      · simp at h
end

end FaxVerif.Cpp

namespace FaxVerif.Cpp
variable {D : Type}

/-- Outcomes of two runs are *good* for the resulting analysis state: the same fault, which is
not `unbound`; or two states that are good for it and have written the same rows. -/
def ResGood (N : Num D) (s' : DA) (r r' : Except Fault (St D)) : Prop :=
  (∃ f, r = .error f ∧ r' = .error f ∧ ∀ n, f ≠ .unbound n) ∨
  (∃ t t', r = .ok t ∧ r' = .ok t' ∧ Good2 N s' t.env t'.env ∧ t.rows = t'.rows)

theorem ResGood.map {N : Num D} {s s' : DA} {r r' : Except Fault (St D)} (h : ResGood N s' r r')
    (hm : ∀ σ σ' : Env D, Good2 N s' σ σ' → Good2 N s σ σ') : ResGood N s r r' := by
  rcases h with h | ⟨t, t', h1, h2, hg, hr⟩
  · exact Or.inl h
  · exact Or.inr ⟨t, t', h1, h2, hm _ _ hg, hr⟩

theorem resGood_err {N : Num D} {s' : DA} (f : Fault) (hf : ∀ n, f ≠ .unbound n) :
    ResGood N s' (.error f) (.error f) := Or.inl ⟨f, rfl, rfl, hf⟩

theorem readCols_good (s : DA) (σ σ' : Env D) (h : Good s σ σ') :
    ∀ cols : List String, (∀ c ∈ cols, c ∈ s.A) → readCols σ cols = readCols σ' cols ∧ NotUnbound (readCols σ cols)
  | [], _ => by simp [readCols, NotUnbound]
  | c :: cs, hc => by
    obtain ⟨v, h1, h2⟩ := h.1 c (hc c (by simp))
    have ih := readCols_good s σ σ' h cs (fun x hx => hc x (by simp [hx]))
    constructor
    · simp only [readCols, h1, h2, ih.1]
    · intro n
      simp only [readCols, h1]
      cases hr : readCols σ cs with
      | ok vs => simp
      | error f => have := ih.2 n; rw [hr] at this; simpa using this

theorem retrReq_good (C : Ctx D) (DC : DACtx) (htok : ∀ t ∈ DC.tokens, (C.tokenBank t).isSome = true)
    (s : DA) (σ σ' : Env D) (h : Good s σ σ') (how ty : String) (bank : CExpr) (token : String)
    (hok : retrOk DC s how bank token = true) :
    retrReq C σ how ty bank token = retrReq C σ' how ty bank token ∧ NotUnbound (retrReq C σ how ty bank token) := by
  unfold retrOk at hok
  unfold retrReq
  by_cases hh : how = "token"
  · simp only [hh, if_true] at hok ⊢
    have ht := htok token (by simpa using hok)
    cases htb : C.tokenBank token with
    | none => rw [htb] at ht; simp at ht
    | some p =>
      refine ⟨trivial, ?_⟩
      intro n
      obtain ⟨tty, b⟩ := p
      simp only []
      repeat' split
      all_goals simp
  · simp only [hh, if_false] at hok ⊢
    have he := okE_good C.N s σ σ' h bank hok
    constructor
    · rw [he.1]
    · intro n
      have hnu := he.2 n
      generalize evalE C.N σ bank = r at hnu
      cases r with
      | error f => simpa using hnu
      | ok v =>
        cases v <;> simp only [] <;> (repeat' split) <;> simp

/-- a loop preserves any relation on the two environments that its body preserves -/
theorem iter_inv (P : Env D → Env D → Prop) (f : St D → Val D → Except Fault (St D))
    (hf : ∀ t t' v, P t.env t'.env → t.rows = t'.rows →
      (∃ e, f t v = .error e ∧ f t' v = .error e ∧ ∀ n, e ≠ .unbound n) ∨
      (∃ u u', f t v = .ok u ∧ f t' v = .ok u' ∧ P u.env u'.env ∧ u.rows = u'.rows)) :
    ∀ (l : List (Val D)) (t t' : St D), P t.env t'.env → t.rows = t'.rows →
      (∃ e, iter f l t = .error e ∧ iter f l t' = .error e ∧ ∀ n, e ≠ .unbound n) ∨
      (∃ u u', iter f l t = .ok u ∧ iter f l t' = .ok u' ∧ P u.env u'.env ∧ u.rows = u'.rows)
  | [], t, t', hg, hr => Or.inr ⟨t, t', rfl, rfl, hg, hr⟩
  | v :: vs, t, t', hg, hr => by
    rcases hf t t' v hg hr with ⟨e, h1, h2, he⟩ | ⟨u, u', h1, h2, hgu, hru⟩
    · simp only [iter, h1, h2]; exact Or.inl ⟨e, rfl, rfl, he⟩
    · simp only [iter, h1, h2]
      exact iter_inv P f hf vs u u' hgu hru

theorem isThrow_eq (l : List Stmt) (h : isThrow l = true) : ∃ m, l = [.throw m] := by
  match l, h with
  | [.throw m], _ => exact ⟨m, rfl⟩

theorem cand_sound {N : Num D} {s : DA} {σ σ' : Env D} (h : Good2 N s σ σ') :
    ∀ p ∈ loopCand s, Falsy N σ p.1 → ∃ v, σ p.2 = some (.val v) ∧ σ' p.2 = some (.val v) := by
  intro p hp hf
  simp only [loopCand, List.mem_filter, List.mem_append, List.mem_flatMap, List.mem_map] at hp
  rcases hp.1 with h1 | ⟨f, hfT, y, _, rfl⟩
  · exact h.2.2 p h1 hf
  · obtain ⟨v, hv, hb⟩ := hf
    have := (h.2.1 f hfT).1
    simp only at hv
    rw [this] at hv
    simp only [Option.some.injEq, Slot.val.injEq] at hv
    subst hv
    simp [asBool] at hb

theorem cand_inD (s : DA) (p : String × String) (h : p ∈ loopCand s) : p.1 ∈ s.D ∧ p.2 ∈ s.D := by
  simp only [loopCand, List.mem_filter, inD, Bool.and_eq_true, decide_eq_true_eq] at h
  exact h.2

mutual
  theorem exec_sound (C : Ctx D) (DC : DACtx) (hcols : DC.cols = C.cols)
      (htok : ∀ t ∈ DC.tokens, (C.tokenBank t).isSome = true) :
      ∀ (st : Stmt) (s s' : DA) (t t' : St D), da DC st s = some s' → AsubD s →
        Good2 C.N s t.env t'.env → t.rows = t'.rows → ResGood C.N s' (exec C st t) (exec C st t')
    | .block body, s, s', t, t', h, hs, hg, hr => by
      simp only [da] at h
      split at h
      · rename_i s1 h1
        simp only [Option.some.injEq] at h; subst h
        have := execs_sound C DC hcols htok body s s1 t t' h1 hs hg hr
        obtain ⟨_, _, hD1⟩ := das_mono DC body s s1 h1 hs
        simp only [exec]
        exact this.map (fun σ σ' hg1 => hg1.restrict s.D hD1)
      · simp at h
    | .loop x coll body, s, s', t, t', h, hs, hg, hr => by
      simp only [da] at h
      split at h
      · rename_i hc
        split at h
        · simp at h
        · rename_i sb1 hb1
          split at h
          · simp at h
          · rename_i sb2 hb2
            split at h
            · rename_i hall
              simp only [Option.some.injEq] at h; subst h
              have hc' : okE s coll = true ∧ x ∉ s.D := by simpa using hc
              have he := okE_good C.N s t.env t'.env hg.1 coll hc'.1
              simp only [exec, ← he.1]
              cases hr' : evalE C.N t.env coll with
              | error f => exact resGood_err f (fun n => by have := he.2 n; rw [hr'] at this; simpa using this)
              | ok v =>
                cases v with
                | vec l =>
                  simp only []
                  -- the invariant: good for `s` with the surviving facts
                  let inv := (loopCand s).filter sb1.eff
                  let sI : DA := { s with T := [], G := inv }
                  have hinv_cand : ∀ p ∈ inv, p ∈ loopCand s := fun p hp => (List.mem_filter.1 hp).1
                  have hsx : AsubD (loopHead s x inv) := by
                    intro y hy
                    rcases List.mem_cons.1 hy with rfl | hy
                    · simp [loopHead]
                    · exact List.mem_cons_of_mem _ (hs y hy)
                  obtain ⟨_, hAb, hDb⟩ := das_mono DC body _ sb2 hb2 hsx
                  have hstart : Good2 C.N sI t.env t'.env :=
                    ⟨hg.1.of_eq rfl rfl, by intro f hf; simp [sI] at hf, fun p hp => cand_sound hg p (hinv_cand p hp)⟩
                  have := iter_inv (fun σ σ' => Good2 C.N sI σ σ')
                    (fun s0 v0 => execs C body { s0 with env := s0.env.set x v0 }) ?_ l t t' hstart hr
                  · rcases this with ⟨e, h1, h2, h3⟩ | ⟨u, u', h1, h2, h3, h4⟩
                    · exact Or.inl ⟨e, h1, h2, h3⟩
                    · exact Or.inr ⟨u, u', h1, h2, h3, h4⟩
                  · intro u u' w hgu hru
                    have hhead : Good2 C.N (loopHead s x inv) (u.env.set x w) (u'.env.set x w) := by
                      refine ⟨(hgu.1.set x w).of_eq rfl rfl, ?_⟩
                      exact Extra.set_other (s := sI) hgu.2 x w (by intro f hf; simp at hf)
                        (fun p hp => ⟨hp, fun e => hc'.2 (e ▸ (cand_inD s p (hinv_cand p hp)).1)⟩) _ _
                    rcases execs_sound C DC hcols htok body _ sb2 { u with env := u.env.set x w } { u' with env := u'.env.set x w }
                      hb2 hsx hhead hru with ⟨e, h1, h2, h3⟩ | ⟨z, z', h1, h2, h3, h4⟩
                    · exact Or.inl ⟨e, h1, h2, h3⟩
                    · refine Or.inr ⟨z, z', h1, h2, ⟨⟨?_, ?_⟩, ?_, ?_⟩, h4⟩
                      · intro y hy; exact h3.1.1 y (hAb y (List.mem_cons_of_mem _ hy))
                      · intro y hy; exact h3.1.2 y (hDb y (List.mem_cons_of_mem _ hy))
                      · intro f hf; simp [sI] at hf
                      · intro p hp
                        exact eff_sound h3 p (List.all_eq_true.1 hall p hp)
                | _ => exact resGood_err _ (by simp)
            · simp at h
      · simp at h
    | .ite c thn els, s, s', t, t', h, hs, hg, hr => by
      simp only [da] at h
      split at h
      · rename_i hc
        split at h
        · simp at h
        · rename_i st hst
          split at h
          · simp at h
          · rename_i se hse
            have he := okE_good C.N s t.env t'.env hg.1 c hc
            obtain ⟨_, _, hDt⟩ := das_mono DC thn s st hst hs
            obtain ⟨_, _, hDe⟩ := das_mono DC els (s.knowFalse c) se hse (hs.knowFalse c)
            rw [knowFalse_D] at hDe
            simp only [exec, ← he.1]
            cases hr' : evalE C.N t.env c with
            | error f => exact resGood_err f (fun n => by have := he.2 n; rw [hr'] at this; simpa using this)
            | ok v =>
              simp only []
              cases hb : asBool C.N v with
              | none => exact resGood_err _ (by simp)
              | some b =>
                cases b with
                | true =>
                  simp only []
                  split at h
                  · rename_i hthrow
                    obtain ⟨m, rfl⟩ := isThrow_eq thn hthrow
                    simp only [execs, exec]
                    exact resGood_err _ (by simp)
                  · simp only [Option.some.injEq] at h; subst h
                    exact (execs_sound C DC hcols htok thn s st t t' hst hs hg hr).map
                      (fun σ σ' hg1 => hg1.join_left s.D hDt)
                | false =>
                  simp only []
                  have hkf : Good2 C.N (s.knowFalse c) t.env t'.env := by
                    apply hg.knowFalse c
                    intro f hcf
                    subst hcf
                    simp only [evalE] at hr'
                    cases hx : t.env f with
                    | none => rw [hx] at hr'; simp at hr'
                    | some sl =>
                      rw [hx] at hr'
                      cases sl with
                      | uninit => simp at hr'
                      | val w =>
                        simp only [Except.ok.injEq] at hr'
                        subst hr'
                        exact ⟨w, hx, hb⟩
                  have hres := execs_sound C DC hcols htok els (s.knowFalse c) se t t' hse (hs.knowFalse c) hkf hr
                  split at h
                  · simp only [Option.some.injEq] at h; subst h
                    exact hres.map (fun σ σ' hg1 => hg1.restrict s.D hDe)
                  · simp only [Option.some.injEq] at h; subst h
                    exact hres.map (fun σ σ' hg1 => hg1.join_right s.D hDe)
      · simp at h
    | .decl ty n init, s, s', t, t', h, hs, hg, hr => by
      simp only [da] at h
      split at h
      · simp at h
      · rename_i hn
        cases init with
        | some e =>
          simp only at h
          split at h
          · rename_i hc
            simp only [Option.some.injEq] at h; subst h
            have he := okE_good C.N s t.env t'.env hg.1 e hc
            simp only [exec, ← he.1]
            cases hr' : evalE C.N t.env e with
            | error f => exact resGood_err f (fun n => by have := he.2 n; rw [hr'] at this; simpa using this)
            | ok v =>
              simp only []
              cases hcst : castTo C.N ty v with
              | error f => exact resGood_err f (castTo_nu C.N ty v · |> fun h => by rw [hcst] at h; simpa using h)
              | ok v' =>
                refine Or.inr ⟨_, _, rfl, rfl, ⟨(hg.1.set n v').of_eq rfl rfl, ?_⟩, hr⟩
                have hbase := Extra.set_other (s := s) hg.2 n v' (T := (s.fresh n).T) (G := (s.fresh n).G)
                  (fun f hf => fresh_T s n f hf) (fun p hp => ⟨(fresh_G s n p hp).1, (fresh_G s n p hp).2.1⟩)
                  (n :: s.D) (n :: s.A)
                split
                · rename_i hcond
                  refine ⟨?_, hbase.2⟩
                  intro f hf
                  rcases List.mem_cons.1 hf with rfl | hf
                  · -- the declared flag itself: `bool n (true)`
                    have hty : ty = "bool" := hcond.1
                    have hlit : e = .bool true := by
                      have := hcond.2
                      cases e <;> simp [isTrueLit] at this
                      rename_i b; cases b <;> simp_all [isTrueLit]
                    subst hty hlit
                    simp only [evalE, Except.ok.injEq] at hr'
                    subst hr'
                    rw [castTo_bool_true] at hcst
                    simp only [Except.ok.injEq] at hcst
                    subst hcst
                    exact ⟨Env.set_eq _ _ _, Env.set_eq _ _ _⟩
                  · exact hbase.1 f hf
                · exact hbase
          · simp at h
        | none =>
          simp only at h
          split at h
          · rename_i hv
            simp only [Option.some.injEq] at h; subst h
            simp only [exec, hv, if_true]
            refine Or.inr ⟨_, _, rfl, rfl, ⟨(hg.1.set n _).of_eq rfl rfl, ?_⟩, hr⟩
            exact Extra.set_other (s := s) hg.2 n _ (fun f hf => fresh_T s n f hf)
              (fun p hp => ⟨(fresh_G s n p hp).1, (fresh_G s n p hp).2.1⟩) _ _
          · rename_i hv
            simp only [Option.some.injEq] at h; subst h
            simp only [exec, hv]
            refine Or.inr ⟨_, _, rfl, rfl, ⟨(hg.1.declare n (fun hA => hn (hs n hA))).of_eq rfl rfl, ?_⟩, hr⟩
            exact Extra.declare_other (s := s) hg.2 n (fun f hf => fresh_T s n f hf)
              (fun p hp => fresh_G s n p hp) _ _
    | .set x e, s, s', t, t', h, hs, hg, hr => by
      simp only [da] at h
      split at h
      · rename_i hc
        simp only [Option.some.injEq] at h; subst h
        have hc' : x ∈ s.D ∧ okE s e = true := by simpa using hc
        have he := okE_good C.N s t.env t'.env hg.1 e hc'.2
        obtain ⟨h1, h2⟩ := hg.1.2 x hc'.1
        simp only [exec, ← he.1]
        cases hx : t.env x with
        | none => rw [hx] at h1; simp at h1
        | some sl =>
          cases hx' : t'.env x with
          | none => rw [hx'] at h2; simp at h2
          | some sl' =>
            simp only []
            cases hr' : evalE C.N t.env e with
            | error f => exact resGood_err f (fun n => by have := he.2 n; rw [hr'] at this; simpa using this)
            | ok v => exact Or.inr ⟨_, _, rfl, rfl, hg.assign x v, hr⟩
      · simp at h
    | .push x e, s, s', t, t', h, hs, hg, hr => by
      simp only [da] at h
      split at h
      · rename_i hc
        simp only [Option.some.injEq] at h; subst h
        have hc' : x ∈ s.A ∧ okE s e = true := by simpa using hc
        have he := okE_good C.N s t.env t'.env hg.1 e hc'.2
        obtain ⟨v, h1, h2⟩ := hg.1.1 x hc'.1
        simp only [exec, h1, h2, ← he.1]
        cases v with
        | vec l =>
          simp only []
          cases hr' : evalE C.N t.env e with
          | error f => exact resGood_err f (fun n => by have := he.2 n; rw [hr'] at this; simpa using this)
          | ok w => exact Or.inr ⟨_, _, rfl, rfl, hg.assign x _, hr⟩
        | _ => exact resGood_err _ (by simp)
      · simp at h
    | .clear x, s, s', t, t', h, hs, hg, hr => by
      simp only [da] at h
      split at h
      · rename_i hc
        simp only [Option.some.injEq] at h; subst h
        obtain ⟨v, h1, h2⟩ := hg.1.1 x (by simpa using hc)
        simp only [exec, h1, h2]
        cases v with
        | vec l => exact Or.inr ⟨_, _, rfl, rfl, hg.assign x _, hr⟩
        | _ => exact resGood_err _ (by simp)
      · simp at h
    | .fill _, s, s', t, t', h, hs, hg, hr => by
      simp only [da] at h
      split at h
      · rename_i hc
        simp only [Option.some.injEq] at h; subst h
        have hcs := readCols_good s t.env t'.env hg.1 C.cols (by rw [← hcols]; exact (subset_iff _ _).1 hc)
        simp only [exec, ← hcs.1]
        cases hr' : readCols t.env C.cols with
        | error f => exact resGood_err f (fun n => by have := hcs.2 n; rw [hr'] at this; simpa using this)
        | ok r => exact Or.inr ⟨_, _, rfl, rfl, hg, by simp [hr]⟩
      · simp at h
    | .throw msg, s, s', t, t', h, hs, hg, hr => by
      simp only [exec]; exact resGood_err _ (by simp)
    | .retrieve how ty v bank token, s, s', t, t', h, hs, hg, hr => by
      simp only [da] at h
      split at h
      · rename_i hc
        simp only [Option.some.injEq] at h; subst h
        have hc' : v ∈ s.D ∧ retrOk DC s how bank token = true := by simpa using hc
        have hq := retrReq_good C DC htok s t.env t'.env hg.1 how ty bank token hc'.2
        obtain ⟨h1, h2⟩ := hg.1.2 v hc'.1
        simp only [exec, ← hq.1]
        cases hx : t.env v with
        | none => rw [hx] at h1; simp at h1
        | some sl =>
          cases hx' : t'.env v with
          | none => rw [hx'] at h2; simp at h2
          | some sl' =>
            simp only []
            cases hr' : retrReq C t.env how ty bank token with
            | error f => exact resGood_err f (fun n => by have := hq.2 n; rw [hr'] at this; simpa using this)
            | ok content => exact Or.inr ⟨_, _, rfl, rfl, hg.assign v content, hr⟩
      · simp at h
    | .line _, s, s', t, t', h, _, _, _ => by simp [da] at h
  theorem execs_sound (C : Ctx D) (DC : DACtx) (hcols : DC.cols = C.cols)
      (htok : ∀ t ∈ DC.tokens, (C.tokenBank t).isSome = true) :
      ∀ (l : List Stmt) (s s' : DA) (t t' : St D), das DC l s = some s' → AsubD s →
        Good2 C.N s t.env t'.env → t.rows = t'.rows → ResGood C.N s' (execs C l t) (execs C l t')
    | [], s, s', t, t', h, hs, hg, hr => by
      simp only [das, Option.some.injEq] at h; subst h
      exact Or.inr ⟨t, t', rfl, rfl, hg, hr⟩
    | st :: rest, s, s', t, t', h, hs, hg, hr => by
      simp only [das] at h
      split at h
      · rename_i s1 h1
        obtain ⟨hs1, _, _⟩ := da_mono DC st s s1 h1 hs
        rcases exec_sound C DC hcols htok st s s1 t t' h1 hs hg hr with ⟨e, e1, e2, he⟩ | ⟨u, u', e1, e2, hgu, hru⟩
        · simp only [execs, e1, e2]; exact resGood_err e he
        · simp only [execs, e1, e2]
          exact execs_sound C DC hcols htok rest s1 s' u u' h hs1 hgu hru
      · simp at h
end

end FaxVerif.Cpp
