/-
Compiler-group driver (C01–C05, C09): JSON lines.
  {"op":"run","package":P,"events":[E..],"query":Q|null,"coll_types":[{"name":..,"type":..}]}
    -> {"exec":[R..],"denote":[R..]|null,"job":R,"wf":bool,"eventlocal":bool}
       R = {"rows":[[typed..]],"num":[[untyped..]]} | {"fault":class}; exec = each event alone from the initial
       class state; job = all events in one job; wf / eventlocal = the verified static checks on the package
Run: lake env lean --run FaxVerif/Cpp/Driver.lean
-/
import FaxVerif.Cpp.Json
import FaxVerif.Cpp.Check
open Lean FaxVerif.Cpp FaxVerif.Linq

def rowsJson (rows : List (List (Val Float))) : Json :=
  Json.mkObj [
    ("rows", Json.arr (rows.map fun r => Json.arr (r.map fun v => Json.str (showVal true v)).toArray).toArray),
    ("num", Json.arr (rows.map fun r => Json.arr (r.map fun v => Json.str (showVal false v)).toArray).toArray)]

def resJson : Except Fault (List (List (Val Float))) → Json
  | .ok rows => rowsJson rows
  | .error f => Json.mkObj [("fault", Json.str (faultClass f))]

def handleRun (j : Json) : Except String Json := do
  let P ← decPackage (← j.getObjVal? "package")
  let evs ← (← jarr j "events").mapM decEvent
  let cts ← (← jarr j "coll_types").mapM fun c => do pure ((← jstr c "name"), (← jstr c "type"))
  let q? ← match j.getObjVal? "query" with
    | .ok .null => pure none
    | .ok q => do pure (some (← decQuery q))
    | .error _ => pure none
  let execs := evs.map fun ev =>
    resJson ((runEvent P floatNum (classInit P.classVars) ev).map (·.1))
  let dens := match q? with
    | none => Json.null
    | some q => Json.arr (evs.map fun ev => resJson (denoteRows { N := floatNum, ev := ev, collTypes := cts } q)).toArray
  let job := resJson (runJob P floatNum evs)
  pure (Json.mkObj [("exec", Json.arr execs.toArray), ("denote", dens), ("job", job),
    ("wf", Json.bool (WellFormed P)), ("eventlocal", Json.bool (EventLocal P)), ("unique", Json.bool (UniqueNames P))])

def handle (line : String) : String :=
  match Json.parse line with
  | .error e => (Json.mkObj [("bad", e)]).compress
  | .ok j =>
    let r : Except String Json := do
      let op ← jstr j "op"
      if op == "run" then handleRun j else throw s!"unknown op {op}"
    match r with
    | .ok j => j.compress
    | .error e => (Json.mkObj [("bad", e)]).compress

partial def loopIO (h : IO.FS.Stream) (out : IO.FS.Stream) : IO Unit := do
  let line ← h.getLine
  if line.isEmpty then return ()
  let t := line.trimAscii.toString
  if !t.isEmpty then out.putStrLn (handle t)
  loopIO h out

def main : IO Unit := do
  let out ← IO.getStdout
  loopIO (← IO.getStdin) out
  out.flush
