/-
Compiler-group driver (C01–C05, C09): JSON lines.
  {"op":"run","package":P,"events":[E..],"query":Q|null,"coll_types":[{"name":..,"type":..}]}
    -> {"exec":[R..],"denote":[R..]|null,"job":R,"wf":bool,"eventlocal":bool}
       R = {"rows":[[typed..]],"num":[[untyped..]]} | {"fault":class}; exec = each event alone from the initial
       class state; job = all events in one job; wf / eventlocal = the verified static checks on the package
Run: lake env lean --run FaxVerif/Cpp/Driver.lean
-/
import FaxVerif.Cpp.Json
import FaxVerif.Cpp.Check
import FaxVerif.Gen.Render
import FaxVerif.C03.Spec
import FaxVerif.C04.Shapes
import FaxVerif.Gen.GuardedFirst
open Lean FaxVerif.Cpp FaxVerif.Linq FaxVerif.Gen

def rowsJson (rows : List (List (Val Float))) : Json :=
  Json.mkObj [
    ("rows", Json.arr (rows.map fun r => Json.arr (r.map fun v => Json.str (showVal true v)).toArray).toArray),
    ("num", Json.arr (rows.map fun r => Json.arr (r.map fun v => Json.str (showVal false v)).toArray).toArray)]

def resJson : Except Fault (List (List (Val Float))) → Json
  | .ok rows => rowsJson rows
  | .error f => Json.mkObj [("fault", Json.str (faultClass f))]

def handleRun (j : Json) : Except String Json := do
  let P ← decPackage (← j.getObjVal? "package")
  let evs ← (← jarr j "events").mapM decEvent
  let cts ← (← jarr j "coll_types").mapM fun c => do pure ((← jstr c "name"), (← jstr c "type"))
  let q? ← match j.getObjVal? "query" with
    | .ok .null => pure none
    | .ok q => do pure (some (← decQuery q))
    | .error _ => pure none
  let execs := evs.map fun ev =>
    resJson ((runEvent P floatNum (classInit P.classVars) ev).map (·.1))
  let dens := match q? with
    | none => Json.null
    | some q => Json.arr (evs.map fun ev => resJson (denoteRows { N := floatNum, ev := ev, collTypes := cts } q)).toArray
  let job := resJson (runJob P floatNum evs)
  let schema := match j.getObjVal? "schema" with
    | .ok sj => match (do
          let names ← (← jarr sj "names").mapM (·.getStr?)
          let types ← (← jarr sj "types").mapM (·.getStr?)
          let fill ← jstr sj "fill"
          pure (FaxVerif.C03.SchemaOk P names types fill) : Except String Bool) with
      | .ok b => Json.bool b
      | .error e => Json.str e
    | .error _ => Json.null
  let sh := FaxVerif.C04.countShapes P.body
  pure (Json.mkObj [("exec", Json.arr execs.toArray), ("denote", dens), ("job", job), ("schema_ok", schema),
    ("shapes", Json.mkObj [("and", Json.num sh.ands), ("or", Json.num sh.ors), ("if", Json.num sh.ites)]),
    ("wf", Json.bool (WellFormed P)), ("eventlocal", Json.bool (EventLocal P)), ("unique", Json.bool (UniqueNames P))])

/-- {"op":"compile","backend":b,"colls":[{"name","type","elem"}],"fq":FQ,"events":[..]}
    -> the model's package as text, plus the model's own exec / denote(toQuery fq) on the events -/
def handleCompile (j : Json) : Except String Json := do
  let colls ← (← jarr j "colls").mapM fun c => do pure ((← jstr c "name"), (← jstr c "type"), (← jstr c "elem"))
  let B := mkBackend (← jstr j "backend") colls
  let fq ← decFQ (← j.getObjVal? "fq")
  let P := compile B nmLocal nmCol fq
  let evs ← (← jarr j "events").mapM decEvent
  let cts := colls.map fun c => (c.1, c.2.1)
  let jl (l : List String) := Json.arr (l.map Json.str).toArray
  let execs := evs.map fun ev => resJson ((runEvent P floatNum (classInit P.classVars) ev).map (·.1))
  let dens := evs.map fun ev => resJson (denoteRows { N := floatNum, ev := ev, collTypes := cts } fq.toQuery)
  pure (Json.mkObj [
    ("body", jl (renderS P.body)),
    ("class_decl", jl (P.classVars.map fun p => s!"{p.1} {p.2};")),
    ("branches", Json.arr (P.branches.map fun p => Json.mkObj [("name", p.1), ("var", p.2)]).toArray),
    ("tokens", Json.arr (P.tokens.map fun t => Json.mkObj [("token", t.1), ("type", t.2.1), ("bank", t.2.2)]).toArray),
    ("tree", P.tree),
    ("exec", Json.arr execs.toArray), ("denote", Json.arr dens.toArray),
    ("wf", Json.bool (WellFormed P)), ("eventlocal", Json.bool (EventLocal P))])

/-- {"op":"guarded","backend":b,"colls":[..],"name":col,"chain":CHAIN,"d":{"k":"int"|"dbl",…},"events":[..]}
    -> the model's package for `ds.Select(e -> {name: d if chain.Count() == 0 else chain.First()})` as text, plus its
       exec / denote on the events (`Gen.compileGuarded`, theorem `compileGuarded_correct`) -/
def handleGuarded (j : Json) : Except String Json := do
  let colls ← (← jarr j "colls").mapM fun c => do pure ((← jstr c "name"), (← jstr c "type"), (← jstr c "elem"))
  let B := mkBackend (← jstr j "backend") colls
  let c ← decChain (← j.getObjVal? "chain")
  let name ← jstr j "name"
  let dj ← j.getObjVal? "d"
  let (d, dq) ← (do
    let k ← jstr dj "k"
    if k = "int" then
      let v := (← jint dj "v").toNat
      pure (CExpr.cast "double" (.int v), Query.int v)   -- the arm's value is converted to the conditional's type
    else
      let (m, e) ← decDbl dj
      pure (CExpr.dbl (decText m e) m e, Query.dbl m e) : Except String (CExpr × Query))
  let P := compileGuarded B nmLocal nmCol name c d
  let evs ← (← jarr j "events").mapM decEvent
  let cts := colls.map fun c => (c.1, c.2.1)
  let jl (l : List String) := Json.arr (l.map Json.str).toArray
  let execs := evs.map fun ev => resJson ((runEvent P floatNum (classInit P.classVars) ev).map (·.1))
  let dens := evs.map fun ev => resJson (denoteRows { N := floatNum, ev := ev, collTypes := cts } (guardedQ name c dq))
  pure (Json.mkObj [
    ("body", jl (renderS P.body)),
    ("class_decl", jl (P.classVars.map fun p => s!"{p.1} {p.2};")),
    ("branches", Json.arr (P.branches.map fun p => Json.mkObj [("name", p.1), ("var", p.2)]).toArray),
    ("tokens", Json.arr #[]),
    ("tree", P.tree),
    ("exec", Json.arr execs.toArray), ("denote", Json.arr dens.toArray),
    ("wf", Json.bool (WellFormed P)), ("eventlocal", Json.bool (EventLocal P))])

def handle (line : String) : String :=
  match Json.parse line with
  | .error e => (Json.mkObj [("bad", e)]).compress
  | .ok j =>
    let r : Except String Json := do
      let op ← jstr j "op"
      if op == "run" then handleRun j else if op == "compile" then handleCompile j else if op == "guarded" then handleGuarded j else throw s!"unknown op {op}"
    match r with
    | .ok j => j.compress
    | .error e => (Json.mkObj [("bad", e)]).compress

partial def loopIO (h : IO.FS.Stream) (out : IO.FS.Stream) : IO Unit := do
  let line ← h.getLine
  if line.isEmpty then return ()
  let t := line.trimAscii.toString
  if !t.isEmpty then out.putStrLn (handle t)
  loopIO h out

def main : IO Unit := do
  let out ← IO.getStdout
  loopIO (← IO.getStdin) out
  out.flush
