/-
Cpp.ParseProofs — lemmas for the round trip `parseLines (renderLines s) = some (eraseS s)` of the Lean parser of the
emitted text (Cpp/Parse.lean) under the decidable hypotheses of Cpp/ParseSpec.lean.  The property theorems are in
C02/TheoremsParse.lean.
-/
import FaxVerif.Cpp.ParseSpec
namespace FaxVerif.Cpp.Parse
open FaxVerif.Cpp

/-! ### lists of characters -/

theorem isPrefixOf?_append (p r : Str) : List.isPrefixOf? p (p ++ r) = some r := by
  induction p with
  | nil => simp [List.isPrefixOf?]
  | cons c p ih => simp [List.isPrefixOf?, ih]

theorem stripPrefix_append (p r : Str) : stripPrefix p (p ++ r) = some r := isPrefixOf?_append p r

theorem stripSuffix_append (a suf : Str) : stripSuffix suf (a ++ suf) = some a := by
  simp [stripSuffix, List.reverse_append, isPrefixOf?_append]

theorem takeWhile_app {p : Char → Bool} {a : Str} {c : Char} {r : Str} (ha : a.all p = true) (hc : p c = false) :
    (a ++ c :: r).takeWhile p = a := by
  induction a with
  | nil => simp [hc]
  | cons d a ih =>
    simp only [List.all_cons, Bool.and_eq_true] at ha
    simp [ha.1, ih ha.2]

theorem dropWhile_app {p : Char → Bool} {a : Str} {c : Char} {r : Str} (ha : a.all p = true) (hc : p c = false) :
    (a ++ c :: r).dropWhile p = c :: r := by
  induction a with
  | nil => simp [hc]
  | cons d a ih =>
    simp only [List.all_cons, Bool.and_eq_true] at ha
    simp [ha.1, ih ha.2]

theorem takeWhile_all {p : Char → Bool} {a : Str} (ha : a.all p = true) : a.takeWhile p = a := by
  induction a with
  | nil => rfl
  | cons d a ih =>
    simp only [List.all_cons, Bool.and_eq_true] at ha
    simp [ha.1, ih ha.2]

theorem dropWhile_all {p : Char → Bool} {a : Str} (ha : a.all p = true) : a.dropWhile p = [] := by
  induction a with
  | nil => rfl
  | cons d a ih =>
    simp only [List.all_cons, Bool.and_eq_true] at ha
    simp [ha.1, ih ha.2]

/-- the part of `a ++ c :: r` before the first character failing `p` lies in `a` when `c` fails it -/
theorem takeWhile_app_stop {p : Char → Bool} (a : Str) {c : Char} (r : Str) (hc : p c = false) :
    (a ++ c :: r).takeWhile p = a.takeWhile p := by
  induction a with
  | nil => simp [hc]
  | cons d a ih => by_cases hd : p d = true <;> simp [hd, ih]

theorem dropWhile_app_stop {p : Char → Bool} (a : Str) {c : Char} (r : Str) (hc : p c = false) :
    (a ++ c :: r).dropWhile p = a.dropWhile p ++ c :: r := by
  induction a with
  | nil => simp [hc]
  | cons d a ih => by_cases hd : p d = true <;> simp [hd, ih]

theorem isWs_of_isWord (c : Char) (h : isWord c = true) : isWs c = false := by
  simp only [isWord, Char.isAlphanum, Char.isAlpha, Char.isUpper, Char.isLower, Char.isDigit, Bool.or_eq_true,
    Bool.and_eq_true, decide_eq_true_eq, beq_iff_eq] at h
  simp only [isWs, Char.toNat]
  rcases h with ((h | h) | h) | h
  · have h1 := UInt32.le_iff_toNat_le.mp h.1
    have h2 := UInt32.le_iff_toNat_le.mp h.2
    simp at h1 h2
    simp; omega
  · have h1 := UInt32.le_iff_toNat_le.mp h.1
    have h2 := UInt32.le_iff_toNat_le.mp h.2
    simp at h1 h2
    simp; omega
  · have h1 := UInt32.le_iff_toNat_le.mp h.1
    have h2 := UInt32.le_iff_toNat_le.mp h.2
    simp at h1 h2
    simp; omega
  · subst h; decide

theorem isWord_of_isIdStart (c : Char) (h : isIdStart c = true) : isWord c = true := by
  simp only [isIdStart, isWord, Char.isAlphanum, Bool.or_eq_true] at h ⊢
  rcases h with h | h
  · exact Or.inl (Or.inl h)
  · exact Or.inr h

theorem isIdent_all {x : Str} (h : isIdent x = true) : x.all isWord = true := by
  cases x with
  | nil => simp [isIdent] at h
  | cons c r =>
    simp only [isIdent, Bool.and_eq_true] at h
    simp [isWord_of_isIdStart c h.1, h.2]

theorem isIdent_ne_nil {x : Str} (h : isIdent x = true) : x ≠ [] := by
  cases x with
  | nil => simp [isIdent] at h
  | cons c r => simp

theorem endsWith_snoc (a : Str) (c : Char) : endsWith (a ++ [c]) c = true := by simp [endsWith]

theorem unescape_id (m : Str) (h : m.all (fun c => c != '\\') = true) : unescape m = m := by
  induction m with
  | nil => rfl
  | cons c r ih =>
    simp only [List.all_cons, Bool.and_eq_true, bne_iff_ne, ne_eq] at h
    have ih' := ih (by simpa using h.2)
    cases r with
    | nil => simp [unescape]
    | cons d r' =>
      rw [unescape.eq_def]
      simp [h.1, ih']

theorem scanStr_plain (t rest : Str) (h : t.all (fun c => c != '"' && c != '\\') = true) :
    scanStr (t ++ '"' :: rest) = some (t, rest) := by
  induction t with
  | nil => simp [scanStr]
  | cons c r ih =>
    simp only [List.all_cons, Bool.and_eq_true, bne_iff_ne, ne_eq] at h
    have ih' := ih (by simpa using h.2)
    have h1 : c ≠ '"' := h.1.1
    have h2 : c ≠ '\\' := h.1.2
    rw [List.cons_append, scanStr.eq_def]
    simp [h1, h2, ih']

/-! ### the headers of loops and conditionals -/

theorem forHead_render (x e : Str) (hx : isIdent x = true) :
    forHead (cl!"for (auto &&" ++ x ++ cl!" : " ++ e ++ [')']) = some (x, e) := by
  have hw := isIdent_all hx
  have e1 : cl!"for (auto &&" ++ x ++ cl!" : " ++ e ++ [')'] = cl!"for (auto &&" ++ (x ++ ' ' :: (cl!": " ++ e ++ [')'])) := by simp
  have hs : stripPrefix cl!"for (auto &&" (cl!"for (auto &&" ++ x ++ cl!" : " ++ e ++ [')']) = some (x ++ ' ' :: (cl!": " ++ e ++ [')'])) := by
    rw [e1]; exact stripPrefix_append _ _
  have hsp : isWord ' ' = false := by decide
  unfold forHead
  rw [endsWith_snoc, hs]
  simp only [takeWhile_app hw hsp, dropWhile_app hw hsp]
  simp [stripPrefix, List.isPrefixOf?, hx]

theorem ifHead_render (e : Str) : ifHead (cl!"if (" ++ e ++ [')']) = some e := by
  unfold ifHead
  rw [endsWith_snoc]
  simp [stripPrefix, List.isPrefixOf?]

theorem forHead_if (e : Str) : forHead (cl!"if (" ++ e ++ [')']) = none := by
  unfold forHead
  simp [stripPrefix, List.isPrefixOf?]

/-! ### statement lines -/

theorem specialLine_none (l : Str) (h : reserved.contains (l.takeWhile isWord) = false) : specialLine l = none := by
  simp only [reserved, List.contains_eq_mem, List.mem_cons, List.not_mem_nil, or_false, decide_eq_false_iff_not, not_or] at h
  obtain ⟨h1, h2, h3, h4, h5⟩ := h
  simp only [specialLine, h1, h2, h3, h4, h5, if_false]

/-- soundness of the equality test -/
theorem beqE_eq : ∀ (a b : CExpr), beqE a b = true → a = b := by
  intro a
  induction a using CExpr.rec (motive_2 := fun as => ∀ bs, beqArgs as bs = true → as = bs) with
  | var n => intro b h; cases b <;> simp_all [beqE]
  | int n => intro b h; cases b <;> simp_all [beqE]
  | dbl t m e => intro b h; cases b <;> simp_all [beqE]
  | bool n => intro b h; cases b <;> simp_all [beqE]
  | str n => intro b h; cases b <;> simp_all [beqE]
  | un o a ih => intro b h; cases b <;> simp only [beqE, Bool.and_eq_true, beq_iff_eq, Bool.false_eq_true] at h <;> grind
  | bin o a a' ih ih' => intro b h; cases b <;> simp only [beqE, Bool.and_eq_true, beq_iff_eq, Bool.false_eq_true] at h <;> grind
  | deref a ih => intro b h; cases b <;> simp only [beqE, Bool.and_eq_true, beq_iff_eq, Bool.false_eq_true] at h <;> grind
  | mem o ar n as ih ih' => intro b h; cases b <;> simp only [beqE, Bool.and_eq_true, beq_iff_eq, Bool.false_eq_true] at h <;> grind
  | call f as ih => intro b h; cases b <;> simp only [beqE, Bool.and_eq_true, beq_iff_eq, Bool.false_eq_true] at h <;> grind
  | cast t a ih => intro b h; cases b <;> simp only [beqE, Bool.and_eq_true, beq_iff_eq, Bool.false_eq_true] at h <;> grind
  | «opaque» t => intro b h; cases b <;> simp_all [beqE]
  | nil => rename_i bs h; cases bs <;> simp_all [beqArgs]
  | cons a as ih ih' => rename_i bs h; cases bs <;> simp only [beqArgs, Bool.and_eq_true, Bool.false_eq_true] at h <;> grind

theorem exprOk_parse {e : CExpr} (h : exprOk e = true) : parseExpr (renderE e) = e := by
  simp only [exprOk, Bool.and_eq_true] at h
  exact beqE_eq _ _ h.1

theorem nameOk_spec {x : String} (h : nameOk x = true) :
    isIdent x.toList = true ∧ reserved.contains x.toList = false := by
  simpa [nameOk] using h

theorem parseLine_clear (x : String) (h : nameOk x = true) :
    parseLine (renderLeaf (.clear x)) = .clear x := by
  obtain ⟨hid, hres⟩ := nameOk_spec h
  have hw := isIdent_all hid
  have hdot : isWord '.' = false := by decide
  have e1 : renderLeaf (.clear x) = x.toList ++ '.' :: cl!"clear();" := by simp [renderLeaf]
  have htw : (renderLeaf (.clear x)).takeWhile isWord = x.toList := by rw [e1]; exact takeWhile_app hw hdot
  have hdw : (renderLeaf (.clear x)).dropWhile isWord = '.' :: cl!"clear();" := by rw [e1]; exact dropWhile_app hw hdot
  have hs : specialLine (renderLeaf (.clear x)) = none := specialLine_none _ (by rw [htw]; exact hres)
  have hi : identLine (renderLeaf (.clear x)) = some (.clear x) := by
    simp [identLine, htw, hdw, hid, stripPrefix, List.isPrefixOf?]
  simp [parseLine, hs, hi]

theorem parseLine_push (x : String) (e : CExpr) (h : nameOk x = true) (he : exprOk e = true) :
    parseLine (renderLeaf (.push x e)) = .push x e := by
  obtain ⟨hid, hres⟩ := nameOk_spec h
  have hw := isIdent_all hid
  have hdot : isWord '.' = false := by decide
  have e1 : renderLeaf (.push x e) = x.toList ++ '.' :: (cl!"push_back(" ++ (renderE e ++ cl!");")) := by simp [renderLeaf]
  have htw : (renderLeaf (.push x e)).takeWhile isWord = x.toList := by rw [e1]; exact takeWhile_app hw hdot
  have hdw : (renderLeaf (.push x e)).dropWhile isWord = cl!".push_back(" ++ (renderE e ++ cl!");") := by
    rw [e1]; exact dropWhile_app hw hdot
  have hs : specialLine (renderLeaf (.push x e)) = none := specialLine_none _ (by rw [htw]; exact hres)
  have hi : identLine (renderLeaf (.push x e)) = some (.push x e) := by
    simp only [identLine, htw, hdw, hid, stripPrefix_append, stripSuffix_append, exprOk_parse he]
    simp
  simp [parseLine, hs, hi]


theorem ne_of_isWord {c d : Char} (h : isWord c = true) (hd : isWord d = false) : c ≠ d := by
  intro e; subst e; simp [h] at hd

theorem exprOk_head {e : CExpr} (h : exprOk e = true) : ∃ c r, renderE e = c :: r ∧ isWs c = false := by
  simp only [exprOk, Bool.and_eq_true] at h
  cases hr : renderE e with
  | nil => simp [hr] at h
  | cons c r => exact ⟨c, r, rfl, by simpa [hr] using h.2⟩

theorem declParts_set (x e : Str) (hid : isIdent x = true) :
    declParts (x ++ cl!" = " ++ e ++ [';']) = none := by
  have hw := isIdent_all hid
  have hp : x.all (fun c => c != '(' && c != '=') = true := by
    rw [List.all_eq_true] at hw ⊢
    intro c hc
    have := hw c hc
    have h1 : c ≠ '(' := ne_of_isWord this (by decide)
    have h2 : c ≠ '=' := ne_of_isWord this (by decide)
    simp [h1, h2]
  have hb : x ++ cl!" = " ++ e ++ [';'] = (x ++ ' ' :: '=' :: ' ' :: e) ++ [';'] := by simp
  have hx1 : (x ++ [' ']).all (fun c => c != '(' && c != '=') = true := by simp [List.all_append, hp]
  have e2 : x ++ ' ' :: '=' :: ' ' :: e = (x ++ [' ']) ++ '=' :: (' ' :: e) := by simp
  have ht : (x ++ ' ' :: '=' :: ' ' :: e).takeWhile (fun c => c != '(' && c != '=') = x ++ [' '] := by
    rw [e2]; exact takeWhile_app hx1 (by decide)
  have hd : (x ++ ' ' :: '=' :: ' ' :: e).dropWhile (fun c => c != '(' && c != '=') = '=' :: (' ' :: e) := by
    rw [e2]; exact dropWhile_app hx1 (by decide)
  have hne := isIdent_ne_nil hid
  have hrev : ((x ++ [' ']).reverse.dropWhile isWs) = x.reverse := by
    simp only [List.reverse_append, List.reverse_cons, List.reverse_nil, List.nil_append, List.singleton_append]
    have : isWs ' ' = true := by decide
    simp only [List.dropWhile_cons, this, if_true]
    cases hxr : x.reverse with
    | nil => simp
    | cons c r =>
      have hc : isWord c = true := by
        have : c ∈ x := by rw [← List.mem_reverse, hxr]; simp
        exact (List.all_eq_true.mp hw) c this
      simp [isWs_of_isWord c hc]
  have hwr : x.reverse.all isWord = true := by simpa using hw
  have hh : declHead (x ++ [' ']) = none := by
    simp only [declHead, hrev, dropWhile_all hwr]
  unfold declParts
  rw [hb, stripSuffix_append]
  simp only [ht, hd, hh]
  simp

theorem parseLine_set (x : String) (e : CExpr) (h : nameOk x = true) (he : exprOk e = true) :
    parseLine (renderLeaf (.set x e)) = .set x e := by
  obtain ⟨hid, hres⟩ := nameOk_spec h
  have hw := isIdent_all hid
  have hsp : isWord ' ' = false := by decide
  obtain ⟨c, r, hr, hc⟩ := exprOk_head he
  have e1 : renderLeaf (.set x e) = x.toList ++ ' ' :: (cl!"= " ++ (renderE e ++ [';'])) := by simp [renderLeaf]
  have e0 : renderLeaf (.set x e) = x.toList ++ cl!" = " ++ renderE e ++ [';'] := by simp [renderLeaf]
  have htw : (renderLeaf (.set x e)).takeWhile isWord = x.toList := by rw [e1]; exact takeWhile_app hw hsp
  have hdw : (renderLeaf (.set x e)).dropWhile isWord = ' ' :: (cl!"= " ++ (renderE e ++ [';'])) := by
    rw [e1]; exact dropWhile_app hw hsp
  have hs : specialLine (renderLeaf (.set x e)) = none := specialLine_none _ (by rw [htw]; exact hres)
  have hi : identLine (renderLeaf (.set x e)) = none := by
    simp [identLine, htw, hdw, hid, stripPrefix, List.isPrefixOf?]
  have hd : declLine (renderLeaf (.set x e)) = none := by
    simp only [declLine, e0, declParts_set _ _ hid]
  have ha : assignLine (renderLeaf (.set x e)) = some (.set x e) := by
    have h1 : lstrip (' ' :: (cl!"= " ++ (renderE e ++ [';']))) = '=' :: (' ' :: (renderE e ++ [';'])) := by
      simp [lstrip, List.dropWhile_cons, show isWs ' ' = true by decide, show isWs '=' = false by decide]
    have h2 : lstrip (' ' :: (renderE e ++ [';'])) = renderE e ++ [';'] := by
      rw [hr]; simp [lstrip, List.dropWhile_cons, show isWs ' ' = true by decide, hc]
    simp only [assignLine, htw, hdw, hid, h1, h2, stripSuffix_append, exprOk_parse he]
    simp
  simp [parseLine, hs, hi, hd, ha]


theorem typeOk_spec {ty : String} (h : typeOk ty = true) :
    typeRe ty.toList = true ∧ normType ty.toList = ty.toList ∧
    reserved.contains (ty.toList.takeWhile isWord) = false ∧
    keywords.contains (ty.toList.takeWhile (fun c => !isWs c)) = false ∧
    ty.toList.all (fun c => c != '(' && c != '=' && c != ';' && c != ')') = true ∧
    (∃ c, ty.toList.getLast? = some c ∧ isWs c = false) ∧
    (∀ c r, ty.toList.dropWhile isWord = c :: r → c ≠ '.') := by
  simp only [typeOk, Bool.and_eq_true] at h
  obtain ⟨⟨⟨⟨⟨⟨h1, h2⟩, h3⟩, h4⟩, h5⟩, h6⟩, h7⟩ := h
  refine ⟨h1, by simpa using h2, by simpa using h3, by simpa using h4, h5, ?_, ?_⟩
  · cases hl : ty.toList.getLast? with
    | none => simp [hl] at h6
    | some c => exact ⟨c, rfl, by simpa [hl] using h6⟩
  · intro c r hcr
    simpa [hcr] using h7

theorem declHead_render (t n sp : Str) (hn : isIdent n = true)
    (ht1 : typeRe t = true) (ht4 : keywords.contains (t.takeWhile (fun c => !isWs c)) = false)
    (ht5 : t.all (fun c => c != '(' && c != '=' && c != ';' && c != ')') = true)
    (ht6 : ∃ c, t.getLast? = some c ∧ isWs c = false)
    (hsp : sp = [] ∨ sp = [' ']) :
    declHead (t ++ ' ' :: n ++ sp) = some (t, n) := by
  have hw := isIdent_all hn
  have hwr : n.reverse.all isWord = true := by simpa using hw
  have hsp' : isWord ' ' = false := by decide
  have hh : ((t ++ ' ' :: n ++ sp).reverse.dropWhile isWs) = n.reverse ++ ' ' :: t.reverse := by
    have hn0 : (n.reverse ++ ' ' :: t.reverse).dropWhile isWs = n.reverse ++ ' ' :: t.reverse := by
      cases hxr : n.reverse with
      | nil => exact absurd (by simpa using hxr) (isIdent_ne_nil hn)
      | cons c r =>
        have hc : isWord c = true := by
          have : c ∈ n := by rw [← List.mem_reverse, hxr]; simp
          exact (List.all_eq_true.mp hw) c this
        simp [isWs_of_isWord c hc]
    rcases hsp with rfl | rfl
    · simpa using hn0
    · have : (t ++ ' ' :: n ++ [' ']).reverse = ' ' :: (n.reverse ++ ' ' :: t.reverse) := by simp
      rw [this, List.dropWhile_cons]
      simp only [show isWs ' ' = true by decide, if_true]
      exact hn0
  obtain ⟨lc, hlc, hlws⟩ := ht6
  have htr : (' ' :: t.reverse).dropWhile isWs = t.reverse := by
    rw [List.dropWhile_cons]
    simp only [show isWs ' ' = true by decide, if_true]
    cases hr : t.reverse with
    | nil => rfl
    | cons c r =>
      have : t.getLast? = some c := by
        have := congrArg List.head? hr
        simpa [List.head?_reverse] using this
      have hcc : c = lc := by rw [hlc] at this; exact (Option.some.inj this).symm
      simp [hcc, hlws]
  have hany : (t ++ ' ' :: n ++ sp).any (fun c => c == ';' || c == ')') = false := by
    rw [List.any_eq_false]
    intro c hc
    simp only [List.mem_append, List.mem_cons] at hc
    have : c ≠ ';' ∧ c ≠ ')' := by
      rcases hc with (hc | hc | hc) | hc
      · have := (List.all_eq_true.mp ht5) c hc
        simp only [Bool.and_eq_true, bne_iff_ne, ne_eq] at this
        exact ⟨this.1.2, this.2⟩
      · subst hc; exact ⟨by decide, by decide⟩
      · have := (List.all_eq_true.mp hw) c hc
        exact ⟨ne_of_isWord this (by decide), ne_of_isWord this (by decide)⟩
      · rcases hsp with rfl | rfl
        · simp at hc
        · simp at hc; subst hc; exact ⟨by decide, by decide⟩
    simp [this.1, this.2]
  unfold declHead
  simp only [hh, takeWhile_app hwr hsp', dropWhile_app hwr hsp', htr, hany, List.reverse_reverse]
  have hk : ¬ (t.takeWhile (fun c => !isWs c)) ∈ keywords := by simpa using ht4
  simp [hn, ht1, hk, show isWs ' ' = true by decide]


theorem allP_type_name (t n : Str) (hn : isIdent n = true)
    (ht5 : t.all (fun c => c != '(' && c != '=' && c != ';' && c != ')') = true) (sp : Str) (hsp : sp = [] ∨ sp = [' ']) :
    (t ++ ' ' :: n ++ sp).all (fun c => c != '(' && c != '=') = true := by
  have hw := isIdent_all hn
  rw [List.all_eq_true]
  intro c hc
  simp only [List.mem_append, List.mem_cons] at hc
  have : c ≠ '(' ∧ c ≠ '=' := by
    rcases hc with (hc | hc | hc) | hc
    · have := (List.all_eq_true.mp ht5) c hc
      simp only [Bool.and_eq_true, bne_iff_ne, ne_eq] at this
      exact ⟨this.1.1.1, this.1.1.2⟩
    · subst hc; exact ⟨by decide, by decide⟩
    · have := (List.all_eq_true.mp hw) c hc
      exact ⟨ne_of_isWord this (by decide), ne_of_isWord this (by decide)⟩
    · rcases hsp with rfl | rfl
      · simp at hc
      · simp at hc; subst hc; exact ⟨by decide, by decide⟩
  simp [this.1, this.2]

theorem decl_not_special_ident (t : Str) (rest : Str)
    (ht3 : reserved.contains (t.takeWhile isWord) = false)
    (ht7 : ∀ c r, t.dropWhile isWord = c :: r → c ≠ '.') :
    specialLine (t ++ ' ' :: rest) = none ∧ identLine (t ++ ' ' :: rest) = none := by
  have hsp : isWord ' ' = false := by decide
  constructor
  · exact specialLine_none _ (by rw [takeWhile_app_stop t rest hsp]; exact ht3)
  · unfold identLine
    rw [dropWhile_app_stop t rest hsp]
    cases hD : t.dropWhile isWord with
    | nil => simp [stripPrefix, List.isPrefixOf?]
    | cons c r =>
      have := ht7 c r hD
      simp [stripPrefix, List.isPrefixOf?, this, Ne.symm this]

theorem parseLine_decl_none (ty n : String) (hty : typeOk ty = true) (hn : identOk n = true) :
    parseLine (renderLeaf (.decl ty n none)) = .decl ty n none := by
  obtain ⟨h1, h2, h3, h4, h5, h6, h7⟩ := typeOk_spec hty
  have hn' : isIdent n.toList = true := hn
  have e1 : renderLeaf (.decl ty n none) = ty.toList ++ ' ' :: (n.toList ++ [';']) := by simp [renderLeaf]
  have e2 : renderLeaf (.decl ty n none) = (ty.toList ++ ' ' :: n.toList ++ []) ++ [';'] := by simp [renderLeaf]
  obtain ⟨hs, hi⟩ := decl_not_special_ident ty.toList (n.toList ++ [';']) h3 h7
  have hall := allP_type_name ty.toList n.toList hn' h5 [] (Or.inl rfl)
  have hd : declLine (renderLeaf (.decl ty n none)) = some (.decl ty n none) := by
    unfold declLine declParts
    rw [e2, stripSuffix_append]
    simp only [takeWhile_all hall, dropWhile_all hall, declHead_render _ _ [] hn' h1 h4 h5 h6 (Or.inl rfl), h2]
    simp
  rw [← e1] at hs hi
  simp [parseLine, hs, hi, hd]

theorem parseLine_decl_some (ty n : String) (e : CExpr) (hty : typeOk ty = true) (hn : identOk n = true)
    (he : exprOk e = true) :
    parseLine (renderLeaf (.decl ty n (some e))) = .decl ty n (some e) := by
  obtain ⟨h1, h2, h3, h4, h5, h6, h7⟩ := typeOk_spec hty
  have hn' : isIdent n.toList = true := hn
  have e1 : renderLeaf (.decl ty n (some e)) = ty.toList ++ ' ' :: (n.toList ++ cl!" (" ++ renderE e ++ cl!");") := by
    simp [renderLeaf]
  have e2 : renderLeaf (.decl ty n (some e)) =
      ((ty.toList ++ ' ' :: n.toList ++ [' ']) ++ '(' :: (renderE e ++ [')'])) ++ [';'] := by simp [renderLeaf]
  obtain ⟨hs, hi⟩ := decl_not_special_ident ty.toList (n.toList ++ cl!" (" ++ renderE e ++ cl!");") h3 h7
  have hall := allP_type_name ty.toList n.toList hn' h5 [' '] (Or.inr rfl)
  have hd : declLine (renderLeaf (.decl ty n (some e))) = some (.decl ty n (some e)) := by
    unfold declLine declParts
    rw [e2, stripSuffix_append]
    simp only [takeWhile_app hall (show ((fun c => c != '(' && c != '=') '(') = false by decide),
      dropWhile_app hall (show ((fun c => c != '(' && c != '=') '(') = false by decide),
      declHead_render _ _ [' '] hn' h1 h4 h5 h6 (Or.inr rfl), h2, stripSuffix_append]
    simp [exprOk_parse he, h2]
  rw [← e1] at hs hi
  simp [parseLine, hs, hi, hd]



theorem parseLine_throw (m : String) (h : msgOk m = true) :
    parseLine (renderLeaf (.throw m)) = .throw m := by
  have e1 : renderLeaf (.throw m) = cl!"throw" ++ ' ' :: (cl!"std::runtime_error(\"" ++ m.toList ++ cl!"\");") := by
    simp [renderLeaf]
  have e2 : renderLeaf (.throw m) = cl!"throw std::runtime_error(" ++ (('"' :: (m.toList ++ ['"'])) ++ cl!");") := by
    simp [renderLeaf]
  have htw : (renderLeaf (.throw m)).takeWhile isWord = cl!"throw" := by
    rw [e1]; exact takeWhile_app (by decide) (by decide)
  have hs : specialLine (renderLeaf (.throw m)) = some (.throw m) := by
    unfold specialLine
    simp only [htw, if_true]
    rw [e2]
    simp only [stripPrefix_append, stripSuffix_append, unescape_id m.toList h]
    simp
  simp [parseLine, hs]

theorem parseLine_fill (t : String) (h : quotedOk t = true) :
    parseLine (renderLeaf (.fill t)) = .fill t := by
  by_cases ht : t.isEmpty = true
  · have : t = "" := by
      have := String.isEmpty_iff.mp ht
      exact this
    subst this
    have hs : specialLine (renderLeaf (.fill "")) = some (.fill "") := by
      have e0 : renderLeaf (.fill "") = cl!"myTree->Fill();" := by simp [renderLeaf]
      have htw : (cl!"myTree->Fill();").takeWhile isWord = cl!"myTree" := by decide
      rw [e0]
      unfold specialLine
      simp only [htw]
      simp
    simp [parseLine, hs]
  · have e1 : renderLeaf (.fill t) = cl!"tree" ++ '(' :: ('"' :: (t.toList ++ cl!"\")->Fill();")) := by
      simp [renderLeaf, ht]
    have e2 : renderLeaf (.fill t) = cl!"tree(\"" ++ (t.toList ++ '"' :: cl!")->Fill();") := by
      simp [renderLeaf, ht]
    have htw : (renderLeaf (.fill t)).takeWhile isWord = cl!"tree" := by
      rw [e1]; exact takeWhile_app (by decide) (by decide)
    have hq : t.toList.all (fun c => c != '\\') = true := by
      have : t.toList.all (fun c => c != '"' && c != '\\') = true := h
      rw [List.all_eq_true] at this ⊢
      intro c hc
      have := this c hc
      simp only [Bool.and_eq_true] at this
      exact this.2
    have hs : specialLine (renderLeaf (.fill t)) = some (.fill t) := by
      unfold specialLine
      simp only [htw]
      rw [e2]
      simp only [stripPrefix_append, scanStr_plain _ _ h, unescape_id _ hq]
      simp
    simp [parseLine, hs]

theorem wordOk_spec {v : String} (h : wordOk v = true) : v.toList ≠ [] ∧ v.toList.all isWord = true := by
  simpa [wordOk] using h

theorem parseLine_retrieve_atlas (ty v : String) (bank : CExpr) (hv : wordOk v = true) (hb : exprOk bank = true) :
    parseLine (renderLeaf (.retrieve "atlas" ty v bank "")) = .retrieve "atlas" "" v bank "" := by
  obtain ⟨hne, hw⟩ := wordOk_spec hv
  have e1 : renderLeaf (.retrieve "atlas" ty v bank "") =
      cl!"ANA_CHECK" ++ ' ' :: (cl!"(evtStore()->retrieve(" ++ v.toList ++ cl!", " ++ renderE bank ++ cl!"));") := by
    simp [renderLeaf]
  have e2 : renderLeaf (.retrieve "atlas" ty v bank "") =
      cl!"ANA_CHECK (evtStore()->retrieve(" ++ (v.toList ++ ',' :: (' ' :: (renderE bank ++ cl!"));"))) := by
    simp [renderLeaf]
  have htw : (renderLeaf (.retrieve "atlas" ty v bank "")).takeWhile isWord = cl!"ANA_CHECK" := by
    rw [e1]; exact takeWhile_app (by decide) (by decide)
  have hc : isWord ',' = false := by decide
  have hs : specialLine (renderLeaf (.retrieve "atlas" ty v bank "")) = some (.retrieve "atlas" "" v bank "") := by
    unfold specialLine
    simp only [htw]
    rw [e2]
    simp only [stripPrefix_append, takeWhile_app hw hc, dropWhile_app hw hc]
    have : stripPrefix cl!", " (',' :: ' ' :: (renderE bank ++ cl!"));")) = some (renderE bank ++ cl!"));") := by
      simp [stripPrefix, List.isPrefixOf?]
    simp only [this, stripSuffix_append, exprOk_parse hb]
    simp [hne]
  simp [parseLine, hs]

theorem parseLine_retrieve_label (ty v : String) (bank : CExpr) (hv : wordOk v = true) (hb : exprOk bank = true) :
    parseLine (renderLeaf (.retrieve "label" ty v bank "")) = .retrieve "label" "" v bank "" := by
  obtain ⟨hne, hw⟩ := wordOk_spec hv
  have hwr : v.toList.reverse.all isWord = true := by simpa using hw
  have e1 : renderLeaf (.retrieve "label" ty v bank "") =
      cl!"iEvent" ++ '.' :: (cl!"getByLabel(" ++ renderE bank ++ cl!", " ++ v.toList ++ cl!");") := by
    simp [renderLeaf]
  have e2 : renderLeaf (.retrieve "label" ty v bank "") =
      cl!"iEvent.getByLabel(" ++ ((renderE bank ++ cl!", " ++ v.toList) ++ cl!");") := by
    simp [renderLeaf]
  have htw : (renderLeaf (.retrieve "label" ty v bank "")).takeWhile isWord = cl!"iEvent" := by
    rw [e1]; exact takeWhile_app (by decide) (by decide)
  have hc : isWord ' ' = false := by decide
  have hrev : (renderE bank ++ cl!", " ++ v.toList).reverse = v.toList.reverse ++ ' ' :: (',' :: (renderE bank).reverse) := by
    simp
  have hs : specialLine (renderLeaf (.retrieve "label" ty v bank "")) = some (.retrieve "label" "" v bank "") := by
    unfold specialLine
    simp only [htw]
    rw [e2]
    simp only [stripPrefix_append, stripSuffix_append, hrev, takeWhile_app hwr hc, dropWhile_app hwr hc,
      List.reverse_reverse, exprOk_parse hb]
    simp [hne]
  simp [parseLine, hs]

theorem parseLine_retrieve_token (how ty v tok : String) (hh : how ≠ "atlas" ∧ how ≠ "label")
    (hv : wordOk v = true) (ht : wordOk tok = true) :
    parseLine (renderLeaf (.retrieve how ty v (.opaque "") tok)) = .retrieve "token" "" v (.opaque "") tok := by
  obtain ⟨hne, hw⟩ := wordOk_spec hv
  obtain ⟨hnet, hwt⟩ := wordOk_spec ht
  have e1 : renderLeaf (.retrieve how ty v (.opaque "") tok) =
      cl!"iEvent" ++ '.' :: (cl!"getByToken(" ++ tok.toList ++ cl!", " ++ v.toList ++ cl!");") := by
    simp [renderLeaf, hh.1, hh.2]
  have e2 : renderLeaf (.retrieve how ty v (.opaque "") tok) =
      cl!"iEvent.getByToken(" ++ (tok.toList ++ ',' :: (' ' :: (v.toList ++ ')' :: [';']))) := by
    simp [renderLeaf, hh.1, hh.2]
  have htw : (renderLeaf (.retrieve how ty v (.opaque "") tok)).takeWhile isWord = cl!"iEvent" := by
    rw [e1]; exact takeWhile_app (by decide) (by decide)
  have hc : isWord ',' = false := by decide
  have hp : isWord ')' = false := by decide
  have hs : specialLine (renderLeaf (.retrieve how ty v (.opaque "") tok)) = some (.retrieve "token" "" v (.opaque "") tok) := by
    unfold specialLine
    simp only [htw]
    rw [e2]
    have hl : stripPrefix cl!"iEvent.getByLabel(" (cl!"iEvent.getByToken(" ++ (tok.toList ++ ',' :: (' ' :: (v.toList ++ ')' :: [';'])))) = none := by
      simp [stripPrefix, List.isPrefixOf?]
    simp only [hl, stripPrefix_append, takeWhile_app hwt hc, dropWhile_app hwt hc]
    have : stripPrefix cl!", " (',' :: ' ' :: (v.toList ++ ')' :: [';'])) = some (v.toList ++ ')' :: [';']) := by
      simp [stripPrefix, List.isPrefixOf?]
    simp only [this, takeWhile_app hw hp, dropWhile_app hw hp]
    simp [hne, hnet]
  simp [parseLine, hs]

theorem parseLine_line (t : String) (h : lineOk t = true) : parseLine (renderLeaf (.line t)) = .line t := by
  simp only [lineOk, Bool.and_eq_true, Option.isNone_iff_eq_none] at h
  obtain ⟨⟨⟨⟨_, h1⟩, h2⟩, h3⟩, h4⟩ := h
  simp [parseLine, renderLeaf, h1, h2, h3, h4]



/-- a line that the block parser hands to `parseLine` -/
def Simple (l : Str) : Prop :=
  l ≠ ['}'] ∧ l ≠ ['{'] ∧ l ≠ cl!"else" ∧ forHead l = none ∧ ifHead l = none

/-- a line that `cleanLines` keeps as it is -/
def Clean (l : Str) : Prop := l ≠ [] ∧ strip l = l

theorem simple_of_semi (l : Str) (h : l.getLast? = some ';') : Simple l := by
  refine ⟨?_, ?_, ?_, ?_, ?_⟩
  · intro e; subst e; simp at h
  · intro e; subst e; simp at h
  · intro e; subst e; simp at h
  · simp [forHead, endsWith, h]
  · simp [ifHead, endsWith, h]

theorem strip_eq (l : Str) (c d : Char) (r : Str) (h1 : l = c :: r) (hc : isWs c = false)
    (h2 : l.getLast? = some d) (hd : isWs d = false) : strip l = l := by
  have hl : lstrip l = l := by subst h1; simp [lstrip, hc]
  unfold strip
  rw [hl]
  unfold rstrip
  cases hr : l.reverse with
  | nil => have : l = [] := by simpa using hr
           subst this; simp at h2
  | cons e r' =>
    have : l.getLast? = some e := by
      have := congrArg List.head? hr
      simpa [List.head?_reverse] using this
    have he : e = d := by rw [h2] at this; exact (Option.some.inj this).symm
    subst he
    simp only [List.dropWhile_cons, hd]
    simp [← hr]

theorem clean_of (l : Str) (c d : Char) (r : Str) (h1 : l = c :: r) (hc : isWs c = false)
    (h2 : l.getLast? = some d) (hd : isWs d = false) : Clean l :=
  ⟨by subst h1; simp, strip_eq l c d r h1 hc h2 hd⟩

theorem typeRe_head (t : Str) (h : typeRe t = true) : ∃ c r, t = c :: r ∧ isWs c = false := by
  unfold typeRe at h
  simp only [Bool.or_eq_true] at h
  rcases h with h | h
  · cases t with
    | nil => simp [typeCore] at h
    | cons c r =>
      simp only [typeCore, Bool.and_eq_true] at h
      exact ⟨c, r, rfl, isWs_of_isWord c (isWord_of_isIdStart c h.1)⟩
  · cases t with
    | nil => simp [stripPrefix, List.isPrefixOf?] at h
    | cons c r =>
      by_cases hc : c = 'c'
      · subst hc; exact ⟨'c', r, rfl, by decide⟩
      · simp [stripPrefix, List.isPrefixOf?, Ne.symm hc] at h

theorem ident_head (x : Str) (h : isIdent x = true) : ∃ c r, x = c :: r ∧ isWs c = false := by
  cases x with
  | nil => simp [isIdent] at h
  | cons c r =>
    simp only [isIdent, Bool.and_eq_true] at h
    exact ⟨c, r, rfl, isWs_of_isWord c (isWord_of_isIdStart c h.1)⟩

def isLeaf : Stmt → Bool
  | .block _ => false
  | .loop .. => false
  | .ite .. => false
  | _ => true

theorem leaf_parse (s : Stmt) (hl : isLeaf s = true) (h : leafOk s = true) :
    parseLine (renderLeaf s) = eraseS s := by
  cases s with
  | block b => simp [isLeaf] at hl
  | loop x c b => simp [isLeaf] at hl
  | ite c t e => simp [isLeaf] at hl
  | decl ty n i =>
    cases i with
    | none =>
      simp only [leafOk, Bool.and_eq_true] at h
      simpa [eraseS] using parseLine_decl_none ty n h.1 h.2
    | some e =>
      simp only [leafOk, Bool.and_eq_true] at h
      simpa [eraseS] using parseLine_decl_some ty n e h.1.1 h.1.2 h.2
  | set x e =>
    simp only [leafOk, Bool.and_eq_true] at h
    simpa [eraseS] using parseLine_set x e h.1 h.2
  | push x e =>
    simp only [leafOk, Bool.and_eq_true] at h
    simpa [eraseS] using parseLine_push x e h.1 h.2
  | clear x => simpa [eraseS] using parseLine_clear x h
  | fill t => simpa [eraseS] using parseLine_fill t h
  | throw m => simpa [eraseS] using parseLine_throw m h
  | retrieve how ty v bank tok =>
    simp only [leafOk, Bool.and_eq_true, Bool.or_eq_true, beq_iff_eq] at h
    obtain ⟨hv, h⟩ := h
    rcases h with (⟨⟨rfl, rfl⟩, hb⟩ | ⟨⟨rfl, rfl⟩, hb⟩) | ⟨⟨rfl, ht⟩, hb⟩
    · simpa [eraseS] using parseLine_retrieve_atlas ty v bank hv hb
    · simpa [eraseS] using parseLine_retrieve_label ty v bank hv hb
    · have := beqE_eq _ _ hb
      subst this
      simpa [eraseS] using parseLine_retrieve_token "token" ty v tok ⟨by decide, by decide⟩ hv ht
  | line t => simpa [eraseS] using parseLine_line t h

theorem leaf_last (s : Stmt) (hl : isLeaf s = true) (hnl : ∀ t, s ≠ .line t) :
    (renderLeaf s).getLast? = some ';' := by
  cases s with
  | block b => simp [isLeaf] at hl
  | loop x c b => simp [isLeaf] at hl
  | ite c t e => simp [isLeaf] at hl
  | decl ty n i => rw [← List.head?_reverse]; cases i <;> simp [renderLeaf]
  | set x e => rw [← List.head?_reverse]; simp [renderLeaf]
  | push x e => rw [← List.head?_reverse]; simp [renderLeaf]
  | clear x => rw [← List.head?_reverse]; simp [renderLeaf]
  | fill t => rw [← List.head?_reverse]; by_cases ht : t.isEmpty = true <;> simp [renderLeaf, ht]
  | throw m => rw [← List.head?_reverse]; simp [renderLeaf]
  | retrieve how ty v bank tok =>
    rw [← List.head?_reverse]
    by_cases h1 : how = "atlas"
    · simp [renderLeaf, h1]
    · by_cases h2 : how = "label" <;> simp [renderLeaf, h1, h2]
  | line t => exact absurd rfl (hnl t)


theorem leaf_head (s : Stmt) (hl : isLeaf s = true) (hnl : ∀ t, s ≠ .line t) (h : leafOk s = true) :
    ∃ c r, renderLeaf s = c :: r ∧ isWs c = false := by
  cases s with
  | block b => simp [isLeaf] at hl
  | loop x c b => simp [isLeaf] at hl
  | ite c t e => simp [isLeaf] at hl
  | decl ty n i =>
    have hty : typeOk ty = true := by
      cases i <;> simp only [leafOk, Bool.and_eq_true] at h
      · exact h.1
      · exact h.1.1
    obtain ⟨c, r, hcr, hc⟩ := typeRe_head _ (typeOk_spec hty).1
    cases i with
    | none => exact ⟨c, r ++ ' ' :: n.toList ++ [';'], by simp [renderLeaf, hcr], hc⟩
    | some e => exact ⟨c, r ++ ' ' :: n.toList ++ cl!" (" ++ renderE e ++ cl!");", by simp [renderLeaf, hcr], hc⟩
  | set x e =>
    simp only [leafOk, Bool.and_eq_true] at h
    obtain ⟨c, r, hcr, hc⟩ := ident_head _ (nameOk_spec h.1).1
    exact ⟨c, r ++ cl!" = " ++ renderE e ++ [';'], by simp [renderLeaf, hcr], hc⟩
  | push x e =>
    simp only [leafOk, Bool.and_eq_true] at h
    obtain ⟨c, r, hcr, hc⟩ := ident_head _ (nameOk_spec h.1).1
    exact ⟨c, r ++ cl!".push_back(" ++ renderE e ++ cl!");", by simp [renderLeaf, hcr], hc⟩
  | clear x =>
    obtain ⟨c, r, hcr, hc⟩ := ident_head _ (nameOk_spec h).1
    exact ⟨c, r ++ cl!".clear();", by simp [renderLeaf, hcr], hc⟩
  | fill t =>
    by_cases ht : t.isEmpty = true
    · exact ⟨'m', _, by simp only [renderLeaf, ht, if_true]; rfl, by decide⟩
    · exact ⟨'t', _, by simp only [renderLeaf, ht]; rfl, by decide⟩
  | throw m => exact ⟨'t', _, by simp only [renderLeaf]; rfl, by decide⟩
  | retrieve how ty v bank tok =>
    by_cases h1 : how = "atlas"
    · exact ⟨'A', _, by simp only [renderLeaf, h1, if_true]; rfl, by decide⟩
    · by_cases h2 : how = "label"
      · exact ⟨'i', _, by simp only [renderLeaf, h1, h2, if_true, if_false]; rfl, by decide⟩
      · exact ⟨'i', _, by simp only [renderLeaf, h1, h2, if_false]; rfl, by decide⟩
  | line t => exact absurd rfl (hnl t)

theorem leaf_simple_clean (s : Stmt) (hl : isLeaf s = true) (h : leafOk s = true) :
    Simple (renderLeaf s) ∧ Clean (renderLeaf s) := by
  by_cases hline : ∃ t, s = .line t
  · obtain ⟨t, rfl⟩ := hline
    simp only [leafOk, lineOk, Bool.and_eq_true, Option.isNone_iff_eq_none, bne_iff_ne, ne_eq, beq_iff_eq] at h
    obtain ⟨⟨⟨⟨⟨⟨⟨⟨⟨⟨h1, h2⟩, h3⟩, h4⟩, h5⟩, h6⟩, h7⟩, _⟩, _⟩, _⟩, _⟩ := h
    exact ⟨⟨by simpa [renderLeaf] using h4, by simpa [renderLeaf] using h3, by simpa [renderLeaf] using h5,
      by simpa [renderLeaf] using h6, by simpa [renderLeaf] using h7⟩, ⟨by simpa [renderLeaf] using h1, by simpa [renderLeaf] using h2⟩⟩
  · have hnl : ∀ t, s ≠ .line t := fun t e => hline ⟨t, e⟩
    have hlast := leaf_last s hl hnl
    obtain ⟨c, r, hcr, hc⟩ := leaf_head s hl hnl h
    exact ⟨simple_of_semi _ hlast, clean_of _ c ';' r hcr hc hlast (by decide)⟩


/-! ### blocks -/

def consR (s : Stmt) (p : List Stmt × List Str) : List Stmt × List Str := (s :: p.1, p.2)

theorem parseItems_close (n : Nat) (k : List Str) : parseItems (n + 1) (['}'] :: k) = some ([], k) := by
  simp [parseItems]

theorem parseItems_open (n : Nat) (k : List Str) (b : List Stmt) (rest1 : List Str)
    (h : parseItems n k = some (b, rest1)) :
    parseItems (n + 1) (['{'] :: k) = (parseItems n rest1).map (consR (.block b)) := by
  simp only [parseItems, h]
  cases parseItems n rest1 <;> simp [consR]

theorem parseItems_leaf (n : Nat) (l : Str) (k : List Str) (h : Simple l) :
    parseItems (n + 1) (l :: k) = (parseItems n k).map (consR (parseLine l)) := by
  obtain ⟨h1, h2, h3, h4, h5⟩ := h
  simp only [parseItems, h1, h2, h3, h4, h5]
  cases parseItems n k <;> simp [consR]

theorem parseItems_for (n : Nat) (l x c : Str) (k : List Str) (b : List Stmt) (rest1 : List Str)
    (h1 : l ≠ ['}']) (h2 : l ≠ ['{']) (hf : forHead l = some (x, c)) (h : parseItems n k = some (b, rest1)) :
    parseItems (n + 1) (l :: ['{'] :: k) = (parseItems n rest1).map (consR (.loop (String.ofList x) (parseExpr c) b)) := by
  simp only [parseItems, h1, h2, hf, h]
  cases parseItems n rest1 <;> simp [consR]

theorem parseItems_if_else (n : Nat) (l c : Str) (k : List Str) (t e : List Stmt) (rest2 rest3 : List Str)
    (h1 : l ≠ ['}']) (h2 : l ≠ ['{']) (hf : forHead l = none) (hi : ifHead l = some c)
    (h : parseItems n k = some (t, cl!"else" :: ['{'] :: rest2)) (he : parseItems n rest2 = some (e, rest3)) :
    parseItems (n + 1) (l :: ['{'] :: k) = (parseItems n rest3).map (consR (.ite (parseExpr c) t e)) := by
  simp only [parseItems, h1, h2, hf, hi, h, he]
  cases parseItems n rest3 <;> simp [consR]

theorem parseItems_if (n : Nat) (l c : Str) (k : List Str) (t : List Stmt) (rest1 : List Str)
    (h1 : l ≠ ['}']) (h2 : l ≠ ['{']) (hf : forHead l = none) (hi : ifHead l = some c)
    (h : parseItems n k = some (t, rest1)) (hne : rest1.head? ≠ some cl!"else") :
    parseItems (n + 1) (l :: ['{'] :: k) = (parseItems n rest1).map (consR (.ite (parseExpr c) t [])) := by
  simp only [parseItems, h1, h2, hf, hi, h]
  cases rest1 with
  | nil => cases n <;> simp [parseItems]
  | cons l3 r =>
    have : l3 ≠ cl!"else" := by simpa using hne
    simp only [this]
    cases parseItems n (l3 :: r) <;> simp [consR]


theorem renderS_leaf (s : Stmt) (hl : isLeaf s = true) : renderS s = [renderLeaf s] := by
  cases s <;> simp [isLeaf] at hl <;> simp [renderS]

theorem eraseS_leaf_ok (s : Stmt) (hl : isLeaf s = true) (h : StmtOk s = true) : leafOk s = true := by
  cases s <;> simp [isLeaf] at hl <;> simpa [StmtOk] using h

/-- the first line of a printed statement: there is one, and it is not `else` -/
theorem renderS_head (s : Stmt) (h : StmtOk s = true) : ∃ l r, renderS s = l :: r ∧ l ≠ cl!"else" := by
  by_cases hl : isLeaf s = true
  · have := (leaf_simple_clean s hl (eraseS_leaf_ok s hl h)).1
    exact ⟨_, [], renderS_leaf s hl, this.2.2.1⟩
  · cases s with
    | block b => exact ⟨_, _, by rw [renderS]; rfl, by decide⟩
    | loop x c b =>
      exact ⟨cl!"for (auto &&" ++ x.toList ++ cl!" : " ++ renderE c ++ [')'], ['{'] :: renderL b ++ [['}']],
        by simp [renderS], by simp⟩
    | ite c t e =>
      cases e with
      | nil => exact ⟨cl!"if (" ++ renderE c ++ [')'], ['{'] :: renderL t ++ [['}']], by simp [renderS], by simp⟩
      | cons s0 r0 =>
        exact ⟨cl!"if (" ++ renderE c ++ [')'], ['{'] :: renderL t ++ ['}'] :: cl!"else" :: ['{'] :: renderL (s0 :: r0) ++ [['}']],
          by simp [renderS], by simp⟩
    | _ => simp [isLeaf] at hl

theorem head_ne_else (b : List Stmt) (k : List Str) (h : ListOk b = true) :
    (renderL b ++ ['}'] :: k).head? ≠ some cl!"else" := by
  cases b with
  | nil => simp [renderL]
  | cons s r =>
    simp only [ListOk, Bool.and_eq_true] at h
    obtain ⟨l, r', hr, hne⟩ := renderS_head s h.1
    simp [renderL, hr, hne]

theorem parseItems_leafS (s : Stmt) (hl : isLeaf s = true) (h : StmtOk s = true) (n : Nat) (k : List Str) :
    parseItems (n + 1) (renderS s ++ k) = (parseItems n k).map (consR (eraseS s)) := by
  have hok := eraseS_leaf_ok s hl h
  rw [renderS_leaf s hl]
  simp only [List.cons_append, List.nil_append]
  rw [parseItems_leaf n _ k (leaf_simple_clean s hl hok).1, leaf_parse s hl hok]

mutual
theorem parseItems_stmt (s : Stmt) (h : StmtOk s = true) (n : Nat) (k : List Str)
    (hn : (renderS s).length ≤ n) (hk : k.head? ≠ some cl!"else") :
    parseItems (n + 1) (renderS s ++ k) = (parseItems n k).map (consR (eraseS s)) := by
  cases s with
  | block b =>
    simp only [StmtOk] at h
    simp only [renderS, List.length_cons, List.length_append, List.length_nil] at hn
    have hb := parseItems_list b h n k (by omega)
    have : renderS (.block b) ++ k = ['{'] :: (renderL b ++ ['}'] :: k) := by simp [renderS]
    rw [this, parseItems_open n _ _ _ hb]
    simp [eraseS]
  | loop x c b =>
    simp only [StmtOk, Bool.and_eq_true] at h
    obtain ⟨⟨hx, hc⟩, hb⟩ := h
    simp only [renderS, List.length_cons, List.length_append, List.length_nil] at hn
    have hb' := parseItems_list b hb n k (by omega)
    have : renderS (.loop x c b) ++ k =
        (cl!"for (auto &&" ++ x.toList ++ cl!" : " ++ renderE c ++ [')']) :: ['{'] :: (renderL b ++ ['}'] :: k) := by
      simp [renderS]
    rw [this, parseItems_for n _ _ _ _ _ _ (by simp) (by simp) (forHead_render _ _ hx) hb']
    simp [eraseS, exprOk_parse hc]
  | ite c t e =>
    simp only [StmtOk, Bool.and_eq_true] at h
    obtain ⟨⟨hc, ht⟩, he⟩ := h
    cases e with
    | nil =>
      simp only [renderS, List.length_cons, List.length_append, List.length_nil] at hn
      have ht' := parseItems_list t ht n k (by omega)
      have : renderS (.ite c t []) ++ k = (cl!"if (" ++ renderE c ++ [')']) :: ['{'] :: (renderL t ++ ['}'] :: k) := by
        simp [renderS]
      rw [this, parseItems_if n _ _ _ _ _ (by simp) (by simp) (forHead_if _) (ifHead_render _) ht' hk]
      simp [eraseS, eraseL, exprOk_parse hc]
    | cons s0 r0 =>
      simp only [renderS, List.length_cons, List.length_append, List.length_nil] at hn
      have ht' := parseItems_list t ht n (cl!"else" :: ['{'] :: (renderL (s0 :: r0) ++ ['}'] :: k)) (by omega)
      have he' := parseItems_list (s0 :: r0) he n k (by omega)
      have : renderS (.ite c t (s0 :: r0)) ++ k =
          (cl!"if (" ++ renderE c ++ [')']) :: ['{'] :: (renderL t ++ ['}'] :: (cl!"else" :: ['{'] :: (renderL (s0 :: r0) ++ ['}'] :: k))) := by
        simp [renderS]
      rw [this, parseItems_if_else n _ _ _ _ _ _ _ (by simp) (by simp) (forHead_if _) (ifHead_render _) ht' he']
      simp [eraseS, exprOk_parse hc]
  | decl ty nm i => exact parseItems_leafS (.decl ty nm i) rfl h n k
  | set x e => exact parseItems_leafS (.set x e) rfl h n k
  | push x e => exact parseItems_leafS (.push x e) rfl h n k
  | clear x => exact parseItems_leafS (.clear x) rfl h n k
  | fill t => exact parseItems_leafS (.fill t) rfl h n k
  | throw m => exact parseItems_leafS (.throw m) rfl h n k
  | retrieve how ty v bank tok => exact parseItems_leafS (.retrieve how ty v bank tok) rfl h n k
  | line t => exact parseItems_leafS (.line t) rfl h n k
theorem parseItems_list (b : List Stmt) (h : ListOk b = true) (n : Nat) (k : List Str)
    (hn : (renderL b).length + 1 ≤ n) :
    parseItems n (renderL b ++ ['}'] :: k) = some (eraseL b, k) := by
  cases b with
  | nil =>
    obtain ⟨n', rfl⟩ : ∃ n', n = n' + 1 := ⟨n - 1, by omega⟩
    simp [renderL, eraseL, parseItems_close]
  | cons s r =>
    simp only [ListOk, Bool.and_eq_true] at h
    obtain ⟨n', rfl⟩ : ∃ n', n = n' + 1 := ⟨n - 1, by omega⟩
    simp only [renderL, List.length_append] at hn
    obtain ⟨l0, r0, hr0, _⟩ := renderS_head s h.1
    have hpos : 1 ≤ (renderS s).length := by simp [hr0]
    have e : renderL (s :: r) ++ ['}'] :: k = renderS s ++ (renderL r ++ ['}'] :: k) := by simp [renderL]
    rw [e, parseItems_stmt s h.1 n' _ (by omega) (head_ne_else r k h.2), parseItems_list r h.2 n' k (by omega)]
    simp [consR, eraseL]
end


theorem clean_brace_open : Clean ['{'] := ⟨by simp, by decide⟩
theorem clean_brace_close : Clean ['}'] := ⟨by simp, by decide⟩
theorem clean_else : Clean cl!"else" := ⟨by simp, by decide⟩

theorem clean_header (pre : Str) (c : Char) (r mid : Str) (hp : pre = c :: r) (hc : isWs c = false) :
    Clean (pre ++ mid ++ [')']) := by
  subst hp
  exact clean_of _ c ')' (r ++ mid ++ [')']) (by simp) hc (by rw [← List.head?_reverse]; simp) (by decide)

theorem renderS_clean_leaf (s : Stmt) (hl : isLeaf s = true) (h : StmtOk s = true) : ∀ l ∈ renderS s, Clean l := by
  intro l hm
  rw [renderS_leaf s hl] at hm
  simp only [List.mem_cons, List.not_mem_nil, or_false] at hm
  subst hm
  exact (leaf_simple_clean s hl (eraseS_leaf_ok s hl h)).2

mutual
theorem renderS_clean (s : Stmt) (h : StmtOk s = true) : ∀ l ∈ renderS s, Clean l := by
  cases s with
  | block b =>
    simp only [StmtOk] at h
    intro l hl
    simp only [renderS, List.mem_cons, List.mem_append, List.not_mem_nil, or_false] at hl
    rcases hl with (rfl | hl) | rfl
    · exact clean_brace_open
    · exact renderL_clean b h l hl
    · exact clean_brace_close
  | loop x c b =>
    simp only [StmtOk, Bool.and_eq_true] at h
    intro l hl
    simp only [renderS, List.mem_cons, List.mem_append, List.not_mem_nil, or_false] at hl
    rcases hl with (rfl | rfl | hl) | rfl
    · have := clean_header cl!"for (auto &&" 'f' cl!"or (auto &&" (x.toList ++ cl!" : " ++ renderE c) rfl (by decide)
      simpa using this
    · exact clean_brace_open
    · exact renderL_clean b h.2 l hl
    · exact clean_brace_close
  | ite c t e =>
    simp only [StmtOk, Bool.and_eq_true] at h
    intro l hl
    have hhd : Clean (cl!"if (" ++ renderE c ++ [')']) := clean_header cl!"if (" 'i' cl!"f (" (renderE c) rfl (by decide)
    cases e with
    | nil =>
      simp only [renderS, List.mem_cons, List.mem_append, List.not_mem_nil, or_false] at hl
      rcases hl with (rfl | rfl | hl) | rfl
      · exact hhd
      · exact clean_brace_open
      · exact renderL_clean t h.1.2 l hl
      · exact clean_brace_close
    | cons s0 r0 =>
      simp only [renderS, List.mem_cons, List.mem_append, List.not_mem_nil, or_false] at hl
      rcases hl with (rfl | rfl | hl) | rfl | (rfl | rfl | hl) | rfl
      · exact hhd
      · exact clean_brace_open
      · exact renderL_clean t h.1.2 l hl
      · exact clean_brace_close
      · exact clean_else
      · exact clean_brace_open
      · exact renderL_clean (s0 :: r0) h.2 l hl
      · exact clean_brace_close
  | decl ty nm i => exact renderS_clean_leaf (.decl ty nm i) rfl h
  | set x e => exact renderS_clean_leaf (.set x e) rfl h
  | push x e => exact renderS_clean_leaf (.push x e) rfl h
  | clear x => exact renderS_clean_leaf (.clear x) rfl h
  | fill t => exact renderS_clean_leaf (.fill t) rfl h
  | throw m => exact renderS_clean_leaf (.throw m) rfl h
  | retrieve how ty v bank tok => exact renderS_clean_leaf (.retrieve how ty v bank tok) rfl h
  | line t => exact renderS_clean_leaf (.line t) rfl h
theorem renderL_clean (b : List Stmt) (h : ListOk b = true) : ∀ l ∈ renderL b, Clean l := by
  cases b with
  | nil => simp [renderL]
  | cons s r =>
    simp only [ListOk, Bool.and_eq_true] at h
    intro l hl
    simp only [renderL, List.mem_append] at hl
    rcases hl with hl | hl
    · exact renderS_clean s h.1 l hl
    · exact renderL_clean r h.2 l hl
end

theorem cleanLines_id (ls : List Str) (h : ∀ l ∈ ls, Clean l) : cleanLines ls = ls := by
  induction ls with
  | nil => rfl
  | cons l r ih =>
    have hl := h l (by simp)
    have ih' := ih (fun l' hl' => h l' (by simp [hl']))
    unfold cleanLines at ih' ⊢
    simp only [List.map_cons, List.filter_cons, hl.2]
    have : (fun x : Str => !decide (x = [])) = (fun x => decide (x ≠ [])) := by funext x; simp
    simp [hl.1, this, ih']

/-- block-level round trip on lists of characters -/
theorem parseLinesC_render (b : List Stmt) (h : ListOk b = true) :
    parseLinesC (renderS (.block b)) = some (.block (eraseL b)) := by
  have hc := cleanLines_id _ (renderS_clean (.block b) (by simpa [StmtOk] using h))
  unfold parseLinesC
  rw [hc]
  have e : renderS (.block b) = ['{'] :: (renderL b ++ ['}'] :: []) := by simp [renderS]
  rw [e]
  simp only [parseClean, if_true]
  rw [parseItems_list b h _ [] (by simp)]

theorem parseLines_renderLines (b : List Stmt) (h : ListOk b = true) :
    parseLines (renderLines (.block b)) = some (.block (eraseL b)) := by
  unfold parseLines renderLines
  have : ((renderS (.block b)).map String.ofList).map String.toList = renderS (.block b) := by
    rw [List.map_map]
    have : (String.toList ∘ String.ofList) = id := by funext l; simp
    rw [this, List.map_id]
  rw [this]
  exact parseLinesC_render b h



/-! ### the field the text does not carry -/

mutual
theorem eraseS_tyFree (s : Stmt) (h : tyFreeS s = true) : eraseS s = s := by
  cases s with
  | block b => simp only [tyFreeS] at h; simp [eraseS, eraseL_tyFree b h]
  | loop x c b => simp only [tyFreeS] at h; simp [eraseS, eraseL_tyFree b h]
  | ite c t e =>
    simp only [tyFreeS, Bool.and_eq_true] at h
    simp [eraseS, eraseL_tyFree t h.1, eraseL_tyFree e h.2]
  | retrieve how ty v bank tok =>
    simp only [tyFreeS, beq_iff_eq] at h
    simp [eraseS, h]
  | decl ty nm i => simp [eraseS]
  | set x e => simp [eraseS]
  | push x e => simp [eraseS]
  | clear x => simp [eraseS]
  | fill t => simp [eraseS]
  | throw m => simp [eraseS]
  | line t => simp [eraseS]
theorem eraseL_tyFree (b : List Stmt) (h : tyFreeL b = true) : eraseL b = b := by
  cases b with
  | nil => rfl
  | cons s r =>
    simp only [tyFreeL, Bool.and_eq_true] at h
    simp [eraseL, eraseS_tyFree s h.1, eraseL_tyFree r h.2]
end

mutual
theorem renderS_erase (s : Stmt) : renderS (eraseS s) = renderS s := by
  cases s with
  | block b => simp [eraseS, renderS, renderL_erase b]
  | loop x c b => simp [eraseS, renderS, renderL_erase b]
  | ite c t e =>
    cases e with
    | nil => simp [eraseS, eraseL, renderS, renderL_erase t]
    | cons s0 r0 =>
      have := renderL_erase (s0 :: r0)
      simp only [eraseL] at this
      simp [eraseS, eraseL, renderS, renderL_erase t, this]
  | retrieve how ty v bank tok => simp [eraseS, renderS, renderLeaf]
  | decl ty nm i => simp [eraseS]
  | set x e => simp [eraseS]
  | push x e => simp [eraseS]
  | clear x => simp [eraseS]
  | fill t => simp [eraseS]
  | throw m => simp [eraseS]
  | line t => simp [eraseS]
theorem renderL_erase (b : List Stmt) : renderL (eraseL b) = renderL b := by
  cases b with
  | nil => rfl
  | cons s r => simp [eraseL, renderL, renderS_erase s, renderL_erase r]
end

end FaxVerif.Cpp.Parse
