/-
Cpp — evaluation of an expression depends only on the variables that occur in it.
-/
import FaxVerif.Cpp.Check
namespace FaxVerif.Cpp
variable {D : Type}

mutual
  theorem evalE_congr (N : Num D) (σ σ' : Env D) :
      ∀ e : CExpr, (∀ x ∈ vars e, σ x = σ' x) → evalE N σ e = evalE N σ' e
    | .var n, h => by simp only [evalE, h n (by simp [vars])]
    | .int _, _ => by simp [evalE]
    | .dbl _ _ _, _ => by simp [evalE]
    | .bool _, _ => by simp [evalE]
    | .str _, _ => by simp [evalE]
    | .un op a, h => by
      simp only [evalE, evalE_congr N σ σ' a (fun x hx => h x (by simpa [vars] using hx))]
    | .bin op a b, h => by
      simp only [evalE, evalE_congr N σ σ' a (fun x hx => h x (by simp [vars, hx])),
        evalE_congr N σ σ' b (fun x hx => h x (by simp [vars, hx]))]
    | .deref a, h => by
      simp only [evalE, evalE_congr N σ σ' a (fun x hx => h x (by simpa [vars] using hx))]
    | .mem o _ name args, h => by
      simp only [evalE, evalE_congr N σ σ' o (fun x hx => h x (by simp [vars, hx])),
        evalEs_congr N σ σ' args (fun x hx => h x (by simp [vars, hx]))]
    | .call f args, h => by
      simp only [evalE, evalEs_congr N σ σ' args (fun x hx => h x (by simpa [vars] using hx))]
    | .cast ty a, h => by
      simp only [evalE, evalE_congr N σ σ' a (fun x hx => h x (by simpa [vars] using hx))]
    | .opaque _, _ => by simp [evalE]
  theorem evalEs_congr (N : Num D) (σ σ' : Env D) :
      ∀ es : List CExpr, (∀ x ∈ varsL es, σ x = σ' x) → evalEs N σ es = evalEs N σ' es
    | [], _ => by simp [evalEs]
    | e :: es, h => by
      simp only [evalEs, evalE_congr N σ σ' e (fun x hx => h x (by simp [varsL, hx])),
        evalEs_congr N σ σ' es (fun x hx => h x (by simp [varsL, hx]))]
end

end FaxVerif.Cpp
