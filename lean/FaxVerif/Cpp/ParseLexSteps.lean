/-
Cpp.ParseLexSteps — the tokenizer of Cpp/Parse.lean over one printed token (operator, name, numeral, string) followed by
any text that cannot extend it; what may follow a printed expression.
-/
import FaxVerif.Cpp.ParseLexAtoms
namespace FaxVerif.Cpp.Parse
open FaxVerif.Cpp

/-! ### steps of the tokenizer over the printer's tokens -/

theorem ops2_chars (c d : Char) (h : ops2.contains [c, d] = true) :
    (c = '-' ∨ c = '<' ∨ c = '>' ∨ c = '=' ∨ c = '!' ∨ c = '&' ∨ c = '|') ∧ (d = '>' ∨ d = '=' ∨ d = '&' ∨ d = '|') := by
  simp [ops2] at h
  rcases h with h | h | h | h | h | h | h <;> simp [h.1, h.2]

/-- the character cannot be the second one of a two-character operator -/
def okFirst (d : Char) : Prop := d ≠ '>' ∧ d ≠ '=' ∧ d ≠ '&' ∧ d ≠ '|'

theorem no_op2_of_okFirst (c d : Char) (h : okFirst d) : ops2.contains [c, d] = false := by
  cases hc : ops2.contains [c, d] with
  | false => rfl
  | true =>
    obtain ⟨h1, h2, h3, h4⟩ := h
    rcases (ops2_chars c d hc).2 with e | e | e | e <;> simp_all

theorem no_op2_of_first (c d : Char) (h : c ≠ '-' ∧ c ≠ '<' ∧ c ≠ '>' ∧ c ≠ '=' ∧ c ≠ '!' ∧ c ≠ '&' ∧ c ≠ '|') :
    ops2.contains [c, d] = false := by
  cases hc : ops2.contains [c, d] with
  | false => rfl
  | true =>
    obtain ⟨h1, h2, h3, h4, h5, h6, h7⟩ := h
    rcases (ops2_chars c d hc).1 with e | e | e | e | e | e | e <;> simp_all

/-- the single-character operator tokens the printer writes -/
def op1Char (c : Char) : Prop :=
  c = '(' ∨ c = ')' ∨ c = '*' ∨ c = '<' ∨ c = '>' ∨ c = '.' ∨ c = ',' ∨ c = '-' ∨ c = '+' ∨ c = '!' ∨ c = '/' ∨ c = '%'

theorem lex_step_op1 (k : Nat) (c : Char) (rest : Str) (hc : op1Char c)
    (hdot : c = '.' → headFails Char.isDigit rest)
    (h2 : ∀ d r, rest = d :: r → ops2.contains [c, d] = false) :
    lexAux (k + 1) (c :: rest) = (lexAux k rest).map (.op [c] :: ·) := by
  have facts : ops1.contains c = true ∧ c.isDigit = false ∧ isIdStart c = false ∧ c ≠ '"' ∧ isWs c = false := by
    rcases hc with h | h | h | h | h | h | h | h | h | h | h | h <;> subst h <;> decide
  obtain ⟨f1, f2, f3, f4, f5⟩ := facts
  exact lexAux_tok k c rest _ rest f5 (lexOne_op1 c rest f1 f2 f3 f4 hdot h2)

theorem lex_step_op2 (k : Nat) (c d : Char) (rest : Str) (h : ops2.contains [c, d] = true) :
    lexAux (k + 1) (c :: d :: rest) = (lexAux k rest).map (.op [c, d] :: ·) := by
  have hws : isWs c = false := by
    rcases (ops2_chars c d h).1 with e | e | e | e | e | e | e <;> subst e <;> decide
  exact lexAux_tok k c (d :: rest) _ rest hws (lexOne_op2 c d rest h)

theorem idTokOk_spec (n : Str) (h : idTokOk n = true) :
    ∃ c w, n = c :: w ∧ isIdStart c = true ∧ lexOne c w = some (.id (c :: w), []) := by
  cases n with
  | nil => simp [idTokOk] at h
  | cons c w =>
    simp only [idTokOk, Bool.and_eq_true, beq_iff_eq] at h
    exact ⟨c, w, rfl, h.1, h.2⟩

theorem lex_step_id (k : Nat) (n rest : Str) (h : idTokOk n = true) (hs : safeId rest) :
    lexAux (k + 1) (n ++ rest) = (lexAux k rest).map (.id n :: ·) := by
  obtain ⟨c, w, rfl, hc, hl⟩ := idTokOk_spec n h
  exact lexAux_tok k c (w ++ rest) _ rest (isWs_of_isWord c (isWord_of_isIdStart c hc)) (lexOne_id c w rest hc hl hs)

theorem lexNum_first (c : Char) (w t r : Str) (h : lexNum c w = some (t, r)) : c.isDigit = true ∨ c = '.' := by
  by_cases hd : c.isDigit = true
  · exact Or.inl hd
  · by_cases hp : c = '.'
    · exact Or.inr hp
    · simp [lexNum, hd, hp] at h

theorem isWs_of_isDigit (c : Char) (h : c.isDigit = true) : isWs c = false := by
  apply isWs_of_isWord
  simp [isWord, Char.isAlphanum, h]

theorem numTokOk_spec (t : Str) (h : numTokOk t = true) :
    ∃ c w, t = c :: w ∧ lexNum c w = some (c :: w, []) ∧ (c.isDigit = true ∨ c = '.') := by
  cases t with
  | nil => simp [numTokOk] at h
  | cons c w =>
    simp only [numTokOk, beq_iff_eq] at h
    exact ⟨c, w, rfl, h, lexNum_first c w _ _ h⟩

theorem lex_step_num (k : Nat) (t rest : Str) (h : numTokOk t = true) (hs : safeNum rest) :
    lexAux (k + 1) (t ++ rest) = (lexAux k rest).map (.num t :: ·) := by
  obtain ⟨c, w, rfl, hl, hc⟩ := numTokOk_spec t h
  have hws : isWs c = false := by
    rcases hc with hc | hc
    · exact isWs_of_isDigit c hc
    · subst hc; decide
  exact lexAux_tok k c (w ++ rest) _ rest hws (lexOne_num c w rest hs hl)

theorem lex_step_str (k : Nat) (s rest : Str) (h : s.all (fun c => c != '"' && c != '\\') = true) :
    lexAux (k + 1) ('"' :: (s ++ '"' :: rest)) = (lexAux k rest).map (.str s :: ·) :=
  lexAux_tok k '"' _ _ rest (by decide) (lexOne_str s rest h)

/-! ### what may follow a printed expression -/

def safeHead (num : Bool) (d : Char) : Bool :=
  [')', ',', '|', '&', '=', '!', '<', '>', '+', '-', '*', '/', '%'].contains d || (!num && d == '.')

def safeAfter (num : Bool) (rest : Str) : Prop := ∀ d r, rest = d :: r → safeHead num d = true

theorem safeHead_facts (num : Bool) (d : Char) (h : safeHead num d = true) :
    isWord d = false ∧ d ≠ ':' ∧ d.isDigit = false ∧ d ≠ 'e' ∧ d ≠ 'E' ∧ (num = true → d ≠ '.') := by
  simp only [safeHead, List.contains_eq_mem, List.mem_cons, List.not_mem_nil, or_false, Bool.or_eq_true,
    decide_eq_true_eq, Bool.and_eq_true, Bool.not_eq_true', beq_iff_eq] at h
  rcases h with (h | h | h | h | h | h | h | h | h | h | h | h | h) | ⟨h1, h⟩
  all_goals subst h
  all_goals first
    | exact ⟨by decide, by decide, by decide, by decide, by decide, fun _ => by decide⟩
    | exact ⟨by decide, by decide, by decide, by decide, by decide, fun hn => by rw [h1] at hn; cases hn⟩

theorem safeAfter_id {num : Bool} {rest : Str} (h : safeAfter num rest) : safeId rest :=
  ⟨fun d r e => (safeHead_facts num d (h d r e)).1, fun d r e => (safeHead_facts num d (h d r e)).2.1⟩

theorem safeAfter_num {rest : Str} (h : safeAfter true rest) : safeNum rest := fun d r e =>
  have f := safeHead_facts true d (h d r e)
  ⟨f.2.2.1, f.2.2.2.2.2 rfl, f.2.2.2.1, f.2.2.2.2.1⟩

theorem safeAfter_weaken {num : Bool} {rest : Str} (h : safeAfter true rest) : safeAfter num rest := by
  intro d r e
  have := h d r e
  simp only [safeHead, Bool.or_eq_true] at this ⊢
  rcases this with h1 | h1
  · exact Or.inl h1
  · simp at h1

theorem safeAfter_cons (num : Bool) (d : Char) (r : Str) (h : safeHead num d = true) : safeAfter num (d :: r) := by
  intro d' r' e
  injection e with e1 _
  subst e1
  exact h

end FaxVerif.Cpp.Parse
