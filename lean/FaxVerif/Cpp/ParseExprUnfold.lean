/-
Cpp.ParseExprUnfold — one-step unfolding lemmas of the fuel-driven expression parser of Cpp/Parse.lean (stated with the
results of the inner calls as hypotheses, so that no `match` of the definition appears in a statement).
-/
import FaxVerif.Cpp.ParseSpec
namespace FaxVerif.Cpp.Parse
open FaxVerif.Cpp

/-! ### unfolding lemmas of the expression parser -/

theorem pLevel_top (f lvl : Nat) (ts : List Tok) (h : 6 ≤ lvl) : pLevel (f + 1) lvl ts = pUnary f ts := by
  simp [pLevel, h]

theorem pLevel_step (f lvl : Nat) (ts : List Tok) (a : CExpr) (rest : List Tok) (h : lvl < 6)
    (h1 : pLevel f (lvl + 1) ts = some (a, rest)) : pLevel (f + 1) lvl ts = pLoop f lvl a rest := by
  have : ¬ (6 ≤ lvl) := by omega
  simp [pLevel, this, h1]

theorem pLoop_stop (f lvl : Nat) (a : CExpr) (ts : List Tok)
    (h : ∀ o r, ts = .op o :: r → o ∉ opsAt lvl) : pLoop (f + 1) lvl a ts = some (a, ts) := by
  cases ts with
  | nil => simp [pLoop]
  | cons t r =>
    cases t with
    | op o => simp [pLoop, h o r rfl]
    | _ => simp [pLoop]

theorem pLoop_op (f lvl : Nat) (a b : CExpr) (o : Str) (rest rest' : List Tok)
    (h : o ∈ opsAt lvl) (h1 : pLevel f (lvl + 1) rest = some (b, rest')) :
    pLoop (f + 1) lvl a (.op o :: rest) = pLoop f lvl (.bin (String.ofList o) a b) rest' := by
  simp [pLoop, h, h1]

theorem pUnary_un (f : Nat) (o : Str) (a : CExpr) (rest r : List Tok)
    (h : o = ['-'] ∨ o = ['+'] ∨ o = ['!']) (h1 : pUnary f rest = some (a, r)) :
    pUnary (f + 1) (.op o :: rest) = some (.un (String.ofList o) a, r) := by
  simp [pUnary, h, h1]

theorem pUnary_deref (f : Nat) (a : CExpr) (rest r : List Tok) (h1 : pUnary f rest = some (a, r)) :
    pUnary (f + 1) (.op ['*'] :: rest) = some (.deref a, r) := by
  simp [pUnary, h1]

/-- the first token is not a prefix operator -/
def primStart (ts : List Tok) : Prop :=
  ∀ o r, ts = .op o :: r → o ≠ ['-'] ∧ o ≠ ['+'] ∧ o ≠ ['!'] ∧ o ≠ ['*'] ∧ o ≠ ['&']

theorem pUnary_prim (f : Nat) (ts : List Tok) (a : CExpr) (r : List Tok) (h : primStart ts)
    (h1 : pPrimary f ts = some (a, r)) : pUnary (f + 1) ts = pPostfix f a r := by
  cases ts with
  | nil => simp [pUnary, h1]
  | cons t r0 =>
    cases t with
    | op o =>
      obtain ⟨a1, a2, a3, a4, a5⟩ := h o r0 rfl
      simp [pUnary, a1, a2, a3, a4, a5, h1]
    | _ => simp [pUnary, h1]

/-- the next token does not continue a postfix chain -/
def postStop (ts : List Tok) : Prop := ∀ o r, ts = .op o :: r → o ≠ ['.'] ∧ o ≠ cl!"->" ∧ o ≠ ['[']

theorem pPostfix_stop (f : Nat) (a : CExpr) (ts : List Tok) (h : postStop ts) : pPostfix (f + 1) a ts = some (a, ts) := by
  cases ts with
  | nil => simp [pPostfix]
  | cons t r0 =>
    cases t with
    | op o =>
      obtain ⟨a1, a2, a3⟩ := h o r0 rfl
      simp [pPostfix, a1, a2, a3]
    | _ => simp [pPostfix]

theorem pPostfix_mem (f : Nat) (a : CExpr) (o name : Str) (args : List CExpr) (rest2 r : List Tok)
    (h : o = ['.'] ∨ o = cl!"->") (h1 : pArgs f rest2 = some (args, r)) :
    pPostfix (f + 1) a (.op o :: .id name :: .op ['('] :: rest2) =
      pPostfix f (.mem a (o = cl!"->") (String.ofList name) args) r := by
  simp [pPostfix, h, h1]

theorem pPrimary_num (f : Nat) (s : Str) (rest : List Tok) : pPrimary (f + 1) (.num s :: rest) = some (numLit s, rest) := by
  simp [pPrimary]

theorem pPrimary_str (f : Nat) (s : Str) (rest : List Tok) :
    pPrimary (f + 1) (.str s :: rest) = some (.str (String.ofList (unescape s)), rest) := by
  simp [pPrimary]

theorem pPrimary_true (f : Nat) (rest : List Tok) : pPrimary (f + 1) (.id cl!"true" :: rest) = some (.bool true, rest) := by
  simp [pPrimary]

theorem pPrimary_false (f : Nat) (rest : List Tok) : pPrimary (f + 1) (.id cl!"false" :: rest) = some (.bool false, rest) := by
  simp [pPrimary]

/-- an identifier token that is a name, not one of the three words the parser gives a meaning -/
def plainId (v : Str) : Prop := v ≠ cl!"true" ∧ v ≠ cl!"false" ∧ v ≠ cl!"static_cast"

theorem pPrimary_var (f : Nat) (v : Str) (rest : List Tok) (hv : plainId v)
    (h : ∀ o r, rest = .op o :: r → o ≠ ['(']) : pPrimary (f + 1) (.id v :: rest) = some (.var (String.ofList v), rest) := by
  obtain ⟨h1, h2, h3⟩ := hv
  cases rest with
  | nil => simp [pPrimary, h1, h2, h3]
  | cons t r0 =>
    cases t with
    | op o => simp [pPrimary, h1, h2, h3, h o r0 rfl]
    | _ => simp [pPrimary, h1, h2, h3]

theorem pPrimary_call (f : Nat) (v : Str) (args : List CExpr) (rest1 r : List Tok) (hv : plainId v)
    (h1 : pArgs f rest1 = some (args, r)) :
    pPrimary (f + 1) (.id v :: .op ['('] :: rest1) = some (.call (String.ofList v) args, r) := by
  obtain ⟨a1, a2, a3⟩ := hv
  simp [pPrimary, a1, a2, a3, h1]

theorem pPrimary_paren (f : Nat) (e : CExpr) (rest r' : List Tok)
    (h1 : pLevel f 0 rest = some (e, .op [')'] :: r')) : pPrimary (f + 1) (.op ['('] :: rest) = some (e, r') := by
  simp [pPrimary, h1]

theorem pPrimary_cast (f : Nat) (e : CExpr) (vs : List Str) (rest1 rest3 r' : List Tok)
    (ha : angle 1 rest1 = some (vs, .op ['('] :: rest3))
    (h1 : pLevel f 0 rest3 = some (e, .op [')'] :: r')) :
    pPrimary (f + 1) (.id cl!"static_cast" :: .op ['<'] :: rest1) = some (.cast (String.ofList (castType vs)) e, r') := by
  simp [pPrimary, ha, h1]

theorem pArgs_nil (f : Nat) (rest : List Tok) : pArgs (f + 1) (.op [')'] :: rest) = some ([], rest) := by
  simp [pArgs]

theorem pArgs_cons (f : Nat) (ts : List Tok) (a : CExpr) (as : List CExpr) (r r' : List Tok)
    (h : ∀ o r0, ts = .op o :: r0 → o ≠ [')'])
    (h1 : pLevel f 0 ts = some (a, r)) (h2 : pArgsMore f r = some (as, r')) :
    pArgs (f + 1) ts = some (a :: as, r') := by
  cases ts with
  | nil => simp [pArgs, h1, h2]
  | cons t r0 =>
    cases t with
    | op o => simp [pArgs, h o r0 rfl, h1, h2]
    | _ => simp [pArgs, h1, h2]

theorem pArgsMore_close (f : Nat) (rest : List Tok) : pArgsMore (f + 1) (.op [')'] :: rest) = some ([], rest) := by
  simp [pArgsMore]

theorem pArgsMore_comma (f : Nat) (rest : List Tok) (a : CExpr) (as : List CExpr) (r r' : List Tok)
    (h1 : pLevel f 0 rest = some (a, r)) (h2 : pArgsMore f r = some (as, r')) :
    pArgsMore (f + 1) (.op [','] :: rest) = some (a :: as, r') := by
  simp [pArgsMore, h1, h2]

end FaxVerif.Cpp.Parse
