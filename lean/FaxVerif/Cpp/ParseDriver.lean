/-
Driver of the Lean parser of the emitted text (C02, stream `parse-tie`): JSON lines.
  {"op":"parse","lines":[text..],"cparse":BODY}
     BODY = what tools/cparse.py `parse_body` + tools/qgen.py `_attach_retrieve_types` made of the same lines
  -> {"same":bool,                 Lean parser's statement tree = the decoded tree of cparse.py
      "lean":J,"ref":J             both trees, canonical JSON (only when they differ)
      "render":[text..],           the Lean printer on the Lean parser's tree
      "gen_same":bool,             … is what Gen.renderS (the `partial` printer the Gen drivers use) prints
      "reparse":bool,              parseLines (renderLines t) = some t
      "wf":bool,                   the hypothesis `StmtOk` of the round-trip theorem holds of t (then reparse is a theorem)
      "wf_syn":bool,               the purely syntactic hypothesis `StmtWf` of C02.parse_render holds of t
      "exprs":n,"exprs_wf":k}      expressions of t / those under C02.parseExpr_render (`exprWf`)
  {"op":"expr","text":s,"cparse":E} -> {"same":bool,"lean":J,"ref":J}
  {"op":"decl","lines":[..]} -> {"vars":[{"t","n"}..]}      class declarations (parse_class_decl)
  {"op":"book","lines":[..],"cparse":BOOK} -> {"same":bool,"trees","branches","tokens","other"}   booking code (parse_book)
Run: lake env lean --run FaxVerif/Cpp/ParseDriver.lean
-/
import FaxVerif.Cpp.Json
import FaxVerif.Cpp.Parse
import FaxVerif.Cpp.ParseSpec
import FaxVerif.Gen.Render
open Lean FaxVerif.Cpp FaxVerif.Cpp.Parse

partial def encE : CExpr → Json
  | .var n => Json.mkObj [("k", "var"), ("n", n)]
  | .int v => Json.mkObj [("k", "int"), ("v", Json.str (toString v))]
  | .dbl t m e => Json.mkObj [("k", "dbl"), ("t", t), ("m", Json.str (toString m)), ("e", Json.str (toString e))]
  | .bool b => Json.mkObj [("k", "bool"), ("v", Json.bool b)]
  | .str s => Json.mkObj [("k", "str"), ("v", s)]
  | .un op a => Json.mkObj [("k", "un"), ("op", op), ("a", encE a)]
  | .bin op a b => Json.mkObj [("k", "bin"), ("op", op), ("a", encE a), ("b", encE b)]
  | .deref a => Json.mkObj [("k", "deref"), ("a", encE a)]
  | .mem o arrow n args => Json.mkObj [("k", "mem"), ("o", encE o), ("arrow", Json.bool arrow), ("n", n), ("args", Json.arr (args.map encE).toArray)]
  | .call f args => Json.mkObj [("k", "call"), ("f", f), ("args", Json.arr (args.map encE).toArray)]
  | .cast t a => Json.mkObj [("k", "cast"), ("t", t), ("a", encE a)]
  | .opaque t => Json.mkObj [("k", "opaque"), ("t", t)]

partial def encS : Stmt → Json
  | .block b => Json.mkObj [("k", "block"), ("body", Json.arr (b.map encS).toArray)]
  | .loop x c b => Json.mkObj [("k", "for"), ("x", x), ("c", encE c), ("body", Json.arr (b.map encS).toArray)]
  | .ite c t e => Json.mkObj [("k", "if"), ("c", encE c), ("then", Json.arr (t.map encS).toArray), ("else", Json.arr (e.map encS).toArray)]
  | .decl ty n none => Json.mkObj [("k", "decl"), ("t", ty), ("n", n), ("init", Json.null)]
  | .decl ty n (some e) => Json.mkObj [("k", "decl"), ("t", ty), ("n", n), ("init", encE e)]
  | .set x e => Json.mkObj [("k", "set"), ("x", x), ("e", encE e)]
  | .push x e => Json.mkObj [("k", "push"), ("x", x), ("e", encE e)]
  | .clear x => Json.mkObj [("k", "clear"), ("x", x)]
  | .fill t => Json.mkObj [("k", "fill"), ("tree", t)]
  | .throw m => Json.mkObj [("k", "throw"), ("msg", m)]
  | .retrieve how ty v bank tok => Json.mkObj [("k", "retrieve"), ("how", how), ("ty", ty), ("v", v), ("bank", encE bank), ("token", tok)]
  | .line t => Json.mkObj [("k", "line"), ("t", if t.startsWith "PARSE-ERROR" then "PARSE-ERROR" else t)]

def jl (l : List String) : Json := Json.arr (l.map Json.str).toArray

def handleParse (j : Json) : Except String Json := do
  let lines ← (← jarr j "lines").mapM (·.getStr?)
  let ref ← decStmt (← j.getObjVal? "cparse")
  let bare := parseBody lines
  let mine := attachS [] bare
  let a := (encS mine).compress
  let b := (encS ref).compress
  let same := a == b
  let rl := renderLines bare
  let re := match parseLines rl with
    | some t => (encS t).compress == (encS bare).compress
    | none => false
  let base := [("same", Json.bool same), ("render", jl rl),
    ("gen_same", Json.bool (FaxVerif.Gen.renderS bare == rl)), ("reparse", Json.bool re),
    ("wf", Json.bool (StmtOk bare)),
    ("exprs", Json.num (exprsOfS bare).length),
    ("wf_syn", Json.bool (StmtWf bare)),
    ("exprs_wf", Json.num ((exprsOfS bare).filter exprWf).length)]
  pure (Json.mkObj (if same then base else base ++ [("lean", encS mine), ("ref", encS ref)]))

def handleExpr (j : Json) : Except String Json := do
  let t ← jstr j "text"
  let ref ← decExpr (← j.getObjVal? "cparse")
  let mine := parseExpr t.toList
  let same := (encE mine).compress == (encE ref).compress
  pure (Json.mkObj [("same", Json.bool same), ("lean", encE mine), ("ref", encE ref)])

def handleDecl (j : Json) : Except String Json := do
  let lines ← (← jarr j "lines").mapM (·.getStr?)
  let vs := lines.map fun l =>
    match classDecl l.toList with
    | some (t, n) => Json.mkObj [("t", String.ofList t), ("n", String.ofList n)]
    | none => Json.mkObj [("t", "?"), ("n", "?")]
  pure (Json.mkObj [("vars", Json.arr vs.toArray)])

def handleBook (j : Json) : Except String Json := do
  let lines ← (← jarr j "lines").mapM (·.getStr?)
  let ref ← j.getObjVal? "cparse"
  let bk := parseBook lines
  let rtrees ← (← jarr ref "trees").mapM (·.getStr?)
  let rother ← (← jarr ref "other").mapM (·.getStr?)
  let rbr ← (← jarr ref "branches").mapM fun b => do pure ((← jstr b "name"), (← jstr b "var"))
  let rtok ← (← jarr ref "tokens").mapM fun t => do
    pure ((← jstr t "token"), (← jstr t "type"), (encE (← decExpr (← t.getObjVal? "bank"))).compress)
  let mtok := bk.tokens.map fun t => (t.1, t.2.1, (encE t.2.2).compress)
  let same := bk.trees == rtrees && bk.other == rother && bk.branches == rbr && mtok == rtok
  pure (Json.mkObj [("same", Json.bool same), ("trees", jl bk.trees), ("other", jl bk.other),
    ("branches", Json.arr (bk.branches.map fun b => Json.mkObj [("name", b.1), ("var", b.2)]).toArray),
    ("tokens", Json.arr (bk.tokens.map fun t => Json.mkObj [("token", t.1), ("type", t.2.1), ("bank", encE t.2.2)]).toArray)])

def handle (line : String) : String :=
  match Json.parse line with
  | .error e => (Json.mkObj [("bad", e)]).compress
  | .ok j =>
    let r : Except String Json := do
      let op ← jstr j "op"
      if op == "parse" then handleParse j else if op == "expr" then handleExpr j
      else if op == "decl" then handleDecl j else if op == "book" then handleBook j else throw s!"unknown op {op}"
    match r with
    | .ok j => j.compress
    | .error e => (Json.mkObj [("bad", e)]).compress

partial def loopIO (h : IO.FS.Stream) (out : IO.FS.Stream) : IO Unit := do
  let line ← h.getLine
  if line.isEmpty then return ()
  let t := line.trimAscii.toString
  if !t.isEmpty then out.putStrLn (handle t)
  loopIO h out

def main : IO Unit := do
  let out ← IO.getStdout
  loopIO (← IO.getStdin) out
  out.flush
