/-
Cpp — meaning of the emitted statement language (DESIGN §3.1).

Doubles are abstract: every definition and theorem is parameterised by `N : Num D`; the driver
instantiates `D := Float` to *run* the model. The event data model is data (`Event`): method
results are attributes of the objects, so accessors are pure functions of their receiver — the
purity assumption of the trusted base.
-/
import FaxVerif.Cpp.Syntax
namespace FaxVerif.Cpp

structure Num (D : Type) where
  ofInt : Int → D
  ofDec : Int → Int → D                 -- mantissa, decimal exponent
  add : D → D → D
  sub : D → D → D
  mul : D → D → D
  div : D → D → D
  neg : D → D
  lt : D → D → Bool
  le : D → D → Bool
  eq : D → D → Bool
  toInt : D → Int                       -- static_cast<int>
  fn : String → List D → Option D       -- <cmath> by C++ name

inductive Val (D : Type) where
  | int (n : Int)
  | dbl (x : D)
  | bool (b : Bool)
  | str (s : String)
  | obj (ty : String) (attrs : List (String × Val D))
  | vec (l : List (Val D))
  | null
deriving Inhabited

/-- What an environment holds for a declared name: nothing yet, or a value. -/
inductive Slot (D : Type) where
  | uninit
  | val (v : Val D)
deriving Inhabited

inductive Fault where
  | unbound (n : String)        -- read of an undeclared or uninitialised name  (C02: never)
  | typeErr (why : String)      -- ill-typed operation
  | opaque (text : String)      -- a fragment the model gives no meaning to
  | loud (msg : String)         -- throw / .at() out of range / integer division by zero
  | retrieveFailed (bank : String)
  | nullDeref
deriving Repr, DecidableEq, Inhabited

/-- An event: bank name ↦ (container type, content). -/
structure Event (D : Type) where
  banks : List (String × String × Val D)
deriving Inhabited

abbrev Env (D : Type) := String → Option (Slot D)

def Env.set {D} (σ : Env D) (x : String) (v : Val D) : Env D := fun y => if y = x then some (.val v) else σ y

def Env.declare {D} (σ : Env D) (x : String) : Env D := fun y => if y = x then some .uninit else σ y

structure St (D : Type) where
  env : Env D
  rows : List (List (Val D))

variable {D : Type}

def asD (N : Num D) : Val D → Option D
  | .int n => some (N.ofInt n)
  | .dbl x => some x
  | .bool b => some (N.ofInt (if b then 1 else 0))
  | _ => none

def asInt : Val D → Option Int
  | .int n => some n
  | .bool b => some (if b then 1 else 0)
  | _ => none

def asBool (N : Num D) : Val D → Option Bool
  | .bool b => some b
  | .int n => some (n != 0)
  | .dbl x => some (!(N.eq x (N.ofInt 0)))
  | _ => none

def arith (N : Num D) (op : String) (a b : Val D) : Except Fault (Val D) :=
  match asInt a, asInt b with
  | some x, some y =>
    match op with
    | "+" => .ok (.int (x + y))
    | "-" => .ok (.int (x - y))
    | "*" => .ok (.int (x * y))
    | "/" => if y = 0 then .error (.loud "integer division by zero") else .ok (.int (Int.tdiv x y))
    | "%" => if y = 0 then .error (.loud "integer division by zero") else .ok (.int (Int.tmod x y))
    | "<" => .ok (.bool (x < y))
    | "<=" => .ok (.bool (x ≤ y))
    | ">" => .ok (.bool (y < x))
    | ">=" => .ok (.bool (y ≤ x))
    | "==" => .ok (.bool (x = y))
    | "!=" => .ok (.bool (x ≠ y))
    | _ => .error (.typeErr s!"operator {op}")
  | _, _ =>
    match asD N a, asD N b with
    | some x, some y =>
      match op with
      | "+" => .ok (.dbl (N.add x y))
      | "-" => .ok (.dbl (N.sub x y))
      | "*" => .ok (.dbl (N.mul x y))
      | "/" => .ok (.dbl (N.div x y))
      | "<" => .ok (.bool (N.lt x y))
      | "<=" => .ok (.bool (N.le x y))
      | ">" => .ok (.bool (N.lt y x))
      | ">=" => .ok (.bool (N.le y x))
      | "==" => .ok (.bool (N.eq x y))
      | "!=" => .ok (.bool (!(N.eq x y)))
      | _ => .error (.typeErr s!"operator {op} on floating operands")
    | _, _ => .error (.typeErr s!"operands of {op}")

def unop (N : Num D) (op : String) (a : Val D) : Except Fault (Val D) :=
  match op, a with
  | "-", .int n => .ok (.int (-n))
  | "-", .dbl x => .ok (.dbl (N.neg x))
  | "-", .bool b => .ok (.int (if b then -1 else 0))
  | "+", .int n => .ok (.int n)
  | "+", .dbl x => .ok (.dbl x)
  | "+", .bool b => .ok (.int (if b then 1 else 0))
  | "!", v => match asBool N v with
    | some b => .ok (.bool (!b))
    | none => .error (.typeErr "operand of !")
  | _, _ => .error (.typeErr s!"unary {op}")

def castTo (N : Num D) (ty : String) (a : Val D) : Except Fault (Val D) :=
  if ty = "double" ∨ ty = "float" then
    match asD N a with
    | some x => .ok (.dbl x)
    | none => .error (.typeErr "static_cast to floating")
  else if ty = "int" then
    match a with
    | .int n => .ok (.int n)
    | .bool b => .ok (.int (if b then 1 else 0))
    | .dbl x => .ok (.int (N.toInt x))
    | _ => .error (.typeErr "static_cast to int")
  else if ty = "bool" then
    match asBool N a with
    | some b => .ok (.bool b)
    | none => .error (.typeErr "static_cast to bool")
  else .ok a

def lookupAttr (attrs : List (String × Val D)) (n : String) : Option (Val D) :=
  match attrs with
  | [] => none
  | (k, v) :: rest => if k = n then some v else lookupAttr rest n

def member (recv : Val D) (name : String) (args : List (Val D)) : Except Fault (Val D) :=
  match recv with
  | .null => .error .nullDeref
  | .obj _ attrs =>
    match lookupAttr attrs name with
    | some v => .ok v
    | none => .error (.typeErr s!"no member {name}")
  | .vec l =>
    if name = "size" then .ok (.int l.length)
    else if name = "at" then
      match args with
      | [.int i] => if 0 ≤ i then
          match l[i.toNat]? with
          | some v => .ok v
          | none => .error (.loud "vector::at out of range")
        else .error (.loud "vector::at out of range")
      | _ => .error (.typeErr "argument of at")
    else .error (.typeErr s!"no member {name} on a vector")
  | _ => .error (.typeErr s!"member {name} of a non-object")

mutual
  def evalE (N : Num D) (σ : Env D) : CExpr → Except Fault (Val D)
    | .var n => match σ n with
      | none => .error (.unbound n)
      | some .uninit => .error (.unbound n)
      | some (.val v) => .ok v
    | .int v => .ok (.int v)
    | .dbl _ num e => .ok (.dbl (N.ofDec num e))
    | .bool b => .ok (.bool b)
    | .str s => .ok (.str s)
    | .un op a => match evalE N σ a with
      | .ok v => unop N op v
      | .error f => .error f
    | .bin op a b =>
      match evalE N σ a with
      | .error f => .error f
      | .ok va =>
        if op = "&&" then
          match asBool N va with
          | none => .error (.typeErr "operand of &&")
          | some false => .ok (.bool false)
          | some true => match evalE N σ b with
            | .error f => .error f
            | .ok vb => match asBool N vb with
              | some r => .ok (.bool r)
              | none => .error (.typeErr "operand of &&")
        else if op = "||" then
          match asBool N va with
          | none => .error (.typeErr "operand of ||")
          | some true => .ok (.bool true)
          | some false => match evalE N σ b with
            | .error f => .error f
            | .ok vb => match asBool N vb with
              | some r => .ok (.bool r)
              | none => .error (.typeErr "operand of ||")
        else match evalE N σ b with
          | .error f => .error f
          | .ok vb => arith N op va vb
    | .deref a => match evalE N σ a with
      | .ok .null => .error .nullDeref
      | .ok v => .ok v
      | .error f => .error f
    | .mem o _ name args => match evalE N σ o with
      | .error f => .error f
      | .ok r => match evalEs N σ args with
        | .error f => .error f
        | .ok vs => member r name vs
    | .call f args => match evalEs N σ args with
      | .error e => .error e
      | .ok vs =>
        match vs.mapM (asD N) with
        | none => .error (.typeErr s!"arguments of {f}")
        | some ds => match N.fn f ds with
          | some r => .ok (.dbl r)
          | none => .error (.typeErr s!"unknown function {f}")
    | .cast ty a => match evalE N σ a with
      | .ok v => castTo N ty v
      | .error f => .error f
    | .opaque t => .error (.opaque t)
  def evalEs (N : Num D) (σ : Env D) : List CExpr → Except Fault (List (Val D))
    | [] => .ok []
    | e :: es => match evalE N σ e with
      | .error f => .error f
      | .ok v => match evalEs N σ es with
        | .error f => .error f
        | .ok vs => .ok (v :: vs)
end

/-- the declared type is a `std::vector<…>` (decided on character lists, so that it can be reasoned about) -/
def isVecType (ty : String) : Bool := "std::vector<".toList.isPrefixOf ty.toList

def Event.find (ev : Event D) (bank : String) : Option (String × Val D) :=
  let rec go : List (String × String × Val D) → Option (String × Val D)
    | [] => none
    | (b, t, v) :: rest => if b = bank then some (t, v) else go rest
  go ev.banks

/-- Parameters of a run that do not change: number model, event, the branch variables in
booking order, and (miniAOD) what each token was initialised with. -/
structure Ctx (D : Type) where
  N : Num D
  ev : Event D
  cols : List String
  tokens : List (String × String × String)

def Ctx.tokenBank (C : Ctx D) (tok : String) : Option (String × String) :=
  let rec go : List (String × String × String) → Option (String × String)
    | [] => none
    | (t, ty, b) :: rest => if t = tok then some (ty, b) else go rest
  go C.tokens

def readCols (σ : Env D) : List String → Except Fault (List (Val D))
  | [] => .ok []
  | c :: cs => match σ c with
    | none => .error (.unbound c)
    | some .uninit => .error (.unbound c)
    | some (.val v) => match readCols σ cs with
      | .ok vs => .ok (v :: vs)
      | .error f => .error f

/-- Iterate a loop body over the elements (the body is passed as a state transformer). -/
def iter (f : St D → Val D → Except Fault (St D)) : List (Val D) → St D → Except Fault (St D)
  | [], s => .ok s
  | v :: vs, s => match f s v with
    | .ok s' => iter f vs s'
    | .error e => .error e

/-- What a retrieval asks the event for, and what it gets: the requested container type and bank
(from the token's initialisation on miniAOD, from the argument otherwise), the bank's content if
the bank exists and holds that type. -/
def retrReq (C : Ctx D) (σ : Env D) (how ty : String) (bank : CExpr) (token : String) : Except Fault (Val D) :=
  let req : Except Fault (String × String) :=
    if how = "token" then
      match C.tokenBank token with
      | some (tty, b) => .ok (tty, b)
      | none => .error (.unbound token)
    else match evalE C.N σ bank with
      | .ok (.str b) => .ok (ty, b)
      | .ok _ => .error (.typeErr "bank name")
      | .error f => .error f
  match req with
  | .error f => .error f
  | .ok (want, b) => match C.ev.find b with
    | none => .error (.retrieveFailed b)
    | some (have_, content) =>
      if want = have_ ∧ want = ty then .ok content
      else .error (.typeErr s!"bank {b} holds {have_}, requested {want} into a variable of {ty}")

mutual
  def exec (C : Ctx D) : Stmt → St D → Except Fault (St D)
    | .block body, s => execs C body s
    | .loop x coll body, s =>
      match evalE C.N s.env coll with
      | .error f => .error f
      | .ok (.vec l) => iter (fun s v => execs C body { s with env := s.env.set x v }) l s
      | .ok _ => .error (.typeErr "range-for over a non-sequence")
    | .ite c thn els, s =>
      match evalE C.N s.env c with
      | .error f => .error f
      | .ok v => match asBool C.N v with
        | none => .error (.typeErr "condition")
        | some true => execs C thn s
        | some false => execs C els s
    | .decl ty n init, s =>
      match init with
      | none => .ok { s with env := if isVecType ty then s.env.set n (.vec []) else s.env.declare n }
      | some e => match evalE C.N s.env e with
        | .ok v =>
          -- copy-initialisation converts to the declared type (`double acc (0)` holds 0.0)
          match castTo C.N ty v with
          | .ok v' => .ok { s with env := s.env.set n v' }
          | .error f => .error f
        | .error f => .error f
    | .set x e, s =>
      match s.env x with
      | none => .error (.unbound x)
      | some _ => match evalE C.N s.env e with
        | .ok v => .ok { s with env := s.env.set x v }
        | .error f => .error f
    | .push x e, s =>
      match s.env x with
      | some (.val (.vec l)) => match evalE C.N s.env e with
        | .ok v => .ok { s with env := s.env.set x (.vec (l ++ [v])) }
        | .error f => .error f
      | some (.val _) => .error (.typeErr "push_back on a non-vector")
      | some .uninit => .error (.unbound x)
      | none => .error (.unbound x)
    | .clear x, s =>
      match s.env x with
      | some (.val (.vec _)) => .ok { s with env := s.env.set x (.vec []) }
      | some (.val _) => .error (.typeErr "clear on a non-vector")
      | some .uninit => .error (.unbound x)
      | none => .error (.unbound x)
    | .fill _, s =>
      match readCols s.env C.cols with
      | .ok r => .ok { s with rows := s.rows ++ [r] }
      | .error f => .error f
    | .throw msg, _ => .error (.loud msg)
    | .retrieve how ty v bank token, s =>
      match s.env v with
      | none => .error (.unbound v)
      | some _ =>
        match retrReq C s.env how ty bank token with
        | .error f => .error f
        | .ok content => .ok { s with env := s.env.set v content }
    | .line t, _ => .error (.opaque t)
  def execs (C : Ctx D) : List Stmt → St D → Except Fault (St D)
    | [], s => .ok s
    | st :: rest, s => match exec C st s with
      | .ok s' => execs C rest s'
      | .error f => .error f
end

end FaxVerif.Cpp
