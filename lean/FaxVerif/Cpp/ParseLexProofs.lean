/-
Cpp.ParseLexProofs — the tokenizer of Cpp/Parse.lean splits the printed text of an expression into the printer's tokens:
`tokenize (renderE e) = some (toksE e)` for every expression satisfying `wfT` and `wfL` (C02.lex_render).
-/
import FaxVerif.Cpp.ParseLexSteps
namespace FaxVerif.Cpp.Parse
open FaxVerif.Cpp

theorem renderArgs_cons (a : CExpr) (l : List CExpr) : renderArgs (a :: l) = renderE a ++ renderMore l := by
  induction l generalizing a with
  | nil => simp [renderArgs, renderMore]
  | cons b r ih => simp [renderArgs, renderMore, ih b]

/-- the first character of a printed expression cannot extend an operator written before it -/
theorem renderE_first (e : CExpr) (h : wfT e = true) (hl : wfL e = true) :
    ∃ d, (renderE e).head? = some d ∧ okFirst d := by
  induction e using CExpr.rec (motive_2 := fun _ => True) with
  | var n =>
    obtain ⟨c, w, hn, hc, _⟩ := idTokOk_spec _ (by simpa [wfL] using hl)
    have hw := isWord_of_isIdStart c hc
    exact ⟨c, by simp [renderE, hn], ne_of_isWord hw (by decide), ne_of_isWord hw (by decide), ne_of_isWord hw (by decide), ne_of_isWord hw (by decide)⟩
  | int v =>
    simp only [wfL] at hl
    obtain ⟨c, w, hn, _, hc⟩ := numTokOk_spec _ hl
    refine ⟨c, by simp only [renderE, hn, List.head?_cons], ?_⟩
    rcases hc with hc | hc
    · have hw : isWord c = true := by simp [isWord, Char.isAlphanum, hc]
      exact ⟨ne_of_isWord hw (by decide), ne_of_isWord hw (by decide), ne_of_isWord hw (by decide), ne_of_isWord hw (by decide)⟩
    · subst hc; exact ⟨by decide, by decide, by decide, by decide⟩
  | dbl t m ex =>
    simp only [wfL] at hl
    obtain ⟨c, w, hn, _, hc⟩ := numTokOk_spec _ hl
    refine ⟨c, by simp only [renderE, hn, List.head?_cons], ?_⟩
    rcases hc with hc | hc
    · have hw : isWord c = true := by simp [isWord, Char.isAlphanum, hc]
      exact ⟨ne_of_isWord hw (by decide), ne_of_isWord hw (by decide), ne_of_isWord hw (by decide), ne_of_isWord hw (by decide)⟩
    · subst hc; exact ⟨by decide, by decide, by decide, by decide⟩
  | bool b =>
    cases b
    · exact ⟨'f', by simp [renderE], by decide, by decide, by decide, by decide⟩
    · exact ⟨'t', by simp [renderE], by decide, by decide, by decide, by decide⟩
  | str s => exact ⟨'"', by simp [renderE], by decide, by decide, by decide, by decide⟩
  | un op a _ => exact ⟨'(', by simp [renderE], by decide, by decide, by decide, by decide⟩
  | bin op a b _ _ => exact ⟨'(', by simp [renderE], by decide, by decide, by decide, by decide⟩
  | deref a _ => exact ⟨'*', by simp [renderE], by decide, by decide, by decide, by decide⟩
  | mem o ar n args ih _ =>
    simp only [wfT, Bool.and_eq_true] at h
    simp only [wfL, Bool.and_eq_true] at hl
    obtain ⟨d, hr, hd⟩ := ih h.1.2 hl.1.1.2
    refine ⟨d, ?_, hd⟩
    cases hro : renderE o with
    | nil => simp [hro] at hr
    | cons x y => simpa [renderE, hro] using hr
  | call f args _ =>
    simp only [wfL, Bool.and_eq_true] at hl
    obtain ⟨c, w, hn, hc, _⟩ := idTokOk_spec _ hl.1
    have hw := isWord_of_isIdStart c hc
    exact ⟨c, by simp [renderE, hn], ne_of_isWord hw (by decide), ne_of_isWord hw (by decide), ne_of_isWord hw (by decide), ne_of_isWord hw (by decide)⟩
  | cast t a _ => exact ⟨'s', by simp [renderE], by decide, by decide, by decide, by decide⟩
  | «opaque» t => simp [wfT] at h
  | nil => trivial
  | cons a as _ _ => trivial

theorem first_of_append (a b : Str) (d d' : Char) (r : Str) (h : a.head? = some d) (e : a ++ b = d' :: r) : d' = d := by
  cases a with
  | nil => simp at h
  | cons x y =>
    simp at h e
    rw [← h, e.1]



theorem safeHead_close (num : Bool) : safeHead num ')' = true := by simp [safeHead]
theorem safeHead_comma (num : Bool) : safeHead num ',' = true := by simp [safeHead]

theorem lex_close (k : Nat) (rest : Str) : lexAux (k + 1) (')' :: rest) = (lexAux k rest).map (.op [')'] :: ·) :=
  lex_step_op1 k ')' rest (by simp [op1Char]) (fun h => absurd h (by decide))
    (fun d _ _ => no_op2_of_first ')' d ⟨by decide, by decide, by decide, by decide, by decide, by decide, by decide⟩)

theorem lex_open (k : Nat) (rest : Str) : lexAux (k + 1) ('(' :: rest) = (lexAux k rest).map (.op ['('] :: ·) :=
  lex_step_op1 k '(' rest (by simp [op1Char]) (fun h => absurd h (by decide))
    (fun d _ _ => no_op2_of_first '(' d ⟨by decide, by decide, by decide, by decide, by decide, by decide, by decide⟩)

theorem okFirst_open : okFirst '(' := ⟨by decide, by decide, by decide, by decide⟩

/-- a binary operator in front of an operand -/
theorem lex_step_binop (k : Nat) (o : Str) (L : Nat) (ho : o ∈ opsAt L) (rest : Str)
    (hf : ∀ d r, rest = d :: r → okFirst d) :
    lexAux (k + 1) (o ++ rest) = (lexAux k rest).map (.op o :: ·) := by
  have one : ∀ c, op1Char c → c ≠ '.' → lexAux (k + 1) ([c] ++ rest) = (lexAux k rest).map (.op [c] :: ·) := by
    intro c hc hne
    exact lex_step_op1 k c rest hc (fun h => absurd h hne) (fun d r e => no_op2_of_okFirst c d (hf d r e))
  have two : ∀ c d, ops2.contains [c, d] = true → lexAux (k + 1) ([c, d] ++ rest) = (lexAux k rest).map (.op [c, d] :: ·) := by
    intro c d h
    exact lex_step_op2 k c d rest h
  rcases L with _ | _ | _ | _ | _ | _ | L
  all_goals simp only [opsAt, List.mem_cons, List.not_mem_nil, or_false] at ho
  · subst ho; exact two _ _ (by decide)
  · subst ho; exact two _ _ (by decide)
  · rcases ho with ho | ho <;> subst ho <;> exact two _ _ (by decide)
  · rcases ho with ho | ho | ho | ho <;> subst ho
    · exact one _ (by simp [op1Char]) (by decide)
    · exact two _ _ (by decide)
    · exact one _ (by simp [op1Char]) (by decide)
    · exact two _ _ (by decide)
  · rcases ho with ho | ho <;> subst ho <;> exact one _ (by simp [op1Char]) (by decide)
  · rcases ho with ho | ho | ho <;> subst ho <;> exact one _ (by simp [op1Char]) (by decide)

/-- a binary operator may follow any printed expression -/
theorem binop_safe (o : Str) (L : Nat) (ho : o ∈ opsAt L) (num : Bool) (rest : Str) : safeAfter num (o ++ rest) := by
  rcases L with _ | _ | _ | _ | _ | _ | L
  all_goals simp only [opsAt, List.mem_cons, List.not_mem_nil, or_false] at ho
  · subst ho; exact safeAfter_cons num _ _ (by simp [safeHead])
  · subst ho; exact safeAfter_cons num _ _ (by simp [safeHead])
  · rcases ho with ho | ho <;> subst ho <;> exact safeAfter_cons num _ _ (by simp [safeHead])
  · rcases ho with ho | ho | ho | ho <;> subst ho <;> exact safeAfter_cons num _ _ (by simp [safeHead])
  · rcases ho with ho | ho <;> subst ho <;> exact safeAfter_cons num _ _ (by simp [safeHead])
  · rcases ho with ho | ho | ho <;> subst ho <;> exact safeAfter_cons num _ _ (by simp [safeHead])

theorem map_map_cons (o : Option (List Tok)) (t : Tok) (ts : List Tok) :
    (o.map (ts ++ ·)).map (t :: ·) = o.map ((t :: ts) ++ ·) := by cases o <;> simp

theorem map_map_app (o : Option (List Tok)) (ts us : List Tok) :
    (o.map (us ++ ·)).map (ts ++ ·) = o.map ((ts ++ us) ++ ·) := by cases o <;> simp


theorem idTok_true : idTokOk cl!"true" = true := by decide
theorem idTok_false : idTokOk cl!"false" = true := by decide
theorem idTok_cast : idTokOk cl!"static_cast" = true := by decide

theorem safeId_cons (d : Char) (r : Str) (h1 : isWord d = false) (h2 : d ≠ ':') : safeId (d :: r) :=
  ⟨fun d' r' e => by injection e with e1 _; subst e1; exact h1, fun d' r' e => by injection e with e1 _; subst e1; exact h2⟩

theorem renderMore_safe (l : List CExpr) (rest : Str) (num : Bool) : safeAfter num (renderMore l ++ ')' :: rest) := by
  cases l with
  | nil => exact safeAfter_cons num _ _ (safeHead_close num)
  | cons b r => simpa [renderMore] using safeAfter_cons num ',' _ (safeHead_comma num)

mutual
theorem lex_main (e : CExpr) (h : wfT e = true) (hl : wfL e = true) (fuel : Nat) (rest : Str)
    (hs : safeAfter (endsNum e) rest) :
    lexAux (fuel + (toksE e).length) (renderE e ++ rest) = (lexAux fuel rest).map (toksE e ++ ·) := by
  cases e with
  | var n =>
    simp only [wfL] at hl
    have := lex_step_id fuel n.toList rest hl (safeAfter_id hs)
    simpa [toksE, renderE] using this
  | int v =>
    simp only [wfL] at hl
    have := lex_step_num fuel (toString v).toList rest hl (safeAfter_num hs)
    simpa only [toksE, renderE, List.length_singleton, List.singleton_append] using this
  | dbl t m ex =>
    simp only [wfL] at hl
    have := lex_step_num fuel t.toList rest hl (safeAfter_num hs)
    simpa only [toksE, renderE, List.length_singleton, List.singleton_append] using this
  | bool b =>
    cases b
    · have := lex_step_id fuel cl!"false" rest idTok_false (safeAfter_id hs)
      simpa [toksE, renderE] using this
    · have := lex_step_id fuel cl!"true" rest idTok_true (safeAfter_id hs)
      simpa [toksE, renderE] using this
  | str s =>
    simp only [wfL] at hl
    have := lex_step_str fuel s.toList rest hl
    simpa [toksE, renderE] using this
  | un op a =>
    simp only [wfT, Bool.and_eq_true, Bool.or_eq_true, beq_iff_eq] at h
    simp only [wfL] at hl
    obtain ⟨hop, ha⟩ := h
    obtain ⟨c, hc, hc1, hcd⟩ : ∃ c, op.toList = [c] ∧ op1Char c ∧ c ≠ '.' := by
      rcases hop with (rfl | rfl) | rfl
      · exact ⟨'-', by decide, by simp [op1Char], by decide⟩
      · exact ⟨'+', by decide, by simp [op1Char], by decide⟩
      · exact ⟨'!', by decide, by simp [op1Char], by decide⟩
    have ih := lex_main a ha hl (fuel + 2) (')' :: ')' :: rest) (safeAfter_cons _ _ _ (safeHead_close _))
    have e1 : renderE (.un op a) ++ rest = '(' :: c :: '(' :: (renderE a ++ ')' :: ')' :: rest) := by simp [renderE, hc]
    have e2 : fuel + (toksE (.un op a)).length = (fuel + 2 + (toksE a).length) + 1 + 1 + 1 := by simp [toksE]; omega
    rw [e1, e2, lex_open,
      lex_step_op1 _ c _ hc1 (fun hh => absurd hh hcd) (fun d r e => no_op2_of_okFirst c d (by injection e with e3 _; subst e3; exact okFirst_open)),
      lex_open, ih, show fuel + 2 = fuel + 1 + 1 by omega, lex_close, lex_close]
    cases lexAux fuel rest <;> simp [toksE, hc]
  | bin op a b =>
    simp only [wfT, Bool.and_eq_true] at h
    simp only [wfL, Bool.and_eq_true] at hl
    obtain ⟨⟨hop, ha⟩, hb⟩ := h
    obtain ⟨L, hL⟩ := binOpOk_spec _ hop
    obtain ⟨d0, hd0, hok⟩ := renderE_first b hb hl.2
    have ihb := lex_main b hb hl.2 (fuel + 1) (')' :: rest) (safeAfter_cons _ _ _ (safeHead_close _))
    have iha := lex_main a ha hl.1 (fuel + 1 + (toksE b).length + 1) (op.toList ++ (renderE b ++ ')' :: rest)) (binop_safe _ L hL _ _)
    have hstep := lex_step_binop (fuel + 1 + (toksE b).length) op.toList L hL (renderE b ++ ')' :: rest)
      (fun d r e => by rw [first_of_append _ _ d0 d r hd0 e]; exact hok)
    have e1 : renderE (.bin op a b) ++ rest = '(' :: (renderE a ++ (op.toList ++ (renderE b ++ ')' :: rest))) := by simp [renderE]
    have e2 : fuel + (toksE (.bin op a b)).length = (fuel + 1 + (toksE b).length + 1 + (toksE a).length) + 1 := by
      simp [toksE]; omega
    rw [e1, e2, lex_open, iha, hstep, ihb, lex_close]
    cases lexAux fuel rest <;> simp [toksE]
  | deref a =>
    simp only [wfT] at h
    simp only [wfL] at hl
    have ih := lex_main a h hl fuel rest (by simpa [endsNum] using hs)
    have e1 : renderE (.deref a) ++ rest = '*' :: (renderE a ++ rest) := by simp [renderE]
    have e2 : fuel + (toksE (.deref a)).length = (fuel + (toksE a).length) + 1 := by simp [toksE]; omega
    rw [e1, e2, lex_step_op1 _ '*' _ (by simp [op1Char]) (fun hh => absurd hh (by decide))
      (fun d _ _ => no_op2_of_first '*' d ⟨by decide, by decide, by decide, by decide, by decide, by decide, by decide⟩), ih]
    cases lexAux fuel rest <;> simp [toksE]
  | mem o ar n args =>
    simp only [wfT, Bool.and_eq_true] at h
    simp only [wfL, Bool.and_eq_true, Bool.not_eq_true'] at hl
    obtain ⟨⟨hso, ho⟩, hargs⟩ := h
    obtain ⟨⟨⟨hen, hlo⟩, hn⟩, hlargs⟩ := hl
    obtain ⟨cn, wn, hcn, hcs, _⟩ := idTokOk_spec _ hn
    have iargs := lex_args args hargs hlargs fuel rest
    have hid := lex_step_id (fuel + (toksArgs args).length + 1 + 1) n.toList ('(' :: (renderArgs args ++ ')' :: rest)) hn
      (safeId_cons _ _ (by decide) (by decide))
    cases ar with
    | false =>
      have iho := lex_main o ho hlo (fuel + (toksArgs args).length + 1 + 1 + 1 + 1)
        ('.' :: (n.toList ++ '(' :: (renderArgs args ++ ')' :: rest))) (by rw [hen]; exact safeAfter_cons _ _ _ (by simp [safeHead]))
      have hdotstep := lex_step_op1 (fuel + (toksArgs args).length + 1 + 1 + 1) '.' (n.toList ++ '(' :: (renderArgs args ++ ')' :: rest))
        (by simp [op1Char])
        (fun _ d r e => by
          rw [hcn] at e
          injection e with e3 _
          subst e3
          cases hdg : cn.isDigit with
          | false => rfl
          | true => have := lexNum_idStart cn [] hcs; simp [lexNum, hdg] at this)
        (fun d _ _ => no_op2_of_first '.' d ⟨by decide, by decide, by decide, by decide, by decide, by decide, by decide⟩)
      have e1 : renderE (.mem o false n args) ++ rest = renderE o ++ ('.' :: (n.toList ++ '(' :: (renderArgs args ++ ')' :: rest))) := by
        simp [renderE]
      have e2 : fuel + (toksE (.mem o false n args)).length = (fuel + (toksArgs args).length + 1 + 1 + 1 + 1) + (toksE o).length := by
        simp [toksE]; omega
      rw [e1, e2, iho, hdotstep, hid, lex_open, iargs]
      cases lexAux fuel rest <;> simp [toksE]
    | true =>
      have iho := lex_main o ho hlo (fuel + (toksArgs args).length + 1 + 1 + 1 + 1)
        ('-' :: '>' :: (n.toList ++ '(' :: (renderArgs args ++ ')' :: rest))) (by rw [hen]; exact safeAfter_cons _ _ _ (by simp [safeHead]))
      have harrow := lex_step_op2 (fuel + (toksArgs args).length + 1 + 1 + 1) '-' '>' (n.toList ++ '(' :: (renderArgs args ++ ')' :: rest)) (by decide)
      have e1 : renderE (.mem o true n args) ++ rest = renderE o ++ ('-' :: '>' :: (n.toList ++ '(' :: (renderArgs args ++ ')' :: rest))) := by
        simp [renderE]
      have e2 : fuel + (toksE (.mem o true n args)).length = (fuel + (toksArgs args).length + 1 + 1 + 1 + 1) + (toksE o).length := by
        simp [toksE]; omega
      rw [e1, e2, iho, harrow, hid, lex_open, iargs]
      cases lexAux fuel rest <;> simp [toksE]
  | call fn args =>
    simp only [wfT, Bool.and_eq_true] at h
    simp only [wfL, Bool.and_eq_true] at hl
    have iargs := lex_args args h.2 hl.2 fuel rest
    have hid := lex_step_id (fuel + (toksArgs args).length + 1 + 1) fn.toList ('(' :: (renderArgs args ++ ')' :: rest)) hl.1
      (safeId_cons _ _ (by decide) (by decide))
    have e1 : renderE (.call fn args) ++ rest = fn.toList ++ ('(' :: (renderArgs args ++ ')' :: rest)) := by simp [renderE]
    have e2 : fuel + (toksE (.call fn args)).length = (fuel + (toksArgs args).length + 1 + 1) + 1 := by simp [toksE]; omega
    rw [e1, e2, hid, lex_open, iargs]
    cases lexAux fuel rest <;> simp [toksE]
  | cast t a =>
    simp only [wfT, Bool.and_eq_true] at h
    simp only [wfL, Bool.and_eq_true] at hl
    obtain ⟨ct, wt, hct, hcs, _⟩ := idTokOk_spec _ hl.1
    have hwt := isWord_of_isIdStart ct hcs
    have ih := lex_main a h.2 hl.2 (fuel + 1) (')' :: rest) (safeAfter_cons _ _ _ (safeHead_close _))
    have h1 := lex_step_id (fuel + 1 + (toksE a).length + 1 + 1 + 1 + 1) cl!"static_cast"
      ('<' :: (t.toList ++ '>' :: '(' :: (renderE a ++ ')' :: rest))) idTok_cast (safeId_cons _ _ (by decide) (by decide))
    have h2 := lex_step_op1 (fuel + 1 + (toksE a).length + 1 + 1 + 1) '<' (t.toList ++ '>' :: '(' :: (renderE a ++ ')' :: rest))
      (by simp [op1Char]) (fun hh => absurd hh (by decide))
      (fun d r e => no_op2_of_okFirst '<' d (by
        rw [hct] at e; injection e with e3 _; subst e3
        exact ⟨ne_of_isWord hwt (by decide), ne_of_isWord hwt (by decide), ne_of_isWord hwt (by decide), ne_of_isWord hwt (by decide)⟩))
    have h3 := lex_step_id (fuel + 1 + (toksE a).length + 1 + 1) t.toList ('>' :: '(' :: (renderE a ++ ')' :: rest)) hl.1
      (safeId_cons _ _ (by decide) (by decide))
    have h4 := lex_step_op1 (fuel + 1 + (toksE a).length + 1) '>' ('(' :: (renderE a ++ ')' :: rest))
      (by simp [op1Char]) (fun hh => absurd hh (by decide))
      (fun d r e => no_op2_of_okFirst '>' d (by injection e with e3 _; subst e3; exact okFirst_open))
    have e1 : renderE (.cast t a) ++ rest = cl!"static_cast" ++ ('<' :: (t.toList ++ '>' :: '(' :: (renderE a ++ ')' :: rest))) := by
      simp [renderE]
    have e2 : fuel + (toksE (.cast t a)).length = (fuel + 1 + (toksE a).length + 1 + 1 + 1 + 1) + 1 := by simp [toksE]; omega
    rw [e1, e2, h1, h2, h3, h4, lex_open, ih, lex_close]
    cases lexAux fuel rest <;> simp [toksE]
  | «opaque» t => simp [wfT] at h
theorem lex_args (args : List CExpr) (h : wfTArgs args = true) (hl : wfLArgs args = true) (fuel : Nat) (rest : Str) :
    lexAux (fuel + (toksArgs args).length + 1) (renderArgs args ++ ')' :: rest) =
      (lexAux fuel rest).map (toksArgs args ++ .op [')'] :: ·) := by
  cases args with
  | nil =>
    have := lex_close fuel rest
    simpa [toksArgs, renderArgs] using this
  | cons a l =>
    simp only [wfTArgs, Bool.and_eq_true] at h
    simp only [wfLArgs, Bool.and_eq_true] at hl
    have ih := lex_main a h.1 hl.1 (fuel + (toksMore l).length + 1) (renderMore l ++ ')' :: rest) (renderMore_safe l rest _)
    have im := lex_more l h.2 hl.2 fuel rest
    have e1 : renderArgs (a :: l) ++ ')' :: rest = renderE a ++ (renderMore l ++ ')' :: rest) := by simp [renderArgs_cons]
    have e2 : fuel + (toksArgs (a :: l)).length + 1 = (fuel + (toksMore l).length + 1) + (toksE a).length := by
      simp [toksArgs]; omega
    rw [e1, e2, ih, im]
    cases lexAux fuel rest <;> simp [toksArgs]
theorem lex_more (l : List CExpr) (h : wfTArgs l = true) (hl : wfLArgs l = true) (fuel : Nat) (rest : Str) :
    lexAux (fuel + (toksMore l).length + 1) (renderMore l ++ ')' :: rest) =
      (lexAux fuel rest).map (toksMore l ++ .op [')'] :: ·) := by
  cases l with
  | nil =>
    have := lex_close fuel rest
    simpa [toksMore, renderMore] using this
  | cons b r =>
    simp only [wfTArgs, Bool.and_eq_true] at h
    simp only [wfLArgs, Bool.and_eq_true] at hl
    have ih := lex_main b h.1 hl.1 (fuel + (toksMore r).length + 1) (renderMore r ++ ')' :: rest) (renderMore_safe r rest _)
    have im := lex_more r h.2 hl.2 fuel rest
    have hcomma := lex_step_op1 (fuel + (toksMore r).length + 1 + (toksE b).length) ',' (' ' :: (renderE b ++ (renderMore r ++ ')' :: rest)))
      (by simp [op1Char]) (fun hh => absurd hh (by decide))
      (fun d _ _ => no_op2_of_first ',' d ⟨by decide, by decide, by decide, by decide, by decide, by decide, by decide⟩)
    obtain ⟨kb, hkb⟩ : ∃ kb, fuel + (toksMore r).length + 1 + (toksE b).length = kb + 1 := ⟨fuel + (toksMore r).length + (toksE b).length, by omega⟩
    have hws := lexAux_ws kb ' ' (renderE b ++ (renderMore r ++ ')' :: rest)) (by decide)
    have e1 : renderMore (b :: r) ++ ')' :: rest = ',' :: ' ' :: (renderE b ++ (renderMore r ++ ')' :: rest)) := by simp [renderMore]
    have e2 : fuel + (toksMore (b :: r)).length + 1 = (fuel + (toksMore r).length + 1 + (toksE b).length) + 1 := by
      simp [toksMore]; omega
    rw [e1, e2, hcomma, hkb, hws, ← hkb, ih, im]
    cases lexAux fuel rest <;> simp [toksMore]
end

theorem idTokOk_len (n : Str) (h : idTokOk n = true) : 1 ≤ n.length := by
  obtain ⟨c, w, rfl, _, _⟩ := idTokOk_spec n h
  simp

theorem numTokOk_len (n : Str) (h : numTokOk n = true) : 1 ≤ n.length := by
  obtain ⟨c, w, rfl, _, _⟩ := numTokOk_spec n h
  simp

mutual
theorem len_main (e : CExpr) (h : wfT e = true) (hl : wfL e = true) : (toksE e).length ≤ (renderE e).length := by
  cases e with
  | var n => simp only [wfL] at hl; have := idTokOk_len _ hl; simpa [toksE, renderE] using this
  | int v => simp only [wfL] at hl; have := numTokOk_len _ hl; simpa only [toksE, renderE, List.length_singleton] using this
  | dbl t m ex => simp only [wfL] at hl; have := numTokOk_len _ hl; simpa only [toksE, renderE, List.length_singleton] using this
  | bool b => cases b <;> simp [toksE, renderE]
  | str s => simp [toksE, renderE]
  | un op a =>
    simp only [wfT, Bool.and_eq_true, Bool.or_eq_true, beq_iff_eq] at h
    simp only [wfL] at hl
    have := len_main a h.2 hl
    have h3 : op.toList.length = 1 := by rcases h.1 with (rfl | rfl) | rfl <;> decide
    simp [toksE, renderE]; omega
  | bin op a b =>
    simp only [wfT, Bool.and_eq_true] at h
    simp only [wfL, Bool.and_eq_true] at hl
    have h1 := len_main a h.1.2 hl.1
    have h2 := len_main b h.2 hl.2
    obtain ⟨L, hL⟩ := binOpOk_spec _ h.1.1
    have h3 : 1 ≤ op.toList.length := by
      cases ho : op.toList with
      | nil => rw [ho] at hL; rcases L with _ | _ | _ | _ | _ | _ | L <;> simp [opsAt] at hL
      | cons c r => simp
    simp [toksE, renderE]; omega
  | deref a =>
    simp only [wfT] at h
    simp only [wfL] at hl
    have := len_main a h hl
    simp [toksE, renderE]; omega
  | mem o ar n args =>
    simp only [wfT, Bool.and_eq_true] at h
    simp only [wfL, Bool.and_eq_true] at hl
    have h1 := len_main o h.1.2 hl.1.1.2
    have h2 := len_args args h.2 hl.2
    have h3 := idTokOk_len _ hl.1.2
    cases ar <;> simp [toksE, renderE] <;> omega
  | call fn args =>
    simp only [wfT, Bool.and_eq_true] at h
    simp only [wfL, Bool.and_eq_true] at hl
    have h2 := len_args args h.2 hl.2
    have h3 := idTokOk_len _ hl.1
    simp [toksE, renderE]; omega
  | cast t a =>
    simp only [wfT, Bool.and_eq_true] at h
    simp only [wfL, Bool.and_eq_true] at hl
    have h1 := len_main a h.2 hl.2
    have h3 := idTokOk_len _ hl.1
    simp [toksE, renderE]; omega
  | «opaque» t => simp [wfT] at h
theorem len_args (args : List CExpr) (h : wfTArgs args = true) (hl : wfLArgs args = true) :
    (toksArgs args).length ≤ (renderArgs args).length := by
  cases args with
  | nil => simp [toksArgs, renderArgs]
  | cons a l =>
    simp only [wfTArgs, Bool.and_eq_true] at h
    simp only [wfLArgs, Bool.and_eq_true] at hl
    have h1 := len_main a h.1 hl.1
    have h2 := len_more l h.2 hl.2
    rw [renderArgs_cons]
    simp [toksArgs]; omega
theorem len_more (l : List CExpr) (h : wfTArgs l = true) (hl : wfLArgs l = true) :
    (toksMore l).length ≤ (renderMore l).length := by
  cases l with
  | nil => simp [toksMore, renderMore]
  | cons b r =>
    simp only [wfTArgs, Bool.and_eq_true] at h
    simp only [wfLArgs, Bool.and_eq_true] at hl
    have h1 := len_main b h.1 hl.1
    have h2 := len_more r h.2 hl.2
    simp [toksMore, renderMore]; omega
end

theorem safeAfter_nil (num : Bool) : safeAfter num [] := fun d r e => by cases e

/-- the tokenizer on a whole printed expression -/
theorem tokenize_renderE (e : CExpr) (h : wfT e = true) (hl : wfL e = true) : tokenize (renderE e) = some (toksE e) := by
  have hlen := len_main e h hl
  obtain ⟨k, hk⟩ : ∃ k, (renderE e).length + 1 = (k + 1) + (toksE e).length := ⟨(renderE e).length - (toksE e).length, by omega⟩
  have := lex_main e h hl (k + 1) [] (safeAfter_nil _)
  simp only [List.append_nil, lexAux_nil, Option.map_some] at this
  unfold tokenize
  rw [hk, this]


/-- the first character of a printed expression is not a blank -/
theorem renderE_first_nonws (e : CExpr) (h : wfT e = true) (hl : wfL e = true) :
    ∃ d, (renderE e).head? = some d ∧ isWs d = false := by
  induction e using CExpr.rec (motive_2 := fun _ => True) with
  | var n =>
    obtain ⟨c, w, hn, hc, _⟩ := idTokOk_spec _ (by simpa [wfL] using hl)
    exact ⟨c, by simp [renderE, hn], isWs_of_isWord c (isWord_of_isIdStart c hc)⟩
  | int v =>
    simp only [wfL] at hl
    obtain ⟨c, w, hn, _, hc⟩ := numTokOk_spec _ hl
    refine ⟨c, by simp only [renderE, hn, List.head?_cons], ?_⟩
    rcases hc with hc | hc
    · exact isWs_of_isDigit c hc
    · subst hc; decide
  | dbl t m ex =>
    simp only [wfL] at hl
    obtain ⟨c, w, hn, _, hc⟩ := numTokOk_spec _ hl
    refine ⟨c, by simp only [renderE, hn, List.head?_cons], ?_⟩
    rcases hc with hc | hc
    · exact isWs_of_isDigit c hc
    · subst hc; decide
  | bool b =>
    cases b
    · exact ⟨'f', by simp [renderE], by decide⟩
    · exact ⟨'t', by simp [renderE], by decide⟩
  | str s => exact ⟨'"', by simp [renderE], by decide⟩
  | un op a _ => exact ⟨'(', by simp [renderE], by decide⟩
  | bin op a b _ _ => exact ⟨'(', by simp [renderE], by decide⟩
  | deref a _ => exact ⟨'*', by simp [renderE], by decide⟩
  | mem o ar n args ih _ =>
    simp only [wfT, Bool.and_eq_true] at h
    simp only [wfL, Bool.and_eq_true] at hl
    obtain ⟨d, hr, hd⟩ := ih h.1.2 hl.1.1.2
    refine ⟨d, ?_, hd⟩
    cases hro : renderE o with
    | nil => simp [hro] at hr
    | cons x y => simpa [renderE, hro] using hr
  | call f args _ =>
    simp only [wfL, Bool.and_eq_true] at hl
    obtain ⟨c, w, hn, hc, _⟩ := idTokOk_spec _ hl.1
    exact ⟨c, by simp [renderE, hn], isWs_of_isWord c (isWord_of_isIdStart c hc)⟩
  | cast t a _ => exact ⟨'s', by simp [renderE], by decide⟩
  | «opaque» t => simp [wfT] at h
  | nil => trivial
  | cons a as _ _ => trivial

/-- character level: the printed text of a well-formed expression reads back as the expression -/
theorem parseExpr_renderE (e : CExpr) (h : wfT e = true) (hl : wfL e = true) : parseExpr (renderE e) = e := by
  simp [parseExpr, tokenize_renderE e h hl, parseToks_toksE e h]

theorem exprOk_of_exprWf (e : CExpr) (h : exprWf e = true) : exprOk e = true := by
  simp only [exprWf, Bool.and_eq_true] at h
  obtain ⟨d, hd, hws⟩ := renderE_first_nonws e h.1 h.2
  simp only [exprOk, parseExpr_renderE e h.1 h.2, beqE_refl, Bool.true_and]
  cases hr : renderE e with
  | nil => simp [hr] at hd
  | cons c r =>
    have : c = d := by simpa [hr] using hd
    simp [this, hws]

theorem leafOk_of_leafWf (s : Stmt) (h : leafWf s = true) : leafOk s = true := by
  cases s with
  | decl ty n i =>
    cases i with
    | none => simpa [leafWf, leafOk] using h
    | some e =>
      simp only [leafWf, Bool.and_eq_true] at h
      simp [leafOk, h.1.1, h.1.2, exprOk_of_exprWf e h.2]
  | set x e =>
    simp only [leafWf, Bool.and_eq_true] at h
    simp [leafOk, h.1, exprOk_of_exprWf e h.2]
  | push x e =>
    simp only [leafWf, Bool.and_eq_true] at h
    simp [leafOk, h.1, exprOk_of_exprWf e h.2]
  | retrieve how ty v bank tok =>
    simp only [leafWf, Bool.and_eq_true, Bool.or_eq_true] at h
    obtain ⟨hv, h⟩ := h
    simp only [leafOk, Bool.and_eq_true, Bool.or_eq_true]
    refine ⟨hv, ?_⟩
    rcases h with (⟨h1, hb⟩ | ⟨h1, hb⟩) | h
    · exact Or.inl (Or.inl ⟨h1, exprOk_of_exprWf _ hb⟩)
    · exact Or.inl (Or.inr ⟨h1, exprOk_of_exprWf _ hb⟩)
    · exact Or.inr h
  | block b => simp [leafOk]
  | loop x c b => simp [leafOk]
  | ite c t e => simp [leafOk]
  | clear x => simpa [leafWf, leafOk] using h
  | fill t => simpa [leafWf, leafOk] using h
  | throw m => simpa [leafWf, leafOk] using h
  | line t => simpa [leafWf, leafOk] using h

mutual
theorem StmtOk_of_StmtWf (s : Stmt) (h : StmtWf s = true) : StmtOk s = true := by
  cases s with
  | block b => simp only [StmtWf] at h; simp only [StmtOk]; exact ListOk_of_ListWf b h
  | loop x c b =>
    simp only [StmtWf, Bool.and_eq_true] at h
    simp [StmtOk, h.1.1, exprOk_of_exprWf c h.1.2, ListOk_of_ListWf b h.2]
  | ite c t e =>
    simp only [StmtWf, Bool.and_eq_true] at h
    simp [StmtOk, exprOk_of_exprWf c h.1.1, ListOk_of_ListWf t h.1.2, ListOk_of_ListWf e h.2]
  | decl ty n i => simp only [StmtWf] at h; simp only [StmtOk]; exact leafOk_of_leafWf _ h
  | set x e => simp only [StmtWf] at h; simp only [StmtOk]; exact leafOk_of_leafWf _ h
  | push x e => simp only [StmtWf] at h; simp only [StmtOk]; exact leafOk_of_leafWf _ h
  | clear x => simp only [StmtWf] at h; simp only [StmtOk]; exact leafOk_of_leafWf _ h
  | fill t => simp only [StmtWf] at h; simp only [StmtOk]; exact leafOk_of_leafWf _ h
  | throw m => simp only [StmtWf] at h; simp only [StmtOk]; exact leafOk_of_leafWf _ h
  | retrieve how ty v bank tok => simp only [StmtWf] at h; simp only [StmtOk]; exact leafOk_of_leafWf _ h
  | line t => simp only [StmtWf] at h; simp only [StmtOk]; exact leafOk_of_leafWf _ h
theorem ListOk_of_ListWf (b : List Stmt) (h : ListWf b = true) : ListOk b = true := by
  cases b with
  | nil => rfl
  | cons s r =>
    simp only [ListWf, Bool.and_eq_true] at h
    simp [ListOk, StmtOk_of_StmtWf s h.1, ListOk_of_ListWf r h.2]
end

end FaxVerif.Cpp.Parse
