/-
Cpp.Parse — the parser of the emitted C++ line language IN LEAN (DESIGN §3.1): tokenizer, precedence-climbing
expression parser with the real C++ precedence of the subset the translator emits, statement-line parser and block
structure from `{` / `}` lines.  It accepts the same language as `tools/cparse.py` followed by the decoding of
`Cpp/Json.lean` (unknown lines → `Stmt.line`, unknown expressions → `CExpr.opaque`; `index` / `addr` nodes, which
`CExpr` has no constructor for, become the same `opaque "<index>"` / `opaque "<addr>"` the JSON decoder produces), and
is compared with it on every program of C02's generated stream (`tools/props/c02.py`, stream `parse-tie`).
Also here: a TOTAL printer `renderLines` (the one of `Gen/Render.lean` is `partial`, so no theorem can mention it;
the driver checks on every program that the two print the same text).

Everything works on `List Char`; total functions (structural or with explicit fuel).  No Mathlib.
Character classes are ASCII: Python's `\w` / `\d` also accept non-ASCII letters and digits, which this parser treats as
ordinary characters (a line with such an identifier would show up as a difference in the tie).
-/
import FaxVerif.Cpp.Syntax
namespace FaxVerif.Cpp.Parse
open FaxVerif.Cpp

abbrev Str := List Char

open Lean in
/-- `cl!"abc"` is the list literal `['a','b','c']` (no `String` operation left to reduce in proofs). -/
macro:max "cl!" s:str : term => do
  let cs := s.getString.toList
  let elems ← cs.mapM fun c => `($(Syntax.mkCharLit c))
  `(([$elems.toArray,*] : List Char))

/-! ### character classes -/

/-- Python's `str.isspace` / `\s` -/
def isWs (c : Char) : Bool :=
  let n := c.toNat
  (9 ≤ n && n ≤ 13) || (28 ≤ n && n ≤ 32) || n == 0x85 || n == 0xa0 || n == 0x1680 || (0x2000 ≤ n && n ≤ 0x200a) ||
    n == 0x2028 || n == 0x2029 || n == 0x202f || n == 0x205f || n == 0x3000

def isWord (c : Char) : Bool := c.isAlphanum || c == '_'
def isIdStart (c : Char) : Bool := c.isAlpha || c == '_'

/-- `[A-Za-z_]\w*` -/
def isIdent : Str → Bool
  | [] => false
  | c :: r => isIdStart c && r.all isWord

def lstrip (s : Str) : Str := s.dropWhile isWs
def rstrip (s : Str) : Str := (s.reverse.dropWhile isWs).reverse
def strip (s : Str) : Str := rstrip (lstrip s)

/-- `s = body ++ suf` → `some body` -/
def stripSuffix (suf s : Str) : Option Str :=
  match List.isPrefixOf? suf.reverse s.reverse with
  | some r => some r.reverse
  | none => none

def stripPrefix (pre s : Str) : Option Str := List.isPrefixOf? pre s

/-! ### tokens -/

inductive Tok where
  | num (s : Str)
  | id (s : Str)
  | str (raw : Str)      -- the text between the quotes, escapes not yet resolved
  | op (s : Str)
deriving DecidableEq, Repr, Inhabited

def Tok.val : Tok → Str
  | .num s => s
  | .id s => s
  | .str raw => '"' :: raw ++ ['"']
  | .op s => s

/-- after the opening quote: `(?:[^"\\]|\\.)*"` → (text between the quotes, rest after the closing quote) -/
def scanStr : Str → Option (Str × Str)
  | [] => none
  | '"' :: r => some ([], r)
  | '\\' :: c :: r =>
    if c = '\n' then none else
    match scanStr r with
    | some (b, rest) => some ('\\' :: c :: b, rest)
    | none => none
  | c :: r =>
    if c = '\\' then none else
    match scanStr r with
    | some (b, rest) => some (c :: b, rest)
    | none => none

/-- `[+-]?` -/
def signSplit (s : Str) : Str × Str :=
  match s with
  | c :: r => if c = '+' ∨ c = '-' then ([c], r) else ([], s)
  | [] => ([], [])

/-- `(?:[eE][+-]?\d+)?` -/
def lexExp (rest : Str) : Str × Str :=
  match rest with
  | [] => ([], [])
  | e :: r4 =>
    if e = 'e' ∨ e = 'E' then
      let sg := signSplit r4
      let ds := sg.2.takeWhile Char.isDigit
      if ds = [] then ([], rest) else (e :: sg.1 ++ ds, sg.2.dropWhile Char.isDigit)
    else ([], rest)

/-- `(?:\d+\.\d*|\.\d+|\d+)(?:[eE][+-]?\d+)?` at the head of a non-empty text -/
def lexNum (c : Char) (r : Str) : Option (Str × Str) :=
  if c.isDigit then
    let ds := (c :: r).takeWhile Char.isDigit
    let r1 := (c :: r).dropWhile Char.isDigit
    if r1.head? = some '.' then
      let fs := r1.tail.takeWhile Char.isDigit
      let ex := lexExp (r1.tail.dropWhile Char.isDigit)
      some (ds ++ '.' :: fs ++ ex.1, ex.2)
    else
      let ex := lexExp r1
      some (ds ++ ex.1, ex.2)
  else if c = '.' then
    let fs := r.takeWhile Char.isDigit
    if fs = [] then none else
      let ex := lexExp (r.dropWhile Char.isDigit)
      some ('.' :: fs ++ ex.1, ex.2)
  else none

/-- `::[A-Za-z_]\w*` at the head: (the segment, the rest) -/
def idSeg (s : Str) : Option (Str × Str) :=
  match s with
  | a :: b :: c :: r =>
    if a = ':' ∧ b = ':' ∧ isIdStart c = true then some (':' :: ':' :: c :: r.takeWhile isWord, r.dropWhile isWord) else none
  | _ => none

/-- `(?:::[A-Za-z_][A-Za-z_0-9]*)*`; the fuel is the length of the text -/
def lexIdTail : Nat → Str → Str × Str
  | 0, s => ([], s)
  | n + 1, s =>
    match idSeg s with
    | some (seg, rest) => (seg ++ (lexIdTail n rest).1, (lexIdTail n rest).2)
    | none => ([], s)

def ops2 : List Str := [cl!"->", cl!"<=", cl!">=", cl!"==", cl!"!=", cl!"&&", cl!"||"]
def ops1 : Str := cl!"-+*/%<>!&().,[]=:?"

/-- one token at the head of a text that starts with a non-blank character -/
def lexOne (c : Char) (r : Str) : Option (Tok × Str) :=
  match lexNum c r with
  | some (t, rest) => some (.num t, rest)
  | none =>
    if isIdStart c then
      let w := r.takeWhile isWord
      let t := lexIdTail r.length (r.dropWhile isWord)
      some (.id (c :: w ++ t.1), t.2)
    else if c = '"' then
      match scanStr r with
      | some (b, rest) => some (.str b, rest)
      | none => none
    else
      match r with
      | d :: r' => if ops2.contains [c, d] then some (.op [c, d], r') else if ops1.contains c then some (.op [c], r) else none
      | [] => if ops1.contains c then some (.op [c], r) else none

def lexAux : Nat → Str → Option (List Tok)
  | 0, _ => none
  | n + 1, s =>
    match s.dropWhile isWs with
    | [] => some []
    | c :: r =>
      match lexOne c r with
      | none => none
      | some (t, rest) =>
        match lexAux n rest with
        | some ts => some (t :: ts)
        | none => none

/-- `tokenize` of cparse.py (`none` = ParseError) -/
def tokenize (s : Str) : Option (List Tok) := lexAux (s.length + 1) s

/-! ### literals -/

def escChar (c : Char) : Char :=
  if c = 'n' then '\n' else if c = 't' then '\t' else if c = 'r' then '\r' else if c = '0' then Char.ofNat 0 else c

/-- `unescape_c` on the text between the quotes -/
def unescape : Str → Str
  | [] => []
  | '\\' :: c :: r => escChar c :: unescape r
  | c :: r => c :: unescape r

def digitsToNat (s : Str) : Nat := s.foldl (fun a c => a * 10 + (c.toNat - 48)) 0

/-- mantissa part of `parseDec` (Cpp/Json.lean): (mantissa, scale, saw a digit, rest) -/
def decMant : Str → Nat → Int → Bool → Bool → Nat × Int × Bool × Str
  | [], m, sc, _, any => (m, sc, any, [])
  | c :: r, m, sc, dot, any =>
    if c.isDigit then decMant r (m * 10 + (c.toNat - 48)) (if dot then sc - 1 else sc) dot true
    else if c = '.' && !dot then decMant r m sc true any
    else (m, sc, any, c :: r)

/-- `String.toInt?` on the exponent digits as `parseDec` uses it: optional `-`, then digits (a `+` is refused) -/
def expToInt (s : Str) : Option Int :=
  match s with
  | '-' :: r => if r ≠ [] ∧ r.all Char.isDigit then some (-(digitsToNat r : Int)) else none
  | r => if r ≠ [] ∧ r.all Char.isDigit then some (digitsToNat r : Int) else none

/-- decimal literal text → (mantissa, exponent), the same function as `parseDec` of Cpp/Json.lean on the texts the
    tokenizer produces (compared on every literal of the tie stream) -/
def decOfText (s : Str) : Option (Int × Int) :=
  let r := decMant s 0 0 false false
  if !r.2.2.1 then none else
  match r.2.2.2 with
  | [] => some ((r.1 : Int), r.2.1)
  | c :: rest =>
    if c = 'e' ∨ c = 'E' then
      match expToInt rest with
      | some v => some ((r.1 : Int), r.2.1 + v)
      | none => none
    else none

def numLit (s : Str) : CExpr :=
  if s.all Char.isDigit then .int (digitsToNat s : Nat)
  else match decOfText s with
    | some (m, e) => .dbl (String.ofList s) m e
    | none => .opaque (String.ofList s)

/-! ### expressions -/

def opsAt : Nat → List Str
  | 0 => [cl!"||"]
  | 1 => [cl!"&&"]
  | 2 => [cl!"==", cl!"!="]
  | 3 => [cl!"<", cl!"<=", cl!">", cl!">="]
  | 4 => [cl!"+", cl!"-"]
  | 5 => [cl!"*", cl!"/", cl!"%"]
  | _ => []

/-- leftmost non-overlapping replacement (Python's `str.replace`) -/
def replaceGo (pat rep : Str) : Nat → Str → Str
  | _, [] => []
  | skip + 1, _ :: r => replaceGo pat rep skip r
  | 0, c :: r => if pat.isPrefixOf (c :: r) then rep ++ replaceGo pat rep (pat.length - 1) r else c :: replaceGo pat rep 0 r

def replaceAll (pat rep s : Str) : Str := replaceGo pat rep 0 s

/-- `p_type_in_angles` after the opening `<` (depth 1): the token texts up to the matching `>` -/
def angle : Nat → List Tok → Option (List Str × List Tok)
  | _, [] => none
  | d, t :: ts =>
    if t = .op ['<'] then
      match angle (d + 1) ts with
      | some (vs, rest) => some (t.val :: vs, rest)
      | none => none
    else if t = .op ['>'] then
      if d ≤ 1 then some ([], ts) else
      match angle (d - 1) ts with
      | some (vs, rest) => some (t.val :: vs, rest)
      | none => none
    else
      match angle d ts with
      | some (vs, rest) => some (t.val :: vs, rest)
      | none => none

def castType (vs : List Str) : Str :=
  replaceAll cl!" *" cl!"*" (replaceAll cl!" :: " cl!"::" (cl!" ".intercalate vs))

mutual
/-- `binlevel`: level 0 `||`, 1 `&&`, 2 `== !=`, 3 `< <= > >=`, 4 `+ -`, 5 `* / %`, ≥ 6 unary -/
def pLevel : Nat → Nat → List Tok → Option (CExpr × List Tok)
  | 0, _, _ => none
  | f + 1, lvl, ts =>
    if lvl ≥ 6 then pUnary f ts else
    match pLevel f (lvl + 1) ts with
    | none => none
    | some (a, rest) => pLoop f lvl a rest
def pLoop : Nat → Nat → CExpr → List Tok → Option (CExpr × List Tok)
  | 0, _, _, _ => none
  | f + 1, lvl, a, ts =>
    match ts with
    | .op o :: rest =>
      if (opsAt lvl).contains o then
        match pLevel f (lvl + 1) rest with
        | none => none
        | some (b, rest') => pLoop f lvl (.bin (String.ofList o) a b) rest'
      else some (a, ts)
    | _ => some (a, ts)
def pUnary : Nat → List Tok → Option (CExpr × List Tok)
  | 0, _ => none
  | f + 1, ts =>
    match ts with
    | .op o :: rest =>
      if o = ['-'] ∨ o = ['+'] ∨ o = ['!'] then
        match pUnary f rest with
        | some (a, r) => some (.un (String.ofList o) a, r)
        | none => none
      else if o = ['*'] then
        match pUnary f rest with
        | some (a, r) => some (.deref a, r)
        | none => none
      else if o = ['&'] then
        match pUnary f rest with
        | some (_, r) => some (.opaque "<addr>", r)
        | none => none
      else
        match pPrimary f ts with
        | some (a, r) => pPostfix f a r
        | none => none
    | _ =>
      match pPrimary f ts with
      | some (a, r) => pPostfix f a r
      | none => none
def pPostfix : Nat → CExpr → List Tok → Option (CExpr × List Tok)
  | 0, _, _ => none
  | f + 1, a, ts =>
    match ts with
    | .op o :: rest =>
      if o = ['.'] ∨ o = cl!"->" then
        match rest with
        | .id name :: rest1 =>
          match rest1 with
          | .op p :: rest2 =>
            if p = ['('] then
              match pArgs f rest2 with
              | some (args, r) => pPostfix f (.mem a (o = cl!"->") (String.ofList name) args) r
              | none => none
            else pPostfix f (.mem a (o = cl!"->") (String.ofList name) []) rest1
          | _ => pPostfix f (.mem a (o = cl!"->") (String.ofList name) []) rest1
        | _ => none
      else if o = ['['] then
        match pLevel f 0 rest with
        | some (_, r) =>
          match r with
          | .op q :: r' => if q = [']'] then pPostfix f (.opaque "<index>") r' else none
          | _ => none
        | none => none
      else some (a, ts)
    | _ => some (a, ts)
def pPrimary : Nat → List Tok → Option (CExpr × List Tok)
  | 0, _ => none
  | f + 1, ts =>
    match ts with
    | .num s :: rest => some (numLit s, rest)
    | .str raw :: rest => some (.str (String.ofList (unescape raw)), rest)
    | .id v :: rest =>
      if v = cl!"true" then some (.bool true, rest)
      else if v = cl!"false" then some (.bool false, rest)
      else if v = cl!"static_cast" then
        match rest with
        | .op lt :: rest1 =>
          if lt = ['<'] then
            match angle 1 rest1 with
            | some (vs, rest2) =>
              match rest2 with
              | .op p :: rest3 =>
                if p = ['('] then
                  match pLevel f 0 rest3 with
                  | some (e, r) =>
                    match r with
                    | .op q :: r' => if q = [')'] then some (.cast (String.ofList (castType vs)) e, r') else none
                    | _ => none
                  | none => none
                else none
              | _ => none
            | none => none
          else none
        | _ => none
      else
        match rest with
        | .op p :: rest1 =>
          if p = ['('] then
            match pArgs f rest1 with
            | some (args, r) => some (.call (String.ofList v) args, r)
            | none => none
          else some (.var (String.ofList v), rest)
        | _ => some (.var (String.ofList v), rest)
    | .op o :: rest =>
      if o = ['('] then
        match pLevel f 0 rest with
        | some (e, r) =>
          match r with
          | .op q :: r' => if q = [')'] then some (e, r') else none
          | _ => none
        | none => none
      else none
    | [] => none
/-- `args` after the opening parenthesis -/
def pArgs : Nat → List Tok → Option (List CExpr × List Tok)
  | 0, _ => none
  | f + 1, ts =>
    match ts with
    | .op o :: rest =>
      if o = [')'] then some ([], rest) else
      match pLevel f 0 ts with
      | some (a, r) =>
        match pArgsMore f r with
        | some (as, r') => some (a :: as, r')
        | none => none
      | none => none
    | _ =>
      match pLevel f 0 ts with
      | some (a, r) =>
        match pArgsMore f r with
        | some (as, r') => some (a :: as, r')
        | none => none
      | none => none
def pArgsMore : Nat → List Tok → Option (List CExpr × List Tok)
  | 0, _ => none
  | f + 1, ts =>
    match ts with
    | .op o :: rest =>
      if o = [','] then
        match pLevel f 0 rest with
        | some (a, r) =>
          match pArgsMore f r with
          | some (as, r') => some (a :: as, r')
          | none => none
        | none => none
      else if o = [')'] then some ([], rest)
      else none
    | _ => none
end

/-- enough for every call chain on `n` tokens: at most 11 calls without consuming a token -/
def exprFuel (n : Nat) : Nat := 12 * n + 24

/-- a whole token list as one expression -/
def parseToks (ts : List Tok) : Option CExpr :=
  match pLevel (exprFuel ts.length) 0 ts with
  | some (e, []) => some e
  | _ => none

/-- `parse_expr` of cparse.py followed by `decExpr`: never fails, an unparsable text is `opaque` -/
def parseExpr (s : Str) : CExpr :=
  match tokenize s with
  | some ts =>
    match parseToks ts with
    | some e => e
    | none => .opaque (String.ofList s)
  | none => .opaque (String.ofList s)

/-! ### statement lines -/

def endsWith (s : Str) (c : Char) : Bool := s.getLast? == some c

/-- `TYPE_RE` tail after the optional `<…>`: `(?:::[A-Za-z_]\w*)*(?:\s*\*+)?$`; fuel = length -/
def typeTail : Nat → Str → Bool
  | 0, _ => false
  | n + 1, s =>
    match s with
    | ':' :: ':' :: c :: r => isIdStart c && typeTail n (r.dropWhile isWord)
    | _ =>
      match s.dropWhile isWs with
      | [] => s == []
      | c :: r => c == '*' && r.all (· == '*')

/-- `[A-Za-z_][\w:]*(?:<[^;=()]*>)?(?:::[A-Za-z_]\w*)*(?:\s*\*+)?` on a text without `;` `=` `(` `)` -/
def typeCore (s : Str) : Bool :=
  match s with
  | [] => false
  | c :: r =>
    isIdStart c &&
    (let rest := r.dropWhile (fun c => isWord c || c == ':')
     match rest with
     | '<' :: r2 =>
       -- the closing `>` is the last one of the text
       let rev := r2.reverse
       let afterRev := rev.takeWhile (· != '>')
       (afterRev.length < rev.length) && typeTail (afterRev.length + 1) afterRev.reverse
     | _ => typeTail (rest.length + 1) rest)

/-- full match of `TYPE_RE` on a text without `;` `=` `(` `)` -/
def typeRe (s : Str) : Bool :=
  typeCore s ||
  (match stripPrefix cl!"const" s with
   | some r => (match r with | c :: _ => isWs c | [] => false) && typeCore (r.dropWhile isWs)
   | none => false)

/-- `re.sub(r"\s+", " ", t)`: the flag says that the previous character was blank -/
def collapseGo : Bool → Str → Str
  | _, [] => []
  | inWs, c :: r =>
    if isWs c then (if inWs then collapseGo true r else ' ' :: collapseGo true r)
    else c :: collapseGo false r

def collapseWs (s : Str) : Str := collapseGo false s

def normType (t : Str) : Str := replaceAll cl!" *" cl!"*" (collapseWs (strip t))

def keywords : List Str := [cl!"return", cl!"throw", cl!"if", cl!"for", cl!"else", cl!"while", cl!"delete", cl!"new"]

/-- `TYPE\s+NAME\s*` on the text before the initialiser: (type text as matched, name) -/
def declHead (head : Str) : Option (Str × Str) :=
  let h := head.reverse.dropWhile isWs
  let nameRev := h.takeWhile isWord
  let restRev := h.dropWhile isWord
  let name := nameRev.reverse
  match restRev with
  | [] => none
  | w :: _ =>
    if !isWs w || !isIdent name then none else
    let ty := (restRev.dropWhile isWs).reverse
    if head.any (fun c => c == ';' || c == ')') then none
    else if !typeRe ty then none
    else if keywords.contains (ty.takeWhile (fun c => !isWs c)) then none
    else some (ty, name)

/-- `DECL_RE` on a line: (type text as matched, name, initialiser text) -/
def declParts (l : Str) : Option (Str × Str × Option Str) :=
  match stripSuffix [';'] l with
  | none => none
  | some body =>
    let head := body.takeWhile (fun c => c != '(' && c != '=')
    let tail := body.dropWhile (fun c => c != '(' && c != '=')
    let init? : Option (Option Str) :=
      match tail with
      | [] => some none
      | c :: t =>
        if c = '(' then (match stripSuffix [')'] t with | some i => some (some i) | none => none)
        else some (some (lstrip t))
    match init? with
    | none => none
    | some init =>
      match declHead head with
      | some (ty, name) => some (ty, name, init)
      | none => none

/-- `CLASS_DECL_RE` (class-level declarations): `TYPE NAME;` -/
def classDecl (raw : Str) : Option (Str × Str) :=
  match declParts (strip raw) with
  | some (ty, n, none) => some (normType ty, n)
  | _ => none

/-- the statement patterns that start with a fixed word: throw / tree(..)->Fill / myTree->Fill / the three retrieves -/
def specialLine (l : Str) : Option Stmt :=
  let w := l.takeWhile isWord
  if w = cl!"throw" then
    match stripPrefix cl!"throw std::runtime_error(" l with
    | some r =>
      match stripSuffix cl!");" r with
      | some m =>
        match m with
        | '"' :: m1 =>
          match stripSuffix ['"'] m1 with
          | some body => some (.throw (String.ofList (unescape body)))
          | none => none
        | _ => none
      | none => none
    | none => none
  else if w = cl!"tree" then
    match stripPrefix cl!"tree(\"" l with
    | some r =>
      match scanStr r with
      | some (body, rest) => if rest = cl!")->Fill();" then some (.fill (String.ofList (unescape body))) else none
      | none => none
    | none => none
  else if w = cl!"myTree" then
    if l = cl!"myTree->Fill();" then some (.fill "") else none
  else if w = cl!"ANA_CHECK" then
    match stripPrefix cl!"ANA_CHECK (evtStore()->retrieve(" l with
    | some r =>
      let v := r.takeWhile isWord
      match stripPrefix cl!", " (r.dropWhile isWord) with
      | some r2 =>
        match stripSuffix cl!"));" r2 with
        | some b => if v = [] then none else some (.retrieve "atlas" "" (String.ofList v) (parseExpr b) "")
        | none => none
      | none => none
    | none => none
  else if w = cl!"iEvent" then
    match stripPrefix cl!"iEvent.getByLabel(" l with
    | some r =>
      match stripSuffix cl!");" r with
      | some t =>
        let vRev := t.reverse.takeWhile isWord
        match t.reverse.dropWhile isWord with
        | ' ' :: ',' :: bRev => if vRev = [] then none else some (.retrieve "label" "" (String.ofList vRev.reverse) (parseExpr bRev.reverse) "")
        | _ => none
      | none => none
    | none =>
      match stripPrefix cl!"iEvent.getByToken(" l with
      | some r =>
        let tok := r.takeWhile isWord
        match stripPrefix cl!", " (r.dropWhile isWord) with
        | some r2 =>
          let v := r2.takeWhile isWord
          if r2.dropWhile isWord = cl!");" ∧ tok ≠ [] ∧ v ≠ [] then
            some (.retrieve "token" "" (String.ofList v) (.opaque "") (String.ofList tok))
          else none
        | none => none
      | none => none
  else none

/-- `x.push_back(e);` / `x.clear();` -/
def identLine (l : Str) : Option Stmt :=
  let x := l.takeWhile isWord
  let rest := l.dropWhile isWord
  if !isIdent x then none else
  match stripPrefix cl!".push_back(" rest with
  | some r =>
    match stripSuffix cl!");" r with
    | some e => some (.push (String.ofList x) (parseExpr e))
    | none => if rest = cl!".clear();" then some (.clear (String.ofList x)) else none
  | none => if rest = cl!".clear();" then some (.clear (String.ofList x)) else none

def declLine (l : Str) : Option Stmt :=
  match declParts l with
  | some (ty, n, init) => some (.decl (String.ofList (normType ty)) (String.ofList n) (init.map parseExpr))
  | none => none

/-- `x = e;` -/
def assignLine (l : Str) : Option Stmt :=
  let x := l.takeWhile isWord
  if !isIdent x then none else
  match lstrip (l.dropWhile isWord) with
  | '=' :: r =>
    match stripSuffix [';'] (lstrip r) with
    | some e => some (.set (String.ofList x) (parseExpr e))
    | none => none
  | _ => none

/-- `parse_line` of cparse.py -/
def parseLine (l : Str) : Stmt :=
  match specialLine l with
  | some s => s
  | none =>
    match identLine l with
    | some s => s
    | none =>
      match declLine l with
      | some s => s
      | none =>
        match assignLine l with
        | some s => s
        | none => .line (String.ofList l)

/-- `for (auto &&x : c)` -/
def forHead (l : Str) : Option (Str × Str) :=
  if !endsWith l ')' then none else
  match stripPrefix cl!"for (auto &&" l with
  | some r =>
    let x := r.takeWhile isWord
    match stripPrefix cl!" : " (r.dropWhile isWord) with
    | some r2 => if isIdent x then some (x, r2.dropLast) else none
    | none => none
  | none => none

/-- `if (c)` -/
def ifHead (l : Str) : Option Str :=
  if !endsWith l ')' then none else
  match stripPrefix cl!"if (" l with
  | some r => some r.dropLast
  | none => none

/-! ### blocks -/

/-- `parse_block` after the opening `{`: the statements up to the matching `}` and the lines after it -/
def parseItems : Nat → List Str → Option (List Stmt × List Str)
  | 0, _ => none
  | _ + 1, [] => none
  | n + 1, l :: rest =>
    if l = ['}'] then some ([], rest)
    else if l = ['{'] then
      match parseItems n rest with
      | none => none
      | some (b, rest1) =>
        match parseItems n rest1 with
        | none => none
        | some (more, rest2) => some (.block b :: more, rest2)
    else
      match forHead l with
      | some (x, c) =>
        match rest with
        | l2 :: rest0 =>
          if l2 = ['{'] then
            match parseItems n rest0 with
            | none => none
            | some (b, rest1) =>
              match parseItems n rest1 with
              | none => none
              | some (more, rest2) => some (.loop (String.ofList x) (parseExpr c) b :: more, rest2)
          else none
        | [] => none
      | none =>
        match ifHead l with
        | some c =>
          match rest with
          | l2 :: rest0 =>
            if l2 = ['{'] then
              match parseItems n rest0 with
              | none => none
              | some (t, rest1) =>
                match rest1 with
                | l3 :: rest1' =>
                  if l3 = cl!"else" then
                    match rest1' with
                    | l4 :: rest1'' =>
                      if l4 = ['{'] then
                        match parseItems n rest1'' with
                        | none => none
                        | some (e, rest2) =>
                          match parseItems n rest2 with
                          | none => none
                          | some (more, rest3) => some (.ite (parseExpr c) t e :: more, rest3)
                      else none
                    | [] => none
                  else
                    match parseItems n rest1 with
                    | none => none
                    | some (more, rest2) => some (.ite (parseExpr c) t [] :: more, rest2)
                | [] => none
            else none
          | [] => none
        | none =>
          if l = cl!"else" then none else
          match parseItems n rest with
          | none => none
          | some (more, rest1) => some (parseLine l :: more, rest1)

/-- the lines as `parse_body` sees them: stripped, blank ones dropped -/
def cleanLines (raw : List Str) : List Str := (raw.map strip).filter (· ≠ [])

/-- `parse_body` on clean lines: a single top-level block (`none` = ParseError) -/
def parseClean (ls : List Str) : Option Stmt :=
  match ls with
  | [] => some (.block [])
  | l :: rest =>
    if l = ['{'] then
      match parseItems (rest.length + 1) rest with
      | some (b, []) => some (.block b)
      | _ => none
    else none

def parseLinesC (raw : List Str) : Option Stmt := parseClean (cleanLines raw)

/-- DESIGN §3.1: the parser of the emitted text -/
def parseLines (raw : List String) : Option Stmt := parseLinesC (raw.map String.toList)

/-- `parse_body`: a ParseError is the meaningless statement `line "PARSE-ERROR"` -/
def parseBody (raw : List String) : Stmt := (parseLines raw).getD (.line "PARSE-ERROR")

/-! ### requested container type of a retrieve (tools/qgen.py `_attach_retrieve_types`) -/

def rstripStars (s : Str) : Str := (s.reverse.dropWhile (· == '*')).reverse

/-- `norm_container` -/
def normContainer (t : Str) : Str :=
  let t1 := strip t
  let t2 := match stripPrefix cl!"const" t1 with
    | some r => (match r with | c :: _ => if isWs c then r.dropWhile isWs else t1 | [] => t1)
    | none => t1
  let t3 := strip (rstripStars t2)
  let inner (s : Str) : Option Str :=
    match stripPrefix cl!"Handle<" s with
    | some r => (match stripSuffix ['>'] r with | some i => some (strip i) | none => none)
    | none => none
  match inner t3 with
  | some i => i
  | none =>
    match stripPrefix cl!"edm::" t3 with
    | some r => (match inner r with | some i => i | none => t3)
    | none => t3

def lookupTy (sc : List (String × String)) (v : String) : String :=
  match sc with
  | [] => "?"
  | (n, t) :: r => if n = v then t else lookupTy r v

mutual
def attachS (sc : List (String × String)) : Stmt → Stmt
  | .block b => .block (attachL sc b)
  | .loop x c b => .loop x c (attachL sc b)
  | .ite c t e => .ite c (attachL sc t) (attachL sc e)
  | .retrieve how _ v bank tok => .retrieve how (String.ofList (normContainer (lookupTy sc v).toList)) v bank tok
  | s => s
def attachL (sc : List (String × String)) : List Stmt → List Stmt
  | [] => []
  | s :: r =>
    let sc' := match s with
      | .decl t n _ => (n, t) :: sc
      | _ => sc
    attachS sc' s :: attachL sc' r
end

/-- what the checkers and the semantics are given: `parse_body` + the declared type of every retrieve target -/
def parsePackageBody (raw : List String) : Stmt := attachS [] (parseBody raw)

/-! ### booking code (`parse_book` of cparse.py) -/

structure Book where
  trees : List String
  branches : List (String × String)            -- (branch name, variable) in booking order
  tokens : List (String × String × CExpr)      -- (token, container type text, bank expression)
  other : List String                          -- lines of no booking shape
deriving Inhabited

/-- a C string literal (opening quote already consumed) followed by exactly `suffix` -/
def strThen (r suffix : Str) : Option Str :=
  match scanStr r with
  | some (body, rest) => if rest = suffix then some (unescape body) else none
  | none => none

/-- `myTree->Branch("name", &var);` -/
def branchLine (l : Str) : Option (Str × Str) :=
  match stripPrefix cl!"myTree->Branch(\"" l with
  | some r =>
    match scanStr r with
    | some (body, rest) =>
      match stripPrefix cl!", &" rest with
      | some r2 =>
        let v := r2.takeWhile isWord
        if isIdent v ∧ r2.dropWhile isWord = cl!");" then some (unescape body, v) else none
      | none => none
    | none => none
  | none => none

/-- the three spellings of the tree booking -/
def treeLine (l : Str) : Option Str :=
  match stripPrefix cl!"ANA_CHECK (book (TTree (\"" l with
  | some r => strThen r cl!", \"My analysis ntuple\")));"
  | none =>
    match stripPrefix cl!"auto myTree = tree (\"" l with
    | some r => strThen r cl!");"
    | none =>
      match stripPrefix cl!"myTree = fs->make<TTree>(\"" l with
      | some r => strThen r cl!", \"My analysis ntuple\");"
      | none => none

/-- `tok = consumes<T>(edm::InputTag(bank));` -/
def tokenLine (l : Str) : Option (Str × Str × Str) :=
  let tok := l.takeWhile isWord
  if !isIdent tok then none else
  match stripPrefix cl!" = consumes<" (l.dropWhile isWord) with
  | some r =>
    let t := r.takeWhile (· != '>')
    match stripPrefix cl!">(edm::InputTag(" (r.dropWhile (· != '>')) with
    | some r2 =>
      match stripSuffix cl!"));" r2 with
      | some b => some (tok, t, b)
      | none => none
    | none => none
  | none => none

def bookStep (bk : Book) (raw : Str) : Book :=
  let l := strip raw
  if l = ['{'] ∨ l = ['}'] ∨ l = [] ∨ l = cl!"edm::Service<TFileService> fs;" then bk else
  match branchLine l with
  | some (n, v) => { bk with branches := bk.branches ++ [(String.ofList n, String.ofList v)] }
  | none =>
    match treeLine l with
    | some t => { bk with trees := bk.trees ++ [String.ofList t] }
    | none =>
      match tokenLine l with
      | some (tok, t, b) => { bk with tokens := bk.tokens ++ [(String.ofList tok, String.ofList t, parseExpr b)] }
      | none => { bk with other := bk.other ++ [String.ofList l] }

/-- `parse_book`: tree name(s), (branch, variable) pairs in order, token initialisations, leftovers -/
def parseBook (lines : List String) : Book :=
  lines.foldl (fun bk l => bookStep bk l.toList) { trees := [], branches := [], tokens := [], other := [] }

/-! ### the printer, total (same text as `Gen.renderS` / `Gen.renderE`) -/

def intercalateC (sep : Str) : List Str → Str
  | [] => []
  | [a] => a
  | a :: b :: r => a ++ sep ++ intercalateC sep (b :: r)

mutual
def renderE : CExpr → Str
  | .var n => n.toList
  | .int v => (toString v).toList
  | .dbl t _ _ => t.toList
  | .bool b => if b then cl!"true" else cl!"false"
  | .str s => '"' :: s.toList ++ ['"']
  | .un op a => '(' :: op.toList ++ '(' :: renderE a ++ cl!"))"
  | .bin op a b => '(' :: renderE a ++ op.toList ++ renderE b ++ [')']
  | .deref a => '*' :: renderE a
  | .mem o arrow n args => renderE o ++ (if arrow then cl!"->" else cl!".") ++ n.toList ++ '(' :: renderArgs args ++ [')']
  | .call f args => f.toList ++ '(' :: renderArgs args ++ [')']
  | .cast t a => cl!"static_cast<" ++ t.toList ++ cl!">(" ++ renderE a ++ [')']
  | .opaque t => t.toList
/-- `", ".intercalate (args.map renderE)` -/
def renderArgs : List CExpr → Str
  | [] => []
  | [a] => renderE a
  | a :: b :: r => renderE a ++ cl!", " ++ renderArgs (b :: r)
end

def renderLeaf : Stmt → Str
  | .decl ty n none => ty.toList ++ ' ' :: n.toList ++ [';']
  | .decl ty n (some e) => ty.toList ++ ' ' :: n.toList ++ cl!" (" ++ renderE e ++ cl!");"
  | .set x e => x.toList ++ cl!" = " ++ renderE e ++ [';']
  | .push x e => x.toList ++ cl!".push_back(" ++ renderE e ++ cl!");"
  | .clear x => x.toList ++ cl!".clear();"
  | .fill t => if t.isEmpty then cl!"myTree->Fill();" else cl!"tree(\"" ++ t.toList ++ cl!"\")->Fill();"
  | .throw m => cl!"throw std::runtime_error(\"" ++ m.toList ++ cl!"\");"
  | .retrieve how _ v bank tok =>
    if how = "atlas" then cl!"ANA_CHECK (evtStore()->retrieve(" ++ v.toList ++ cl!", " ++ renderE bank ++ cl!"));"
    else if how = "label" then cl!"iEvent.getByLabel(" ++ renderE bank ++ cl!", " ++ v.toList ++ cl!");"
    else cl!"iEvent.getByToken(" ++ tok.toList ++ cl!", " ++ v.toList ++ cl!");"
  | .line t => t.toList
  | _ => []

mutual
def renderS : Stmt → List Str
  | .block body => ['{'] :: renderL body ++ [['}']]
  | .loop x c body => (cl!"for (auto &&" ++ x.toList ++ cl!" : " ++ renderE c ++ [')']) :: ['{'] :: renderL body ++ [['}']]
  | .ite c t e =>
    (cl!"if (" ++ renderE c ++ [')']) :: ['{'] :: renderL t ++ ['}'] ::
      (match e with
       | [] => []
       | s :: r => cl!"else" :: ['{'] :: renderL (s :: r) ++ [['}']])
  | .decl ty n i => [renderLeaf (.decl ty n i)]
  | .set x e => [renderLeaf (.set x e)]
  | .push x e => [renderLeaf (.push x e)]
  | .clear x => [renderLeaf (.clear x)]
  | .fill t => [renderLeaf (.fill t)]
  | .throw m => [renderLeaf (.throw m)]
  | .retrieve how ty v bank tok => [renderLeaf (.retrieve how ty v bank tok)]
  | .line t => [renderLeaf (.line t)]
/-- `body.flatMap renderS` -/
def renderL : List Stmt → List Str
  | [] => []
  | s :: r => renderS s ++ renderL r
end

/-- DESIGN §3.1: the printer of the statement language in the translator's layout (without indentation) -/
def renderLines (s : Stmt) : List String := (renderS s).map String.ofList

end FaxVerif.Cpp.Parse
