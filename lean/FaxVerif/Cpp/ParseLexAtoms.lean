/-
Cpp.ParseLexAtoms — the identifier and numeral tokens of the tokenizer of Cpp/Parse.lean are local: a text that is one
token on its own is the same token in front of any text that cannot extend it.
-/
import FaxVerif.Cpp.ParseLexBase
namespace FaxVerif.Cpp.Parse
open FaxVerif.Cpp

/-- what may follow a numeral: not a digit, not `.`, not `e` / `E` -/
def safeNum (rest : Str) : Prop := ∀ d r, rest = d :: r → d.isDigit = false ∧ d ≠ '.' ∧ d ≠ 'e' ∧ d ≠ 'E'

theorem safeNum_digit {rest : Str} (h : safeNum rest) : headFails Char.isDigit rest := fun d r e => (h d r e).1

theorem signSplit_append (X rest : Str) (hX : X ≠ []) : signSplit (X ++ rest) = ((signSplit X).1, (signSplit X).2 ++ rest) := by
  cases X with
  | nil => exact absurd rfl hX
  | cons c r => by_cases hc : c = '+' ∨ c = '-' <;> simp [signSplit, hc]

theorem lexExp_local (X rest : Str) (hs : safeNum rest) (a : Str) (h : lexExp X = (a, [])) :
    lexExp (X ++ rest) = (a, rest) := by
  have hd := safeNum_digit hs
  cases X with
  | nil =>
    simp only [lexExp] at h
    have : a = [] := by simpa using (congrArg Prod.fst h).symm
    subst this
    cases rest with
    | nil => simp [lexExp]
    | cons d r =>
      obtain ⟨_, _, h3, h4⟩ := hs d r rfl
      simp [lexExp, h3, h4]
  | cons e r4 =>
    by_cases he : e = 'e' ∨ e = 'E'
    · by_cases hr4 : r4 = []
      · subst hr4; simp [lexExp, he, signSplit] at h
      · simp only [lexExp, he, if_true, List.cons_append] at h ⊢
        rw [signSplit_append r4 rest hr4]
        simp only
        rw [takeWhile_append_stop _ rest hd, dropWhile_append_stop _ rest hd]
        by_cases hds : (signSplit r4).2.takeWhile Char.isDigit = []
        · simp [hds] at h
        · simp only [hds, if_false] at h ⊢
          have h1 := congrArg Prod.fst h
          have h2 := congrArg Prod.snd h
          simp only at h1 h2
          rw [h1, h2]; simp
    · simp [lexExp, he] at h

theorem idSeg_local (X rest : Str) (h1 : headFails isWord rest) (h2 : ∀ d r, rest = d :: r → d ≠ ':') :
    idSeg (X ++ rest) = (idSeg X).map (fun p => (p.1, p.2 ++ rest)) := by
  have hstart : ∀ d r, rest = d :: r → isIdStart d = false := by
    intro d r e
    have := h1 d r e
    cases hi : isIdStart d with
    | false => rfl
    | true => rw [isWord_of_isIdStart d hi] at this; cases this
  match X with
  | a :: b :: c :: r =>
    by_cases hc : a = ':' ∧ b = ':' ∧ isIdStart c = true
    · simp [idSeg, hc, takeWhile_append_stop r rest h1, dropWhile_append_stop r rest h1]
    · simp [idSeg, hc]
  | [] =>
    match rest with
    | [] => simp [idSeg]
    | [d] => simp [idSeg]
    | [d, e] => simp [idSeg]
    | d :: e :: f :: r => simp [idSeg, h2 d _ rfl]
  | [a] =>
    match rest with
    | [] => simp [idSeg]
    | [d] => simp [idSeg]
    | d :: e :: r => simp [idSeg, h2 d _ rfl]
  | [a, b] =>
    match rest with
    | [] => simp [idSeg]
    | d :: r => simp [idSeg, hstart d r rfl]

theorem idSeg_length (s seg rest : Str) (h : idSeg s = some (seg, rest)) : rest.length < s.length := by
  match s with
  | a :: b :: c :: r =>
    by_cases hc : a = ':' ∧ b = ':' ∧ isIdStart c = true
    · simp [idSeg, hc] at h
      have hl : (r.dropWhile isWord).length ≤ r.length := (List.dropWhile_sublist _).length_le
      rw [← h.2]; simp; omega
    · simp [idSeg, hc] at h
  | [] => simp [idSeg] at h
  | [a] => simp [idSeg] at h
  | [a, b] => simp [idSeg] at h

theorem lexIdTail_fuel : ∀ (f f' : Nat) (X : Str), X.length ≤ f → X.length ≤ f' → lexIdTail f X = lexIdTail f' X := by
  intro f
  induction f with
  | zero =>
    intro f' X h _
    have : X = [] := by cases X <;> simp_all
    subst this
    cases f' <;> simp [lexIdTail, idSeg]
  | succ f ih =>
    intro f' X h h'
    cases f' with
    | zero =>
      have : X = [] := by cases X <;> simp_all
      subst this
      simp [lexIdTail, idSeg]
    | succ f' =>
      simp only [lexIdTail]
      cases hs : idSeg X with
      | none => rfl
      | some p =>
        have := idSeg_length X p.1 p.2 hs
        simp only
        rw [ih f' p.2 (by omega) (by omega)]

theorem lexIdTail_local : ∀ (f : Nat) (X rest : Str), headFails isWord rest → (∀ d r, rest = d :: r → d ≠ ':') →
    lexIdTail f (X ++ rest) = ((lexIdTail f X).1, (lexIdTail f X).2 ++ rest) := by
  intro f
  induction f with
  | zero => intro X rest _ _; simp [lexIdTail]
  | succ f ih =>
    intro X rest h1 h2
    simp only [lexIdTail, idSeg_local X rest h1 h2]
    cases hs : idSeg X with
    | none => simp
    | some p => simp [ih p.2 rest h1 h2]


/-- what may follow an identifier: not a word character, not `:` -/
def safeId (rest : Str) : Prop := headFails isWord rest ∧ ∀ d r, rest = d :: r → d ≠ ':'

theorem lexNum_idStart (c : Char) (r : Str) (h : isIdStart c = true) : lexNum c r = none := by
  have h1 : c.isDigit = false := by
    simp only [isIdStart, Bool.or_eq_true, beq_iff_eq] at h
    cases hd : c.isDigit with
    | false => rfl
    | true =>
      rcases h with h | h
      · simp only [Char.isAlpha, Char.isUpper, Char.isLower, Char.isDigit, Bool.or_eq_true, Bool.and_eq_true, decide_eq_true_eq] at h hd
        have a1 := UInt32.le_iff_toNat_le.mp hd.1
        have a2 := UInt32.le_iff_toNat_le.mp hd.2
        rcases h with h | h
        · have b1 := UInt32.le_iff_toNat_le.mp h.1
          simp at a1 a2 b1; omega
        · have b1 := UInt32.le_iff_toNat_le.mp h.1
          simp at a1 a2 b1; omega
      · subst h; cases hd
  have h2 : c ≠ '.' := by intro e; subst e; revert h; decide
  simp [lexNum, h1, h2]

/-- an identifier token is not disturbed by what follows it -/
theorem lexOne_id (c : Char) (w rest : Str) (hc : isIdStart c = true)
    (h : lexOne c w = some (.id (c :: w), [])) (hs : safeId rest) :
    lexOne c (w ++ rest) = some (.id (c :: w), rest) := by
  have hn := lexNum_idStart c w hc
  have hn' := lexNum_idStart c (w ++ rest) hc
  simp only [lexOne, hn, hc, if_true, Option.some.injEq, Prod.mk.injEq, Tok.id.injEq, List.cons.injEq, true_and] at h
  obtain ⟨h1, h2⟩ := h
  have hl : (w.dropWhile isWord).length ≤ w.length := (List.dropWhile_sublist _).length_le
  simp only [lexOne, hn', hc, if_true]
  rw [takeWhile_append_stop w rest hs.1, dropWhile_append_stop w rest hs.1,
    lexIdTail_local _ _ rest hs.1 hs.2,
    lexIdTail_fuel (w ++ rest).length w.length _ (by simp; omega) hl, h2]
  simp [h1]

theorem head?_append_of_ne_nil (a b : Str) (h : a ≠ []) : (a ++ b).head? = a.head? := by
  cases a with
  | nil => exact absurd rfl h
  | cons c r => rfl

theorem tail_append_of_ne_nil (a b : Str) (h : a ≠ []) : (a ++ b).tail = a.tail ++ b := by
  cases a with
  | nil => exact absurd rfl h
  | cons c r => rfl

/-- a numeral token is not disturbed by what follows it -/
theorem lexNum_local (c : Char) (w rest t : Str) (hs : safeNum rest) (h : lexNum c w = some (t, [])) :
    lexNum c (w ++ rest) = some (t, rest) := by
  have hd := safeNum_digit hs
  have hdot : rest.head? ≠ some '.' := by
    cases rest with
    | nil => simp
    | cons d r => simpa using (hs d r rfl).2.1
  unfold lexNum at h ⊢
  by_cases hc : c.isDigit = true
  · simp only [hc, if_true] at h ⊢
    have e1 : c :: (w ++ rest) = (c :: w) ++ rest := rfl
    rw [e1, takeWhile_append_stop (c :: w) rest hd, dropWhile_append_stop (c :: w) rest hd]
    by_cases hr1 : (c :: w).dropWhile Char.isDigit = []
    · rw [hr1] at h ⊢
      simp only [List.head?_nil, List.nil_append] at h ⊢
      simp only [hdot, if_false]
      have hx : lexExp [] = ([], []) := rfl
      have hx' := lexExp_local [] rest hs [] hx
      simp only [List.nil_append] at hx'
      rw [hx']
      simpa [lexExp] using h
    · rw [head?_append_of_ne_nil _ rest hr1, tail_append_of_ne_nil _ rest hr1]
      by_cases hdt : ((c :: w).dropWhile Char.isDigit).head? = some '.'
      · simp only [hdt, if_true] at h ⊢
        rw [takeWhile_append_stop _ rest hd, dropWhile_append_stop _ rest hd]
        simp only [Option.some.injEq, Prod.mk.injEq] at h
        rw [lexExp_local _ rest hs _ (Prod.ext rfl h.2)]
        simp [h.1]
      · simp only [hdt, if_false] at h ⊢
        simp only [Option.some.injEq, Prod.mk.injEq] at h
        rw [lexExp_local _ rest hs _ (Prod.ext rfl h.2)]
        simp [h.1]
  · simp only [hc] at h ⊢
    by_cases hp : c = '.'
    · simp only [hp, if_true] at h ⊢
      rw [takeWhile_append_stop w rest hd, dropWhile_append_stop w rest hd]
      by_cases hfs : w.takeWhile Char.isDigit = []
      · simp [hfs] at h
      · have h' : '.' :: w.takeWhile Char.isDigit ++ (lexExp (w.dropWhile Char.isDigit)).1 = t ∧
            (lexExp (w.dropWhile Char.isDigit)).2 = [] := by simpa [hfs] using h
        rw [lexExp_local _ rest hs _ (Prod.ext rfl h'.2)]
        simp [hfs, h'.1]
    · simp [hp] at h

theorem lexOne_num (c : Char) (w rest : Str) (hs : safeNum rest) (h : lexNum c w = some (c :: w, [])) :
    lexOne c (w ++ rest) = some (.num (c :: w), rest) := by
  simp [lexOne, lexNum_local c w rest _ hs h]

end FaxVerif.Cpp.Parse
