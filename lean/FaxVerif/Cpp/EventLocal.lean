/-
Cpp — soundness of the emptiness analysis `emp`, and the job-level consequences of
`EventLocal` (C05): what a job writes is the concatenation of what each event writes when
processed alone from the initial class state.
-/
import FaxVerif.Cpp.CheckSound
namespace FaxVerif.Cpp
variable {D : Type}

def EmptyOn (E : List String) (σ : Env D) : Prop := ∀ x ∈ E, σ x = some (.val (.vec []))

theorem EmptyOn.sub {E E' : List String} {σ : Env D} (h : EmptyOn E σ) (hs : ∀ x ∈ E', x ∈ E) : EmptyOn E' σ :=
  fun x hx => h x (hs x hx)

theorem EmptyOn.set_other {E : List String} {σ : Env D} (h : EmptyOn E σ) (x : String) (v : Val D) :
    EmptyOn (E.filter (· ≠ x)) (σ.set x v) := by
  intro y hy
  simp only [List.mem_filter, decide_eq_true_eq] at hy
  simp [Env.set, hy.2, h y hy.1]

theorem EmptyOn.declare_other {E : List String} {σ : Env D} (h : EmptyOn E σ) (x : String) :
    EmptyOn (E.filter (· ≠ x)) (σ.declare x) := by
  intro y hy
  simp only [List.mem_filter, decide_eq_true_eq] at hy
  simp [Env.declare, hy.2, h y hy.1]

theorem EmptyOn.set_empty {E : List String} {σ : Env D} (h : EmptyOn E σ) (x : String) :
    EmptyOn (x :: E) (σ.set x (.vec [])) := by
  intro y hy
  by_cases hyx : y = x
  · subst hyx; simp [Env.set]
  · have : y ∈ E := by simpa [hyx] using hy
    simp [Env.set, hyx, h y this]

theorem iter_empty (inv : List String) (f : St D → Val D → Except Fault (St D))
    (hf : ∀ t t' v, EmptyOn inv t.env → f t v = .ok t' → EmptyOn inv t'.env) :
    ∀ (l : List (Val D)) (t t' : St D), EmptyOn inv t.env → iter f l t = .ok t' → EmptyOn inv t'.env
  | [], t, t', h, hr => by simp only [iter, Except.ok.injEq] at hr; subst hr; exact h
  | v :: vs, t, t', h, hr => by
    simp only [iter] at hr
    cases hfv : f t v with
    | error e => rw [hfv] at hr; simp at hr
    | ok u => rw [hfv] at hr; exact iter_empty inv f hf vs u t' (hf t u v h hfv) hr

mutual
  theorem emp_sound (C : Ctx D) : ∀ (st : Stmt) (E E' : List String) (t t' : St D),
      emp st E = some E' → EmptyOn E t.env → exec C st t = .ok t' → EmptyOn E' t'.env
    | .block body, E, E', t, t', h, he, hx => by
      simp only [emp] at h; simp only [exec] at hx
      exact emps_sound C body E E' t t' h he hx
    | .loop x coll body, E, E', t, t', h, he, hx => by
      simp only [emp] at h
      split at h
      · simp at h
      · rename_i E1 h1
        split at h
        · simp at h
        · rename_i E2 h2
          split at h
          · rename_i hsub
            simp only [Option.some.injEq] at h; subst h
            simp only [exec] at hx
            cases hc : evalE C.N t.env coll with
            | error f => rw [hc] at hx; simp at hx
            | ok v =>
              rw [hc] at hx
              cases v with
              | vec l =>
                simp only [] at hx
                have hinv0 : EmptyOn (inter (E.filter (· ≠ x)) E1) t.env :=
                  he.sub (fun y hy => by
                    have := (mem_inter y _ _).1 hy
                    exact (List.mem_filter.1 this.1).1)
                refine iter_empty _ _ ?_ l t t' hinv0 hx
                intro u u' w hu hb
                have hnx : ∀ y ∈ inter (E.filter (· ≠ x)) E1, y ≠ x := by
                  intro y hy
                  have := (mem_inter y _ _).1 hy
                  simpa using (List.mem_filter.1 this.1).2
                have hu' : EmptyOn (inter (E.filter (· ≠ x)) E1) (u.env.set x w) := by
                  intro y hy
                  simp [Env.set, hnx y hy, hu y hy]
                have := emps_sound C body _ E2 { u with env := u.env.set x w } u' h2 hu' hb
                exact this.sub ((subset_iff _ _).1 hsub)
              | _ => simp at hx
          · simp at h
    | .ite c thn els, E, E', t, t', h, he, hx => by
      simp only [emp] at h
      split at h
      · simp at h
      · rename_i Et ht
        split at h
        · simp at h
        · rename_i Ee hee
          simp only [Option.some.injEq] at h; subst h
          simp only [exec] at hx
          cases hc : evalE C.N t.env c with
          | error f => rw [hc] at hx; simp at hx
          | ok v =>
            rw [hc] at hx
            simp only [] at hx
            cases hb : asBool C.N v with
            | none => rw [hb] at hx; simp at hx
            | some b =>
              rw [hb] at hx
              cases b with
              | true =>
                exact (emps_sound C thn E Et t t' ht he hx).sub (fun y hy => ((mem_inter y _ _).1 hy).1)
              | false =>
                exact (emps_sound C els E Ee t t' hee he hx).sub (fun y hy => ((mem_inter y _ _).1 hy).2)
    | .decl ty n init, E, E', t, t', h, he, hx => by
      simp only [emp, Option.some.injEq] at h; subst h
      simp only [exec] at hx
      cases init with
      | none =>
        simp only [] at hx
        by_cases hv : isVecType ty = true
        · simp only [hv, if_true, Except.ok.injEq] at hx; subst hx
          simpa [hv] using he.set_empty n
        · simp only [hv, Except.ok.injEq] at hx; subst hx
          simpa [hv] using he.declare_other n
      | some e =>
        simp only [] at hx
        cases hc : evalE C.N t.env e with
        | error f => rw [hc] at hx; simp at hx
        | ok v =>
          rw [hc] at hx
          simp only [] at hx
          cases hcst : castTo C.N ty v with
          | error f => rw [hcst] at hx; simp at hx
          | ok v' =>
            rw [hcst] at hx
            simp only [Except.ok.injEq] at hx; subst hx
            simpa using he.set_other n v'
    | .set x e, E, E', t, t', h, he, hx => by
      simp only [emp, Option.some.injEq] at h; subst h
      simp only [exec] at hx
      cases hs : t.env x with
      | none => rw [hs] at hx; simp at hx
      | some sl =>
        rw [hs] at hx
        simp only [] at hx
        cases hc : evalE C.N t.env e with
        | error f => rw [hc] at hx; simp at hx
        | ok v =>
          rw [hc] at hx
          simp only [Except.ok.injEq] at hx; subst hx
          exact he.set_other x v
    | .push x e, E, E', t, t', h, he, hx => by
      simp only [emp, Option.some.injEq] at h; subst h
      simp only [exec] at hx
      split at hx
      · split at hx
        · simp only [Except.ok.injEq] at hx; subst hx; exact he.set_other x _
        · simp at hx
      all_goals simp at hx
    | .clear x, E, E', t, t', h, he, hx => by
      simp only [emp, Option.some.injEq] at h; subst h
      simp only [exec] at hx
      split at hx
      · simp only [Except.ok.injEq] at hx; subst hx; exact he.set_empty x
      all_goals simp at hx
    | .fill _, E, E', t, t', h, he, hx => by
      simp only [emp, Option.some.injEq] at h; subst h
      simp only [exec] at hx
      split at hx
      · simp only [Except.ok.injEq] at hx; subst hx; exact he
      · simp at hx
    | .throw _, E, E', t, t', h, he, hx => by simp [exec] at hx
    | .retrieve how ty v bank token, E, E', t, t', h, he, hx => by
      simp only [emp, Option.some.injEq] at h; subst h
      simp only [exec] at hx
      split at hx
      · simp at hx
      · split at hx
        · simp at hx
        · simp only [Except.ok.injEq] at hx; subst hx; exact he.set_other v _
    | .line _, E, E', t, t', h, _, _ => by simp [emp] at h
  theorem emps_sound (C : Ctx D) : ∀ (l : List Stmt) (E E' : List String) (t t' : St D),
      emps l E = some E' → EmptyOn E t.env → execs C l t = .ok t' → EmptyOn E' t'.env
    | [], E, E', t, t', h, he, hx => by
      simp only [emps, Option.some.injEq] at h; subst h
      simp only [execs, Except.ok.injEq] at hx; subst hx; exact he
    | st :: rest, E, E', t, t', h, he, hx => by
      simp only [emps] at h
      split at h
      · rename_i E1 h1
        simp only [execs] at hx
        cases hs : exec C st t with
        | error f => rw [hs] at hx; simp at hx
        | ok u =>
          rw [hs] at hx
          exact emps_sound C rest E1 E' u t' h (emp_sound C st E E1 t u h1 he hs) hx
      · simp at h
end

end FaxVerif.Cpp

namespace FaxVerif.Cpp
variable {D : Type}

/-! ## class state -/

def classNames (vars : List (String × String)) : List String := vars.map (·.2)

/-- The class state at the start of an event is *clean*: every class variable is declared and
every vector column is empty. Scalar columns may hold anything (stale values included). -/
def ClassClean (P : Package) (σ : Env D) : Prop :=
  EmptyOn (vecCols P) σ ∧ ∀ x ∈ classNames P.classVars, (σ x).isSome = true

theorem classInit_decl : ∀ (vars : List (String × String)) (x : String), x ∈ classNames vars →
    ((classInit vars : Env D) x).isSome = true
  | [], x, h => by simp [classNames] at h
  | (ty, n) :: rest, x, h => by
    simp only [classInit]
    by_cases hx : x = n
    · subst hx; split <;> simp [Env.set, Env.declare]
    · have : x ∈ classNames rest := by simpa [classNames, hx] using h
      have ih := classInit_decl rest x this
      split <;> simpa [Env.set, Env.declare, hx] using ih

theorem classInit_vec : ∀ (vars : List (String × String)), (classNames vars).Nodup → ∀ ty n, (ty, n) ∈ vars →
    isVecType ty = true → (classInit vars : Env D) n = some (.val (.vec []))
  | [], _, ty, n, h, _ => by simp at h
  | (ty0, n0) :: rest, hnd, ty, n, h, hv => by
    simp only [classNames, List.map_cons, List.nodup_cons] at hnd
    simp only [classInit]
    rcases List.mem_cons.1 h with heq | hmem
    · simp only [Prod.mk.injEq] at heq
      obtain ⟨rfl, rfl⟩ := heq
      simp [hv, Env.set]
    · have hne : n ≠ n0 := by
        intro e; subst e
        exact hnd.1 (List.mem_map.2 ⟨(ty, n), hmem, rfl⟩)
      have ih := classInit_vec rest hnd.2 ty n hmem hv
      split <;> simpa [Env.set, Env.declare, hne] using ih

theorem classInit_clean (P : Package) (hnd : (classNames P.classVars).Nodup) :
    ClassClean P (classInit P.classVars : Env D) := by
  constructor
  · intro x hx
    simp only [vecCols, List.mem_map, List.mem_filter] at hx
    obtain ⟨⟨ty, n⟩, ⟨hm, hv⟩, rfl⟩ := hx
    exact classInit_vec P.classVars hnd ty n hm hv
  · intro x hx; exact classInit_decl P.classVars x hx

theorem tokenBank_some (P : Package) (N : Num D) (ev : Event D) :
    ∀ t ∈ P.daCtx.tokens, ((P.ctx N ev).tokenBank t).isSome = true := by
  intro t ht
  simp only [Package.daCtx, List.mem_map] at ht
  obtain ⟨⟨tk, ty, b⟩, hm, rfl⟩ := ht
  simp only [Ctx.tokenBank, Package.ctx]
  generalize P.tokens = l at hm
  induction l with
  | nil => simp at hm
  | cons hd tl ih =>
    obtain ⟨t0, ty0, b0⟩ := hd
    simp only [Ctx.tokenBank.go]
    by_cases h0 : t0 = tk
    · simp [h0]
    · simp only [h0, if_false]
      rcases List.mem_cons.1 hm with heq | hm'
      · simp only [Prod.mk.injEq] at heq; exact absurd heq.1.symm h0
      · exact ih hm'

theorem classDA_AsubD (vars : List (String × String)) : AsubD (classDA vars) := by
  intro x hx
  simp only [classDA, List.mem_map, List.mem_filter] at hx ⊢
  obtain ⟨p, ⟨hm, _⟩, rfl⟩ := hx
  exact ⟨p, hm, rfl⟩

theorem good_of_clean (P : Package) (σ σ' : Env D) (h : ClassClean P σ) (h' : ClassClean P σ') :
    Good (classDA P.classVars) σ σ' := by
  constructor
  · intro x hx
    exact ⟨.vec [], h.1 x (by simpa [classDA, vecCols] using hx), h'.1 x (by simpa [classDA, vecCols] using hx)⟩
  · intro x hx
    exact ⟨h.2 x (by simpa [classDA, classNames] using hx), h'.2 x (by simpa [classDA, classNames] using hx)⟩

/-- The core of C05: from any clean class state, an event writes what it writes from the
initial class state (same rows, or the same fault), and leaves a clean class state behind. -/
theorem runEvent_local (P : Package) (N : Num D) (hP : EventLocal P = true)
    (σc : Env D) (hc : ClassClean P σc) (ev : Event D) :
    (∀ f, runEvent P N σc ev = .error f ↔ runEvent P N (classInit P.classVars) ev = .error f) ∧
    (∀ rows σc', runEvent P N σc ev = .ok (rows, σc') →
        ClassClean P σc' ∧ ∃ σ0', runEvent P N (classInit P.classVars) ev = .ok (rows, σ0')) := by
  have hP' : WellFormed P = true ∧ ∃ E, emp P.body (vecCols P) = some E ∧ subset (vecCols P) E = true := by
    unfold EventLocal at hP
    simp only [Bool.and_eq_true] at hP
    refine ⟨hP.1, ?_⟩
    have h2 := hP.2
    split at h2
    · rename_i E hE; exact ⟨E, hE, h2⟩
    · simp at h2
  obtain ⟨hwf, E, hE, hsub⟩ := hP'
  have hwf' : (∃ s', da P.daCtx P.body (classDA P.classVars) = some s') ∧ (classNames P.classVars).Nodup := by
    unfold WellFormed at hwf
    simp only [Bool.and_eq_true, decide_eq_true_eq] at hwf
    refine ⟨?_, by simpa [classNames] using hwf.1.2⟩
    cases hd : da P.daCtx P.body (classDA P.classVars) with
    | none => rw [hd] at hwf; simp at hwf
    | some s' => exact ⟨s', rfl⟩
  obtain ⟨⟨s', hda⟩, hnd⟩ := hwf'
  have h0 := classInit_clean (D := D) P hnd
  have hres := exec_sound (P.ctx N ev) P.daCtx rfl (tokenBank_some P N ev) P.body _ s'
    { env := σc, rows := [] } { env := classInit P.classVars, rows := [] } hda (classDA_AsubD _)
    ⟨good_of_clean P σc _ hc h0, by intro f hf; simp [classDA] at hf, by intro p hp; simp [classDA] at hp⟩ rfl
  obtain ⟨_, _, hDm⟩ := da_mono P.daCtx P.body _ s' hda (classDA_AsubD _)
  unfold runEvent
  rcases hres with ⟨f, e1, e2, _⟩ | ⟨t, t', e1, e2, hg, hr⟩
  · rw [e1, e2]
    exact ⟨fun g => by simp, fun rows σc' h => by simp at h⟩
  · rw [e1, e2]
    refine ⟨fun g => by simp, ?_⟩
    intro rows σc' h
    simp only [Except.ok.injEq, Prod.mk.injEq] at h
    obtain ⟨rfl, rfl⟩ := h
    refine ⟨⟨?_, ?_⟩, keepClass P.classVars t'.env, by simp [hr]⟩
    · -- vector columns are empty again
      have hemp := emp_sound (P.ctx N ev) P.body (vecCols P) E { env := σc, rows := [] } t hE hc.1 e1
      intro x hx
      have hxE := (subset_iff _ _).1 hsub x hx
      have hxc : P.classVars.any (fun p => decide (p.2 = x)) = true := by
        simp only [vecCols, List.mem_map, List.mem_filter] at hx
        obtain ⟨p, ⟨hm, _⟩, rfl⟩ := hx
        simp only [List.any_eq_true, decide_eq_true_eq]
        exact ⟨p, hm, rfl⟩
      simp [keepClass, hxc, hemp x hxE]
    · intro x hx
      have hxD : x ∈ s'.D := hDm x (by simpa [classDA, classNames] using hx)
      have hxc : P.classVars.any (fun p => decide (p.2 = x)) = true := by
        simp only [classNames, List.mem_map] at hx
        obtain ⟨p, hm, rfl⟩ := hx
        simp only [List.any_eq_true, decide_eq_true_eq]
        exact ⟨p, hm, rfl⟩
      simp [keepClass, hxc, (hg.1.2 x hxD).1]

/-- Each event processed alone, from the initial class state. -/
def perEvent (P : Package) (N : Num D) : List (Event D) → Except Fault (List (List (Val D)))
  | [] => .ok []
  | ev :: evs => match runEvent P N (classInit P.classVars) ev with
    | .error f => .error f
    | .ok (rows, _) => match perEvent P N evs with
      | .ok more => .ok (rows ++ more)
      | .error f => .error f

theorem runJobFrom_eq (P : Package) (N : Num D) (hP : EventLocal P = true) :
    ∀ (evs : List (Event D)) (σc : Env D), ClassClean P σc → runJobFrom P N σc evs = perEvent P N evs
  | [], _, _ => rfl
  | ev :: evs, σc, hc => by
    obtain ⟨herr, hok⟩ := runEvent_local P N hP σc hc ev
    simp only [runJobFrom, perEvent]
    cases h : runEvent P N σc ev with
    | error f => rw [(herr f).1 h]
    | ok r =>
      obtain ⟨rows, σc'⟩ := r
      obtain ⟨hcl, σ0', h0⟩ := hok rows σc' h
      rw [h0]
      simp only [runJobFrom_eq P N hP evs σc' hcl]
      cases perEvent P N evs <;> rfl

end FaxVerif.Cpp
