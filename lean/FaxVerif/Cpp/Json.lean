/-
JSON decoding of programs (from tools/cparse.py), queries (tools/qgen.py) and events, the
`Float` instance of `Num`, and canonical printing of values. Driver-only (imports Lean.Data.Json);
nothing here is used by a theorem.
-/
import Lean.Data.Json
import FaxVerif.Cpp.Run
import FaxVerif.Linq.Query
open Lean
namespace FaxVerif.Cpp

def jstr (j : Json) (k : String) : Except String String := do (← j.getObjVal? k).getStr?
def jarr (j : Json) (k : String) : Except String (List Json) := do pure (← (← j.getObjVal? k).getArr?).toList
def jint (j : Json) (k : String) : Except String Int := do (← j.getObjVal? k).getInt?

/-- decimal literal text → (mantissa, exponent) with value = mantissa * 10^exponent -/
def parseDec (s : String) : Option (Int × Int) := Id.run do
  let cs := s.toList
  let (neg, cs) := match cs with
    | '-' :: r => (true, r)
    | '+' :: r => (false, r)
    | r => (false, r)
  let mut mant : Nat := 0
  let mut scale : Int := 0
  let mut seenDot := false
  let mut rest := cs
  let mut any := false
  while true do
    match rest with
    | c :: r =>
      if c.isDigit then
        mant := mant * 10 + (c.toNat - '0'.toNat); any := true
        if seenDot then scale := scale - 1
        rest := r
      else if c == '.' && !seenDot then
        seenDot := true; rest := r
      else break
    | [] => break
  if !any then return none
  let mut e : Int := 0
  match rest with
  | [] => pure ()
  | c :: r =>
    if c == 'e' || c == 'E' then
      match (String.ofList r).toInt? with
      | some v => e := v
      | none => return none
    else return none
  return some ((if neg then -(mant : Int) else (mant : Int)), scale + e)

partial def decExpr (j : Json) : Except String CExpr := do
  let k ← jstr j "k"
  match k with
  | "var" => pure (.var (← jstr j "n"))
  | "int" => pure (.int (← jint j "v"))
  | "dbl" =>
    let t ← jstr j "v"
    match parseDec t with
    | some (m, e) => pure (.dbl t m e)
    | none => pure (.opaque t)
  | "bool" => pure (.bool (← (← j.getObjVal? "v").getBool?))
  | "str" => pure (.str (← jstr j "v"))
  | "un" => pure (.un (← jstr j "op") (← decExpr (← j.getObjVal? "a")))
  | "bin" => pure (.bin (← jstr j "op") (← decExpr (← j.getObjVal? "a")) (← decExpr (← j.getObjVal? "b")))
  | "deref" => pure (.deref (← decExpr (← j.getObjVal? "a")))
  | "mem" =>
    let call ← (← j.getObjVal? "call").getBool?
    let args ← (← jarr j "args").mapM decExpr
    let o ← decExpr (← j.getObjVal? "o")
    let arrow ← (← j.getObjVal? "arrow").getBool?
    let n ← jstr j "n"
    pure (.mem o arrow (if call then n else n) args)
  | "call" => pure (.call (← jstr j "f") (← (← jarr j "args").mapM decExpr))
  | "cast" => pure (.cast (← jstr j "t") (← decExpr (← j.getObjVal? "a")))
  | "opaque" => pure (.opaque (← jstr j "t"))
  | other => pure (.opaque s!"<{other}>")

partial def decStmt (j : Json) : Except String Stmt := do
  let k ← jstr j "k"
  let body (key : String) : Except String (List Stmt) := do (← jarr j key).mapM decStmt
  match k with
  | "block" => pure (.block (← body "body"))
  | "for" => pure (.loop (← jstr j "x") (← decExpr (← j.getObjVal? "c")) (← body "body"))
  | "if" =>
    let els ← match j.getObjVal? "else" with
      | .ok (.arr a) => a.toList.mapM decStmt
      | _ => pure []
    pure (.ite (← decExpr (← j.getObjVal? "c")) (← body "then") els)
  | "decl" =>
    let init ← match j.getObjVal? "init" with
      | .ok .null => pure none
      | .ok e => do pure (some (← decExpr e))
      | .error _ => pure none
    pure (.decl (← jstr j "t") (← jstr j "n") init)
  | "set" => pure (.set (← jstr j "x") (← decExpr (← j.getObjVal? "e")))
  | "push" => pure (.push (← jstr j "x") (← decExpr (← j.getObjVal? "e")))
  | "clear" => pure (.clear (← jstr j "x"))
  | "fill" => pure (.fill (← jstr j "tree"))
  | "throw" => pure (.throw (← jstr j "msg"))
  | "retrieve" => pure (.retrieve (← jstr j "how") (← jstr j "ty") (← jstr j "v") (← decExpr (← j.getObjVal? "bank")) (← jstr j "token"))
  | "line" => pure (.line (← jstr j "t"))
  | other => pure (.line s!"<{other}>")

def decPackage (j : Json) : Except String Package := do
  let body ← decStmt (← j.getObjVal? "body")
  let cvs ← (← jarr j "class_vars").mapM fun c => do pure ((← jstr c "t"), (← jstr c "n"))
  let brs ← (← jarr j "branches").mapM fun c => do pure ((← jstr c "name"), (← jstr c "var"))
  let toks ← (← jarr j "tokens").mapM fun c => do pure ((← jstr c "token"), (← jstr c "type"), (← jstr c "bank"))
  pure { body := body, classVars := cvs, branches := brs, tree := (← jstr j "tree"), tokens := toks }

/-! ### numbers -/

def floatOfDec (m e : Int) : Float :=
  let a := Float.ofScientific m.natAbs (e < 0) e.natAbs
  if m < 0 then -a else a

def floatFn (f : String) (xs : List Float) : Option Float :=
  let g := if f.startsWith "std::" then (f.drop 5).toString else f
  match g, xs with
  | "sin", [x] => some x.sin | "cos", [x] => some x.cos | "tan", [x] => some x.tan
  | "asin", [x] => some x.asin | "acos", [x] => some x.acos | "atan", [x] => some x.atan
  | "atan2", [x, y] => some (Float.atan2 x y)
  | "sinh", [x] => some x.sinh | "cosh", [x] => some x.cosh | "tanh", [x] => some x.tanh
  | "exp", [x] => some x.exp | "exp2", [x] => some x.exp2 | "log", [x] => some x.log | "ln", [x] => some x.log
  | "log2", [x] => some x.log2 | "log10", [x] => some x.log10
  | "pow", [x, y] => some (x.pow y) | "sqrt", [x] => some x.sqrt | "cbrt", [x] => some x.cbrt
  | "ceil", [x] => some x.ceil | "floor", [x] => some x.floor | "round", [x] => some x.round
  | "fabs", [x] => some x.abs | "abs", [x] => some x.abs
  | "vpf", [x, y] => some (x + y)        -- the user function declared by the synthetic metadata (tools/qgen.py USERFN)
  | _, _ => none

def floatNum : Num Float where
  ofInt := Float.ofInt
  ofDec := floatOfDec
  add := (· + ·)
  sub := (· - ·)
  mul := (· * ·)
  div := (· / ·)
  neg := fun x => -x
  lt := fun a b => a < b
  le := fun a b => a ≤ b
  eq := fun a b => a == b
  toInt := fun x => x.toInt64.toInt
  fn := floatFn

/-! ### values and events -/

partial def decVal (j : Json) : Except String (Val Float) := do
  match j with
  | .obj _ =>
    if let .ok v := j.getObjVal? "i" then return .int (← v.getInt?)
    if let .ok v := j.getObjVal? "d" then
      match v with
      | .num n => return .dbl n.toFloat
      | .str s => match parseDec s with
        | some (m, e) => return .dbl (floatOfDec m e)
        | none => throw s!"bad double {s}"
      | _ => throw "bad double"
    if let .ok v := j.getObjVal? "b" then return .bool (← v.getBool?)
    if let .ok v := j.getObjVal? "s" then return .str (← v.getStr?)
    if let .ok v := j.getObjVal? "v" then return .vec (← (← v.getArr?).toList.mapM decVal)
    if let .ok _ := j.getObjVal? "null" then return .null
    if let .ok v := j.getObjVal? "o" then
      let ty ← jstr v "ty"
      let attrs ← (← jarr v "a").mapM fun kv => do
        let k ← jstr kv "k"
        let x ← decVal (← kv.getObjVal? "v")
        pure (k, x)
      return .obj ty attrs
    throw "unknown value"
  | _ => throw "value must be an object"

def decEvent (j : Json) : Except String (Event Float) := do
  let bs ← (← jarr j "banks").mapM fun b => do
    pure ((← jstr b "bank"), (← jstr b "type"), (← decVal (← b.getObjVal? "content")))
  pure { banks := bs }

partial def showVal (typed : Bool) : Val Float → String
  | .int n => if typed then s!"i:{n}" else toString (Float.ofInt n)
  | .dbl x => if typed then s!"d:{x}" else toString x
  | .bool b => if typed then s!"b:{b}" else toString (Float.ofInt (if b then 1 else 0))
  | .str s => s!"s:{s}"
  | .obj ty _ => s!"<object {ty}>"
  | .vec l => "[" ++ ", ".intercalate (l.map (showVal typed)) ++ "]"
  | .null => "null"

def faultClass : Fault → String
  | .unbound n => s!"stuck:unbound:{n}"
  | .typeErr w => s!"stuck:type:{w}"
  | .opaque _ => "stuck:opaque"
  | .loud _ => "loud"
  | .retrieveFailed _ => "retrieveFailed"
  | .nullDeref => "nullDeref"

end FaxVerif.Cpp

namespace FaxVerif.Linq
open FaxVerif.Cpp

partial def decQuery (j : Json) : Except String Query := do
  let k ← jstr j "k"
  let sub (key : String) : Except String Query := do decQuery (← j.getObjVal? key)
  let subs (key : String) : Except String (List Query) := do (← jarr j key).mapM decQuery
  match k with
  | "ds" => pure .ds
  | "var" => pure (.var (← jstr j "n"))
  | "int" => pure (.int (← jint j "v"))
  | "dbl" => match parseDec (← jstr j "v") with
    | some (m, e) => pure (.dbl m e)
    | none => throw "bad double literal"
  | "bool" => pure (.bool (← (← j.getObjVal? "v").getBool?))
  | "str" => pure (.str (← jstr j "v"))
  | "meth" => pure (.meth (← sub "o") (← jstr j "n"))
  | "coll" => pure (.coll (← sub "e") (← jstr j "c") (← jstr j "bank"))
  | "bin" => pure (.bin (← jstr j "op") (← sub "a") (← sub "b"))
  | "cmp" => pure (.cmp (← jstr j "op") (← sub "a") (← sub "b"))
  | "neg" => pure (.neg (← sub "a"))
  | "not" => pure (.not (← sub "a"))
  | "and" => pure (.and (← sub "a") (← sub "b"))
  | "or" => pure (.or (← sub "a") (← sub "b"))
  | "if" => pure (.ite (← sub "c") (← sub "a") (← sub "b"))
  | "Select" => pure (.select (← sub "s") (← jstr j "x") (← sub "f"))
  | "Where" => pure (.where_ (← sub "s") (← jstr j "x") (← sub "f"))
  | "SelectMany" => pure (.selectMany (← sub "s") (← jstr j "x") (← sub "f"))
  | "Count" => pure (.count (← sub "s"))
  | "Sum" => pure (.sum (← sub "s"))
  | "Min" => pure (.min (← sub "s"))
  | "Max" => pure (.max (← sub "s"))
  | "First" => pure (.first (← sub "s"))
  | "Aggregate" => pure (.aggregate (← sub "s") (← sub "seed") (← jstr j "acc") (← jstr j "x") (← sub "f"))
  | "tuple" => pure (.tuple (← subs "es"))
  | "list" => pure (.tuple (← subs "es"))
  | "dict" => pure (.dict (← (← jarr j "ks").mapM (·.getStr?)) (← subs "es"))
  | "sub" => pure (.sub (← sub "a") (← jint j "i").toNat)
  | "key" => pure (.key (← sub "a") (← jstr j "key"))
  | "fn" => pure (.fn (← jstr j "f") (← subs "args"))
  | other => throw s!"unknown query node {other}"

end FaxVerif.Linq
