/-
Cpp — the statement language the translator emits (DESIGN §3.1), one constructor per emitted
shape. The text of a generated per-event body is parsed into this AST by tools/cparse.py and
decoded in `Cpp/Json.lean`; the `Gen` model produces the same AST directly.
No Mathlib; everything computable.
-/
namespace FaxVerif.Cpp

inductive CExpr where
  | var (n : String)
  | int (v : Int)
  | dbl (text : String) (num : Int) (exp10 : Int)   -- literal text, value = num * 10^exp10
  | bool (b : Bool)
  | str (s : String)
  | un (op : String) (a : CExpr)                     -- "-", "+", "!"
  | bin (op : String) (a b : CExpr)                  -- + - * / % < <= > >= == != && ||
  | deref (a : CExpr)
  | mem (o : CExpr) (arrow : Bool) (name : String) (args : List CExpr)   -- o.name(args) / o->name(args)
  | call (f : String) (args : List CExpr)            -- std::pow(a,b), std::sin(x) …
  | cast (ty : String) (a : CExpr)
  | opaque (text : String)                           -- user-supplied / unrecognised fragment: no meaning
deriving Repr, Inhabited

inductive Stmt where
  | block (body : List Stmt)
  | loop (x : String) (coll : CExpr) (body : List Stmt)
  | ite (c : CExpr) (thn : List Stmt) (els : List Stmt)      -- no `else` = empty list
  | decl (ty : String) (n : String) (init : Option CExpr)
  | set (x : String) (e : CExpr)
  | push (x : String) (e : CExpr)
  | clear (x : String)
  | fill (tree : String)
  | throw (msg : String)
  | retrieve (how : String) (ty : String) (v : String) (bank : CExpr) (token : String)  -- ty: requested container type
  | line (text : String)                             -- anything else: no meaning
deriving Repr, Inhabited

/-- What the templates receive besides the body. -/
structure Package where
  body : Stmt
  classVars : List (String × String)                 -- (type, name) in declaration order
  branches : List (String × String)                  -- (branch name, variable) in booking order
  tree : String
  tokens : List (String × String × String)           -- miniAOD: (token, container type, bank)
deriving Repr, Inhabited

end FaxVerif.Cpp
