/-
Cpp.ParseSpec — the DECIDABLE well-formedness predicates under which the round-trip theorem
`parseLines (renderLines s) = some (eraseS s)` is proved (Cpp/ParseProofs.lean, C02/TheoremsParse.lean), evaluated by the
driver on the parser's output for every program of the tie stream (how much of the real output the theorem covers).
No Mathlib.
-/
import FaxVerif.Cpp.Parse
namespace FaxVerif.Cpp.Parse
open FaxVerif.Cpp

/-! ### equality test on expressions (`CExpr` is a nested inductive: no derived `DecidableEq`) -/

mutual
def beqE : CExpr → CExpr → Bool
  | .var a, .var b => a == b
  | .int a, .int b => a == b
  | .dbl t m e, .dbl t' m' e' => t == t' && m == m' && e == e'
  | .bool a, .bool b => a == b
  | .str a, .str b => a == b
  | .un o a, .un o' a' => o == o' && beqE a a'
  | .bin o a b, .bin o' a' b' => o == o' && beqE a a' && beqE b b'
  | .deref a, .deref a' => beqE a a'
  | .mem o ar n as, .mem o' ar' n' as' => beqE o o' && ar == ar' && n == n' && beqArgs as as'
  | .call f as, .call f' as' => f == f' && beqArgs as as'
  | .cast t a, .cast t' a' => t == t' && beqE a a'
  | .opaque a, .opaque b => a == b
  | _, _ => false
def beqArgs : List CExpr → List CExpr → Bool
  | [], [] => true
  | a :: r, b :: r' => beqE a b && beqArgs r r'
  | _, _ => false
end

/-! ### what the text cannot carry: the requested container type of a retrieve -/

mutual
def eraseS : Stmt → Stmt
  | .block b => .block (eraseL b)
  | .loop x c b => .loop x c (eraseL b)
  | .ite c t e => .ite c (eraseL t) (eraseL e)
  | .retrieve how _ v bank tok => .retrieve how "" v bank tok
  | .decl ty n i => .decl ty n i
  | .set x e => .set x e
  | .push x e => .push x e
  | .clear x => .clear x
  | .fill t => .fill t
  | .throw m => .throw m
  | .line t => .line t
def eraseL : List Stmt → List Stmt
  | [] => []
  | s :: r => eraseS s :: eraseL r
end

mutual
/-- no retrieve of the tree carries a requested container type (what the parser produces before `attachS`) -/
def tyFreeS : Stmt → Bool
  | .block b => tyFreeL b
  | .loop _ _ b => tyFreeL b
  | .ite _ t e => tyFreeL t && tyFreeL e
  | .retrieve _ ty _ _ _ => ty == ""
  | _ => true
def tyFreeL : List Stmt → Bool
  | [] => true
  | s :: r => tyFreeS s && tyFreeL r
end

/-! ### names, types, literals -/

def reserved : List Str := [cl!"throw", cl!"tree", cl!"myTree", cl!"ANA_CHECK", cl!"iEvent"]

/-- an identifier that is not the leading word of one of the fixed statement shapes -/
def nameOk (x : String) : Bool := isIdent x.toList && !reserved.contains x.toList

def identOk (x : String) : Bool := isIdent x.toList

/-- `\w+` -/
def wordOk (x : String) : Bool := x.toList != [] && x.toList.all isWord

/-- a type text the declaration pattern reads back unchanged -/
def typeOk (ty : String) : Bool :=
  let t := ty.toList
  typeRe t && normType t == t
    && !reserved.contains (t.takeWhile isWord)
    && !keywords.contains (t.takeWhile (fun c => !isWs c))
    && t.all (fun c => c != '(' && c != '=' && c != ';' && c != ')')
    && (match t.getLast? with | some c => !isWs c | none => false)
    && (match t.dropWhile isWord with | c :: _ => c != '.' | [] => true)

/-- the expression's text reads back as the expression (by evaluation), and does not begin with a blank -/
def exprOk (e : CExpr) : Bool :=
  beqE (parseExpr (renderE e)) e && (match renderE e with | c :: _ => !isWs c | [] => false)

/-- a tree name / message the printer can put between quotes as it is -/
def quotedOk (t : String) : Bool := t.toList.all (fun c => c != '"' && c != '\\')
def msgOk (m : String) : Bool := m.toList.all (fun c => c != '\\')

/-- a line of no recognised shape, as the parser keeps it -/
def lineOk (t : String) : Bool :=
  let l := t.toList
  l != [] && strip l == l && l != ['{'] && l != ['}'] && l != cl!"else"
    && (forHead l).isNone && (ifHead l).isNone
    && (specialLine l).isNone && (identLine l).isNone && (declLine l).isNone && (assignLine l).isNone

def leafOk : Stmt → Bool
  | .decl ty n none => typeOk ty && identOk n
  | .decl ty n (some e) => typeOk ty && identOk n && exprOk e
  | .set x e => nameOk x && exprOk e
  | .push x e => nameOk x && exprOk e
  | .clear x => nameOk x
  | .fill t => quotedOk t
  | .throw m => msgOk m
  | .retrieve how _ v bank tok =>
    wordOk v &&
      ((how == "atlas" && tok == "" && exprOk bank) || (how == "label" && tok == "" && exprOk bank)
        || (how == "token" && wordOk tok && beqE bank (.opaque "")))
  | .line t => lineOk t
  | _ => true

mutual
/-- hypothesis of the round-trip theorem -/
def StmtOk : Stmt → Bool
  | .block b => ListOk b
  | .loop x c b => identOk x && exprOk c && ListOk b
  | .ite c t e => exprOk c && ListOk t && ListOk e
  | .decl ty n i => leafOk (.decl ty n i)
  | .set x e => leafOk (.set x e)
  | .push x e => leafOk (.push x e)
  | .clear x => leafOk (.clear x)
  | .fill t => leafOk (.fill t)
  | .throw m => leafOk (.throw m)
  | .retrieve how ty v bank tok => leafOk (.retrieve how ty v bank tok)
  | .line t => leafOk (.line t)
def ListOk : List Stmt → Bool
  | [] => true
  | s :: r => StmtOk s && ListOk r
end

/-! ### the printer on tokens -/

mutual
/-- the tokens of `renderE e` -/
def toksE : CExpr → List Tok
  | .var n => [.id n.toList]
  | .int v => [.num (toString v).toList]
  | .dbl t _ _ => [.num t.toList]
  | .bool b => [.id (if b then cl!"true" else cl!"false")]
  | .str s => [.str s.toList]
  | .un op a => .op ['('] :: .op op.toList :: .op ['('] :: toksE a ++ [.op [')'], .op [')']]
  | .bin op a b => .op ['('] :: toksE a ++ .op op.toList :: toksE b ++ [.op [')']]
  | .deref a => .op ['*'] :: toksE a
  | .mem o arrow n args =>
    toksE o ++ .op (if arrow then cl!"->" else ['.']) :: .id n.toList :: .op ['('] :: toksArgs args ++ [.op [')']]
  | .call f args => .id f.toList :: .op ['('] :: toksArgs args ++ [.op [')']]
  | .cast t a => .id cl!"static_cast" :: .op ['<'] :: .id t.toList :: .op ['>'] :: .op ['('] :: toksE a ++ [.op [')']]
  | .opaque _ => []
def toksArgs : List CExpr → List Tok
  | [] => []
  | a :: r => toksE a ++ toksMore r
def toksMore : List CExpr → List Tok
  | [] => []
  | a :: r => .op [','] :: toksE a ++ toksMore r
end

/-- one of the thirteen binary operators -/
def binOpOk (o : Str) : Bool := (List.range 6).any (fun l => (opsAt l).contains o)

def postfixSafe : CExpr → Bool
  | .deref _ => false
  | .opaque _ => false
  | _ => true

def plainIdB (v : Str) : Bool := v != cl!"true" && v != cl!"false" && v != cl!"static_cast"

mutual
/-- the expressions whose token sequence reads back (decidable) -/
def wfT : CExpr → Bool
  | .var n => plainIdB n.toList
  | .int v => beqE (numLit (toString v).toList) (.int v)
  | .dbl t m e => beqE (numLit t.toList) (.dbl t m e)
  | .bool _ => true
  | .str s => s.toList.all (fun c => c != '\\')
  | .un op a => (op == "-" || op == "+" || op == "!") && wfT a
  | .bin op a b => binOpOk op.toList && wfT a && wfT b
  | .deref a => wfT a
  | .mem o _ _ args => postfixSafe o && wfT o && wfTArgs args
  | .call f args => plainIdB f.toList && wfTArgs args
  | .cast t a => (castType [t.toList] == t.toList) && wfT a
  | .opaque _ => false
def wfTArgs : List CExpr → Bool
  | [] => true
  | a :: r => wfT a && wfTArgs r
end


/-! ### names and numerals that are one token (decidable: the tokenizer is run on the atom alone) -/

/-- `[A-Za-z_]\w*(::[A-Za-z_]\w*)*` -/
def idTokOk (n : Str) : Bool :=
  match n with
  | c :: r => isIdStart c && (lexOne c r == some (.id n, []))
  | [] => false

/-- a numeral of the tokenizer's shape -/
def numTokOk (t : Str) : Bool :=
  match t with
  | c :: r => lexNum c r == some (t, [])
  | [] => false

/-- the printed text ends with a numeral -/
def endsNum : CExpr → Bool
  | .int _ => true
  | .dbl _ _ _ => true
  | .deref a => endsNum a
  | _ => false

mutual
/-- the names and literals of the expression are single tokens (with `wfT`: the hypothesis of `lex_render`) -/
def wfL : CExpr → Bool
  | .var n => idTokOk n.toList
  | .int v => numTokOk (toString v).toList
  | .dbl t _ _ => numTokOk t.toList
  | .bool _ => true
  | .str s => quotedOk s
  | .un _ a => wfL a
  | .bin _ a b => wfL a && wfL b
  | .deref a => wfL a
  | .mem o _ n args => !endsNum o && wfL o && idTokOk n.toList && wfLArgs args
  | .call f args => idTokOk f.toList && wfLArgs args
  | .cast t a => idTokOk t.toList && wfL a
  | .opaque _ => false
def wfLArgs : List CExpr → Bool
  | [] => true
  | a :: r => wfL a && wfLArgs r
end

/-- the text of the arguments after the first: `, b, c` -/
def renderMore : List CExpr → Str
  | [] => []
  | b :: r => cl!", " ++ renderE b ++ renderMore r

/-! ### the purely syntactic hypothesis of `parse_render` (C02/TheoremsParseExpr.lean) -/

/-- precedence-safe shape (`wfT`) and single-token names / numerals (`wfL`) -/
def exprWf (e : CExpr) : Bool := wfT e && wfL e

def leafWf : Stmt → Bool
  | .decl ty n none => typeOk ty && identOk n
  | .decl ty n (some e) => typeOk ty && identOk n && exprWf e
  | .set x e => nameOk x && exprWf e
  | .push x e => nameOk x && exprWf e
  | .clear x => nameOk x
  | .fill t => quotedOk t
  | .throw m => msgOk m
  | .retrieve how _ v bank tok =>
    wordOk v &&
      ((how == "atlas" && tok == "" && exprWf bank) || (how == "label" && tok == "" && exprWf bank)
        || (how == "token" && wordOk tok && beqE bank (.opaque "")))
  | .line t => lineOk t
  | _ => true

mutual
/-- `StmtOk` with the evaluated expression hypothesis `exprOk` replaced by the syntactic `exprWf` -/
def StmtWf : Stmt → Bool
  | .block b => ListWf b
  | .loop x c b => identOk x && exprWf c && ListWf b
  | .ite c t e => exprWf c && ListWf t && ListWf e
  | .decl ty n i => leafWf (.decl ty n i)
  | .set x e => leafWf (.set x e)
  | .push x e => leafWf (.push x e)
  | .clear x => leafWf (.clear x)
  | .fill t => leafWf (.fill t)
  | .throw m => leafWf (.throw m)
  | .retrieve how ty v bank tok => leafWf (.retrieve how ty v bank tok)
  | .line t => leafWf (.line t)
def ListWf : List Stmt → Bool
  | [] => true
  | s :: r => StmtWf s && ListWf r
end

/-- the tokenizer splits the printed expression into the printer's tokens (decidable; by evaluation) -/
def lexOk (e : CExpr) : Bool := tokenize (renderE e) == some (toksE e)

/-! ### how much of a tree the expression-level theorems cover (driver statistics) -/

def exprsOfLeaf : Stmt → List CExpr
  | .decl _ _ (some e) => [e]
  | .set _ e => [e]
  | .push _ e => [e]
  | .retrieve how _ _ bank _ => if how == "token" then [] else [bank]
  | _ => []

mutual
def exprsOfS : Stmt → List CExpr
  | .block b => exprsOfL b
  | .loop _ c b => c :: exprsOfL b
  | .ite c t e => c :: exprsOfL t ++ exprsOfL e
  | .decl ty n i => exprsOfLeaf (.decl ty n i)
  | .set x e => exprsOfLeaf (.set x e)
  | .push x e => exprsOfLeaf (.push x e)
  | .retrieve how ty v bank tok => exprsOfLeaf (.retrieve how ty v bank tok)
  | _ => []
def exprsOfL : List Stmt → List CExpr
  | [] => []
  | s :: r => exprsOfS s ++ exprsOfL r
end

end FaxVerif.Cpp.Parse
