/-
Cpp — static checkers that run on the implementation's own (parsed) output.

`da` is a definite-assignment analysis: it tracks the set `D` of declared names and the set `A ⊆ D`
of names that are known to hold a defined value. It accepts a statement only if every read is of
a name in `A`, every write is to a name in `D`, no initialised name is re-declared, and nothing
opaque occurs. Two theorems are proved about it in `CheckSound.lean`:
  * no accepted program can hit the fault `unbound` (C02: declared before use, initialised before read);
  * the outcome of an accepted program does not depend on anything outside `A` (C05: what an
    event writes is a function of the event alone).
`emp` tracks which vector columns are known to be empty (C05: cleared after every fill).
Computable, no Mathlib.
-/
import FaxVerif.Cpp.Run
namespace FaxVerif.Cpp

mutual
  def vars : CExpr → List String
    | .var n => [n]
    | .int _ => []
    | .dbl _ _ _ => []
    | .bool _ => []
    | .str _ => []
    | .un _ a => vars a
    | .bin _ a b => vars a ++ vars b
    | .deref a => vars a
    | .mem o _ _ args => vars o ++ varsL args
    | .call _ args => varsL args
    | .cast _ a => vars a
    | .opaque _ => []
  def varsL : List CExpr → List String
    | [] => []
    | e :: es => vars e ++ varsL es
end

mutual
  /-- no opaque fragment inside -/
  def clean : CExpr → Bool
    | .un _ a => clean a
    | .bin _ a b => clean a && clean b
    | .deref a => clean a
    | .mem o _ _ args => clean o && cleanL args
    | .call _ args => cleanL args
    | .cast _ a => clean a
    | .opaque _ => false
    | _ => true
  def cleanL : List CExpr → Bool
    | [] => true
    | e :: es => clean e && cleanL es
end

def subset (xs ys : List String) : Bool := xs.all (· ∈ ys)

def inter (xs ys : List String) : List String := xs.filter (· ∈ ys)

/-- analysis state: declared names, definitely initialised names -/
structure DA where
  D : List String
  A : List String
deriving Repr, DecidableEq

def okE (s : DA) (e : CExpr) : Bool := clean e && subset (vars e) s.A

structure DACtx where
  cols : List String       -- branch variables read by `fill`
  tokens : List String     -- miniAOD token names (class level, initialised at booking time)

def retrOk (C : DACtx) (s : DA) (how : String) (bank : CExpr) (token : String) : Bool :=
  if how = "token" then decide (token ∈ C.tokens) else okE s bank

mutual
  def da (C : DACtx) : Stmt → DA → Option DA
    | .block body, s =>
      -- names declared inside go out of scope at the closing brace
      match das C body s with
      | some s' => some { D := s.D, A := s'.A.filter (· ∈ s.D) }
      | none => none
    | .loop x coll body, s =>
      if okE s coll && !(x ∈ s.D) then
        match das C body { D := x :: s.D, A := x :: s.A } with
        | some _ => some s
        | none => none
      else none
    | .ite c thn els, s =>
      if okE s c then
        match das C thn s with
        | none => none
        | some st =>
          match das C els s with
          | none => none
          | some se => some { D := s.D, A := (inter st.A se.A).filter (· ∈ s.D) }
      else none
    | .decl ty n init, s =>
      if n ∈ s.D then none
      else match init with
        | some e => if okE s e then some { D := n :: s.D, A := n :: s.A } else none
        | none => if isVecType ty then some { D := n :: s.D, A := n :: s.A } else some { D := n :: s.D, A := s.A }
    | .set x e, s => if x ∈ s.D && okE s e then some { s with A := x :: s.A } else none
    | .push x e, s => if x ∈ s.A && okE s e then some s else none
    | .clear x, s => if x ∈ s.A then some s else none
    | .fill _, s => if subset C.cols s.A then some s else none
    | .throw _, s => some s
    | .retrieve how _ v bank token, s =>
      if v ∈ s.D && retrOk C s how bank token then some { s with A := v :: s.A } else none
    | .line _, _ => none
  def das (C : DACtx) : List Stmt → DA → Option DA
    | [], s => some s
    | st :: rest, s => match da C st s with
      | some s' => das C rest s'
      | none => none
end

/-- Names declared by class-level declarations: all are declared; vector columns are known to
be (empty, hence) initialised — `EventLocal` is what justifies that at every event start. -/
def classDA (vars : List (String × String)) : DA :=
  { D := vars.map (·.2), A := (vars.filter fun p => isVecType p.1).map (·.2) }

def Package.daCtx (P : Package) : DACtx :=
  { cols := P.branches.map (·.2), tokens := P.tokens.map (·.1) }

/-- C02 (static part): every identifier is declared before use in the flat scope discipline
described above, initialised before it is read, nothing is declared twice on a path. -/
def WellFormed (P : Package) : Bool :=
  (da P.daCtx P.body (classDA P.classVars)).isSome &&
  (P.classVars.map (·.2)).Nodup &&
  (P.branches.all fun b => (P.classVars.map (·.2)).contains b.2)

/-! ### emptiness of vector columns -/

-- `E` = vector names known to be empty.
mutual
  def emp : Stmt → List String → Option (List String)
    | .block body, E => emps body E
    | .loop x _ body, E =>
      -- the state at the loop head must be invariant: whatever the body may leave non-empty is
      -- removed first, then the body must preserve what is left
      let E0 := E.filter (· ≠ x)
      match emps body E0 with
      | none => none
      | some E1 =>
        let inv := inter E0 E1
        match emps body inv with
        | none => none
        | some E2 => if subset inv E2 then some inv else none
    | .ite _ thn els, E =>
      match emps thn E with
      | none => none
      | some Et => match emps els E with
        | none => none
        | some Ee => some (inter Et Ee)
    | .decl ty n init, E => some (if isVecType ty && init.isNone then n :: E else E.filter (· ≠ n))
    | .set x _, E => some (E.filter (· ≠ x))
    | .push x _, E => some (E.filter (· ≠ x))
    | .clear x, E => some (x :: E)
    | .fill _, E => some E
    | .throw _, E => some E
    | .retrieve _ _ v _ _, E => some (E.filter (· ≠ v))
    | .line _, _ => none
  def emps : List Stmt → List String → Option (List String)
    | [], E => some E
    | st :: rest, E => match emp st E with
      | some E' => emps rest E'
      | none => none
end

/-! ### generated names are declared exactly once in the whole package -/

mutual
  def declNames : Stmt → List String
    | .block body => declNamesL body
    | .loop x _ body => x :: declNamesL body
    | .ite _ thn els => declNamesL thn ++ declNamesL els
    | .decl _ n _ => [n]
    | _ => []
  def declNamesL : List Stmt → List String
    | [] => []
    | s :: ss => declNames s ++ declNamesL ss
end

/-- C02: every identifier the translator introduces is declared exactly once (the retrieval
blocks' fixed local `result` is the one name that recurs, always in its own block). -/
def UniqueNames (P : Package) : Bool :=
  ((declNames P.body ++ P.classVars.map (·.2)).filter (· ≠ "result")).Nodup

def vecCols (P : Package) : List String := (P.classVars.filter fun p => isVecType p.1).map (·.2)

/-- C05 (static part): the per-event body reads nothing it has not written in the same event
(apart from vector columns, which it finds empty), and it leaves every vector column empty. -/
def EventLocal (P : Package) : Bool :=
  WellFormed P &&
  match emp P.body (vecCols P) with
  | some E => subset (vecCols P) E
  | none => false

end FaxVerif.Cpp
