/-
Cpp — static checkers that run on the implementation's own (parsed) output.

`da` is a definite-assignment analysis: it tracks the set `D` of declared names and the set `A ⊆ D`
of names that are known to hold a defined value. It accepts a statement only if every read is of
a name in `A`, every write is to a name in `D`, no initialised name is re-declared, and nothing
opaque occurs. Two theorems are proved about it in `CheckSound.lean`:
  * no accepted program can hit the fault `unbound` (C02: declared before use, initialised before read);
  * the outcome of an accepted program does not depend on anything outside `A` (C05: what an
    event writes is a function of the event alone).
`emp` tracks which vector columns are known to be empty (C05: cleared after every fill).
Computable, no Mathlib.
-/
import FaxVerif.Cpp.Run
namespace FaxVerif.Cpp

mutual
  def vars : CExpr → List String
    | .var n => [n]
    | .int _ => []
    | .dbl _ _ _ => []
    | .bool _ => []
    | .str _ => []
    | .un _ a => vars a
    | .bin _ a b => vars a ++ vars b
    | .deref a => vars a
    | .mem o _ _ args => vars o ++ varsL args
    | .call _ args => varsL args
    | .cast _ a => vars a
    | .opaque _ => []
  def varsL : List CExpr → List String
    | [] => []
    | e :: es => vars e ++ varsL es
end

mutual
  /-- no opaque fragment inside -/
  def clean : CExpr → Bool
    | .un _ a => clean a
    | .bin _ a b => clean a && clean b
    | .deref a => clean a
    | .mem o _ _ args => clean o && cleanL args
    | .call _ args => cleanL args
    | .cast _ a => clean a
    | .opaque _ => false
    | _ => true
  def cleanL : List CExpr → Bool
    | [] => true
    | e :: es => clean e && cleanL es
end

def subset (xs ys : List String) : Bool := xs.all (· ∈ ys)

def inter (xs ys : List String) : List String := xs.filter (· ∈ ys)

/-- analysis state: declared names `D`, definitely initialised names `A ⊆ D`, flags known to hold
`true` (`T`), and guard facts `G`: `(f, x) ∈ G` means "if `f` holds a false value then `x` is
initialised". The facts make the analysis path-sensitive enough for the `First()` idiom
(`bool is_first (true); for … { if (is_first) { is_first = false; x = v; } } if (is_first) throw …;`):
after the emptiness check has fallen through, `x` is known to be initialised. -/
structure DA where
  D : List String
  A : List String
  T : List String := []
  G : List (String × String) := []
deriving Repr, DecidableEq

def okE (s : DA) (e : CExpr) : Bool := clean e && subset (vars e) s.A

/-- the fact `p` is known to hold in analysis state `s` (listed, or trivially true) -/
def DA.eff (s : DA) (p : String × String) : Bool :=
  decide (p ∈ s.G) || decide (p.2 ∈ s.A) || decide (p.1 ∈ s.T)

/-- `x` receives a (new) defined value -/
def DA.assign (s : DA) (x : String) : DA :=
  { D := s.D, A := x :: s.A, T := s.T.filter (· != x),
    G := s.G.filter fun p => p.1 != x || decide (p.2 ∈ x :: s.A) }

/-- forget everything about a name that is being declared -/
def DA.fresh (s : DA) (n : String) : DA :=
  { s with T := s.T.filter (· != n), G := s.G.filter fun p => p.1 != n && p.2 != n }

def inD (D0 : List String) (p : String × String) : Bool := decide (p.1 ∈ D0) && decide (p.2 ∈ D0)

/-- leave a scope: only the names of `D0` remain -/
def DA.restrict (s : DA) (D0 : List String) : DA :=
  { D := D0, A := s.A.filter (· ∈ D0), T := s.T.filter (· ∈ D0), G := s.G.filter (inD D0) }

/-- what holds after either branch -/
def DA.join (D0 : List String) (st se : DA) : DA :=
  { D := D0, A := (inter st.A se.A).filter (· ∈ D0), T := (inter st.T se.T).filter (· ∈ D0),
    G := ((st.G.filter se.eff) ++ (se.G.filter st.eff)).filter (inD D0) }

/-- the condition `c` evaluated to false: the targets of the facts guarded by `c` are initialised -/
def DA.knowFalse (s : DA) : CExpr → DA
  | .var f => { s with A := (((s.G.filter fun p => p.1 == f).map (·.2)).filter (· ∈ s.D)) ++ s.A }
  | _ => s

def isTrueLit : CExpr → Bool
  | .bool true => true
  | _ => false

def isThrow : List Stmt → Bool
  | [.throw _] => true
  | _ => false

structure DACtx where
  cols : List String       -- branch variables read by `fill`
  tokens : List String     -- miniAOD token names (class level, initialised at booking time)

def retrOk (C : DACtx) (s : DA) (how : String) (bank : CExpr) (token : String) : Bool :=
  if how = "token" then decide (token ∈ C.tokens) else okE s bank

/-- state at a loop head: the loop variable is declared and initialised, no flag is known true
(the body may have run), the candidate facts `G` are assumed -/
def loopHead (s : DA) (x : String) (G : List (String × String)) : DA :=
  { D := x :: s.D, A := x :: s.A, T := [], G := G }

/-- candidate loop invariant: the facts known before the loop (explicitly, or through a flag that
is still `true`), about names of the enclosing scope -/
def loopCand (s : DA) : List (String × String) :=
  (s.G ++ s.T.flatMap fun f => s.D.map fun y => (f, y)).filter (inD s.D)

mutual
  def da (C : DACtx) : Stmt → DA → Option DA
    | .block body, s =>
      -- names declared inside go out of scope at the closing brace
      match das C body s with
      | some s' => some (s'.restrict s.D)
      | none => none
    | .loop x coll body, s =>
      if okE s coll && !(x ∈ s.D) then
        match das C body (loopHead s x (loopCand s)) with
        | none => none
        | some sb1 =>
          -- keep the facts the body preserves, and check that they are an invariant
          let inv := (loopCand s).filter sb1.eff
          match das C body (loopHead s x inv) with
          | none => none
          | some sb2 => if inv.all sb2.eff then some { s with T := [], G := inv } else none
      else none
    | .ite c thn els, s =>
      if okE s c then
        match das C thn s with
        | none => none
        | some st =>
          match das C els (s.knowFalse c) with
          | none => none
          | some se => if isThrow thn then some (se.restrict s.D) else some (DA.join s.D st se)
      else none
    | .decl ty n init, s =>
      if n ∈ s.D then none
      else match init with
        | some e =>
          if okE s e then
            some { D := n :: s.D, A := n :: s.A,
                   T := if ty = "bool" ∧ isTrueLit e = true then n :: (s.fresh n).T else (s.fresh n).T, G := (s.fresh n).G }
          else none
        | none =>
          if isVecType ty then some { D := n :: s.D, A := n :: s.A, T := (s.fresh n).T, G := (s.fresh n).G }
          else some { D := n :: s.D, A := s.A, T := (s.fresh n).T, G := (s.fresh n).G }
    | .set x e, s => if x ∈ s.D && okE s e then some (s.assign x) else none
    | .push x e, s => if x ∈ s.A && okE s e then some (s.assign x) else none
    | .clear x, s => if x ∈ s.A then some (s.assign x) else none
    | .fill _, s => if subset C.cols s.A then some s else none
    | .throw _, s => some s
    | .retrieve how _ v bank token, s =>
      if v ∈ s.D && retrOk C s how bank token then some (s.assign v) else none
    | .line _, _ => none
  def das (C : DACtx) : List Stmt → DA → Option DA
    | [], s => some s
    | st :: rest, s => match da C st s with
      | some s' => das C rest s'
      | none => none
end

/-- Names declared by class-level declarations: all are declared; vector columns are known to
be (empty, hence) initialised — `EventLocal` is what justifies that at every event start. -/
def classDA (vars : List (String × String)) : DA :=
  { D := vars.map (·.2), A := (vars.filter fun p => isVecType p.1).map (·.2) }

def Package.daCtx (P : Package) : DACtx :=
  { cols := P.branches.map (·.2), tokens := P.tokens.map (·.1) }

/-- C02 (static part): every identifier is declared before use in the flat scope discipline
described above, initialised before it is read, nothing is declared twice on a path. -/
def WellFormed (P : Package) : Bool :=
  (da P.daCtx P.body (classDA P.classVars)).isSome &&
  (P.classVars.map (·.2)).Nodup &&
  (P.branches.all fun b => (P.classVars.map (·.2)).contains b.2)

/-! ### emptiness of vector columns -/

-- `E` = vector names known to be empty.
mutual
  def emp : Stmt → List String → Option (List String)
    | .block body, E => emps body E
    | .loop x _ body, E =>
      -- the state at the loop head must be invariant: whatever the body may leave non-empty is
      -- removed first, then the body must preserve what is left
      let E0 := E.filter (· ≠ x)
      match emps body E0 with
      | none => none
      | some E1 =>
        let inv := inter E0 E1
        match emps body inv with
        | none => none
        | some E2 => if subset inv E2 then some inv else none
    | .ite _ thn els, E =>
      match emps thn E with
      | none => none
      | some Et => match emps els E with
        | none => none
        | some Ee => some (inter Et Ee)
    | .decl ty n init, E => some (if isVecType ty && init.isNone then n :: E else E.filter (· ≠ n))
    | .set x _, E => some (E.filter (· ≠ x))
    | .push x _, E => some (E.filter (· ≠ x))
    | .clear x, E => some (x :: E)
    | .fill _, E => some E
    | .throw _, E => some E
    | .retrieve _ _ v _ _, E => some (E.filter (· ≠ v))
    | .line _, _ => none
  def emps : List Stmt → List String → Option (List String)
    | [], E => some E
    | st :: rest, E => match emp st E with
      | some E' => emps rest E'
      | none => none
end

/-! ### generated names are declared exactly once in the whole package -/

mutual
  def declNames : Stmt → List String
    | .block body => declNamesL body
    | .loop x _ body => x :: declNamesL body
    | .ite _ thn els => declNamesL thn ++ declNamesL els
    | .decl _ n _ => [n]
    | _ => []
  def declNamesL : List Stmt → List String
    | [] => []
    | s :: ss => declNames s ++ declNamesL ss
end

/-- C02: every identifier the translator introduces is declared exactly once (the retrieval
blocks' fixed local `result` is the one name that recurs, always in its own block). -/
def UniqueNames (P : Package) : Bool :=
  ((declNames P.body ++ P.classVars.map (·.2)).filter (· ≠ "result")).Nodup

def vecCols (P : Package) : List String := (P.classVars.filter fun p => isVecType p.1).map (·.2)

/-- C05 (static part): the per-event body reads nothing it has not written in the same event
(apart from vector columns, which it finds empty), and it leaves every vector column empty. -/
def EventLocal (P : Package) : Bool :=
  WellFormed P &&
  match emp P.body (vecCols P) with
  | some E => subset (vecCols P) E
  | none => false

end FaxVerif.Cpp
