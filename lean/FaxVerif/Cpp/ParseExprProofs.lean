/-
Cpp.ParseExprProofs — the expression parser reads the printer's fully parenthesised output back, at the level of
TOKENS: `toksE e` is the token sequence of `renderE e`; for every expression satisfying the decidable predicate `wfT`
the precedence-climbing parser returns `e` on `toksE e` (C02/TheoremsParseExpr.lean). Fuel: every lemma is stated for all
fuels above `12 * (number of tokens)` minus a small offset, which `exprFuel` exceeds.
-/
import FaxVerif.Cpp.ParseExprUnfold
import FaxVerif.Cpp.ParseProofs
namespace FaxVerif.Cpp.Parse
open FaxVerif.Cpp

def lvlOf (o : Str) : Option Nat :=
  if o = cl!"||" then some 0 else if o = cl!"&&" then some 1
  else if o = cl!"==" ∨ o = cl!"!=" then some 2
  else if o = cl!"<" ∨ o = cl!"<=" ∨ o = cl!">" ∨ o = cl!">=" then some 3
  else if o = cl!"+" ∨ o = cl!"-" then some 4
  else if o = cl!"*" ∨ o = cl!"/" ∨ o = cl!"%" then some 5
  else none

theorem opsAt_facts (o : Str) (L : Nat) (ho : o ∈ opsAt L) :
    L ≤ 5 ∧ (∀ l, o ∈ opsAt l → l = L) ∧ o ≠ ['('] ∧ o ≠ ['.'] ∧ o ≠ cl!"->" ∧ o ≠ ['['] := by
  have key : ∀ l, o ∈ opsAt l → l ≤ 5 ∧ lvlOf o = some l := by
    intro l hl
    rcases l with _ | _ | _ | _ | _ | _ | l
    all_goals simp only [opsAt, List.mem_cons, List.not_mem_nil, or_false] at hl
    all_goals first
      | (rcases hl with hl | hl | hl | hl <;> subst hl <;> exact ⟨by omega, by decide⟩)
      | (rcases hl with hl | hl | hl <;> subst hl <;> exact ⟨by omega, by decide⟩)
      | (rcases hl with hl | hl <;> subst hl <;> exact ⟨by omega, by decide⟩)
      | (subst hl; exact ⟨by omega, by decide⟩)
      | exact absurd hl (by simp)
  refine ⟨(key L ho).1, ?_, ?_, ?_, ?_, ?_⟩
  · intro l hl
    have h1 := (key l hl).2
    have h2 := (key L ho).2
    rw [h1] at h2
    exact Option.some.inj h2
  all_goals (intro e; subst e; have h2 := (key L ho).2; simp [lvlOf] at h2)


theorem binOpOk_spec (o : Str) (h : binOpOk o = true) : ∃ L, o ∈ opsAt L := by
  simp only [binOpOk, List.any_eq_true, List.contains_eq_mem, decide_eq_true_eq] at h
  obtain ⟨l, _, hl⟩ := h
  exact ⟨l, hl⟩

/-- what may follow an expression parsed at level `lvl`: no opening parenthesis, no postfix continuation, no binary
operator of that level or a tighter one -/
def stopAt (lvl : Nat) (rest : List Tok) : Prop :=
  ∀ o r, rest = .op o :: r → o ≠ ['('] ∧ o ≠ ['.'] ∧ o ≠ cl!"->" ∧ o ≠ ['['] ∧ ∀ l, lvl ≤ l → o ∉ opsAt l

theorem stopAt_close (lvl : Nat) (r : List Tok) : stopAt lvl (.op [')'] :: r) := by
  intro o r' h
  injection h with h1 h2
  injection h1 with h1
  subst h1
  refine ⟨by decide, by decide, by decide, by decide, ?_⟩
  intro l _ hm
  have := (opsAt_facts _ l hm)
  rcases l with _ | _ | _ | _ | _ | _ | l <;> simp [opsAt] at hm

theorem stopAt_comma (lvl : Nat) (r : List Tok) : stopAt lvl (.op [','] :: r) := by
  intro o r' h
  injection h with h1 h2
  injection h1 with h1
  subst h1
  refine ⟨by decide, by decide, by decide, by decide, ?_⟩
  intro l _ hm
  rcases l with _ | _ | _ | _ | _ | _ | l <;> simp [opsAt] at hm

theorem stopAt_nil (lvl : Nat) : stopAt lvl [] := by
  intro o r h; cases h

theorem stopAt_mono {lvl lvl' : Nat} {rest : List Tok} (h : stopAt lvl rest) (hl : lvl ≤ lvl') : stopAt lvl' rest := by
  intro o r e
  obtain ⟨a1, a2, a3, a4, a5⟩ := h o r e
  exact ⟨a1, a2, a3, a4, fun l hl' => a5 l (by omega)⟩

theorem stopAt_postStop {lvl : Nat} {rest : List Tok} (h : stopAt lvl rest) : postStop rest := by
  intro o r e
  obtain ⟨_, a2, a3, a4, _⟩ := h o r e
  exact ⟨a2, a3, a4⟩

/-- from a level to the looser ones: the loops above find nothing to do -/
theorem lift_level (ts : List Tok) (e : CExpr) (rest : List Tok) (L f0 : Nat) (hL : L ≤ 6)
    (h0 : pLevel f0 L ts = some (e, rest)) (k : Nat) (hk : k ≤ L) (hs : stopAt (L - k) rest) :
    pLevel (f0 + k) (L - k) ts = some (e, rest) := by
  induction k with
  | zero => simpa using h0
  | succ k ih =>
    have ih' := ih (by omega) (stopAt_mono hs (by omega))
    have e1 : L - (k + 1) + 1 = L - k := by omega
    have hstep := pLevel_step (f0 + k) (L - (k + 1)) ts e rest (by omega) (by rw [e1]; exact ih')
    rw [show f0 + (k + 1) = f0 + k + 1 by omega, hstep]
    obtain ⟨f1, hf1⟩ : ∃ f1, f0 + k = f1 + 1 := by
      cases hf : f0 + k with
      | zero => rw [hf] at ih'; simp [pLevel] at ih'
      | succ f1 => exact ⟨f1, rfl⟩
    rw [hf1]
    exact pLoop_stop f1 _ e rest (fun o r er => (hs o r er).2.2.2.2 _ (by omega))

/-- from the unary level to any level -/
theorem lift_unary (ts : List Tok) (e : CExpr) (rest : List Tok) (f0 lvl : Nat) (hl : lvl ≤ 6)
    (h0 : pUnary f0 ts = some (e, rest)) (hs : stopAt lvl rest) :
    pLevel (f0 + 1 + (6 - lvl)) lvl ts = some (e, rest) := by
  have h6 : pLevel (f0 + 1) 6 ts = some (e, rest) := by rw [pLevel_top f0 6 ts (by omega)]; exact h0
  have := lift_level ts e rest 6 (f0 + 1) (by omega) h6 (6 - lvl) (by omega) (by rw [show 6 - (6 - lvl) = lvl by omega]; exact hs)
  rw [show 6 - (6 - lvl) = lvl by omega] at this
  exact this


def noParen (rest : List Tok) : Prop := ∀ o r, rest = .op o :: r → o ≠ ['(']

theorem stopAt_noParen {lvl : Nat} {rest : List Tok} (h : stopAt lvl rest) : noParen rest :=
  fun o r e => (h o r e).1

theorem pUnary_prim' (f : Nat) (ts : List Tok) (h : primStart ts) :
    pUnary (f + 1) ts = (pPrimary f ts).bind (fun p => pPostfix f p.1 p.2) := by
  cases hp : pPrimary f ts with
  | none =>
    cases ts with
    | nil => simp [pUnary, hp]
    | cons t r0 =>
      cases t with
      | op o =>
        obtain ⟨a1, a2, a3, a4, a5⟩ := h o r0 rfl
        simp [pUnary, a1, a2, a3, a4, a5, hp]
      | _ => simp [pUnary, hp]
  | some p => simpa using pUnary_prim f ts p.1 p.2 h hp

/-- the first token of a printed expression -/
theorem toksE_head (e : CExpr) (h : wfT e = true) :
    ∃ t r, toksE e = t :: r ∧ t ≠ .op [')'] ∧ (postfixSafe e = true → ∀ o, t = .op o → o = ['(']) := by
  induction e using CExpr.rec (motive_2 := fun _ => True) with
  | var n => exact ⟨_, _, rfl, by simp, by simp⟩
  | int v => exact ⟨_, _, rfl, by simp, by simp⟩
  | dbl t m e => exact ⟨_, _, rfl, by simp, by simp⟩
  | bool b => exact ⟨_, _, rfl, by simp, by simp⟩
  | str s => exact ⟨_, _, rfl, by simp, by simp⟩
  | un op a _ => exact ⟨_, _, rfl, by simp, by simp⟩
  | bin op a b _ _ => exact ⟨_, _, rfl, by simp, by simp⟩
  | deref a _ => exact ⟨_, _, rfl, by simp, by simp [postfixSafe]⟩
  | mem o ar n args ih _ =>
    simp only [wfT, Bool.and_eq_true] at h
    obtain ⟨t, r, hr, h1, h2⟩ := ih h.1.2
    exact ⟨t, _, by simp only [toksE, hr]; rfl, h1, fun _ => h2 h.1.1⟩
  | call f args _ => exact ⟨_, _, rfl, by simp, by simp⟩
  | cast t a _ => exact ⟨_, _, rfl, by simp, by simp⟩
  | «opaque» t => simp [wfT] at h
  | nil => trivial
  | cons a as _ _ => trivial

/-- a parenthesised group, given the parse of its content at the unary level -/
theorem paren_group (g : Nat) (ts : List Tok) (a : CExpr) (rest' : List Tok)
    (hU : pUnary g (ts ++ .op [')'] :: rest') = some (a, .op [')'] :: rest')) :
    pPrimary (g + 8) (.op ['('] :: (ts ++ .op [')'] :: rest')) = some (a, rest') := by
  have := lift_unary _ a _ g 0 (by omega) hU (stopAt_close 0 rest')
  exact pPrimary_paren (g + 7) a _ rest' (by simpa using this)

theorem toksMore_stop (l : List CExpr) (rest : List Tok) : stopAt 0 (toksMore l ++ .op [')'] :: rest) := by
  cases l with
  | nil => simpa [toksMore] using stopAt_close 0 rest
  | cons b r => simpa [toksMore] using stopAt_comma 0 (toksE b ++ (toksMore r ++ .op [')'] :: rest))


set_option maxHeartbeats 400000

/-- (A) for a postfix-safe expression the primary + postfix loop over its tokens continues the loop after it;
    (B) the unary level reads the expression back -/
def Main (e : CExpr) : Prop :=
  (postfixSafe e = true → ∀ (G f : Nat) (rest : List Tok) (res : CExpr × List Tok), noParen rest →
     (∀ g, G ≤ g → pPostfix g e rest = some res) → 12 * (toksE e).length ≤ f + 11 → G + (toksE e).length ≤ f + 1 →
     (pPrimary f (toksE e ++ rest)).bind (fun p => pPostfix f p.1 p.2) = some res)
  ∧ (∀ (f : Nat) (rest : List Tok), 12 * (toksE e).length ≤ f + 10 → postStop rest → noParen rest →
       pUnary f (toksE e ++ rest) = some (e, rest))

/-- (B) from (A) -/
theorem main_B_of_A (e : CExpr) (h : wfT e = true) (hs : postfixSafe e = true)
    (hA : ∀ (G f : Nat) (rest : List Tok) (res : CExpr × List Tok), noParen rest →
     (∀ g, G ≤ g → pPostfix g e rest = some res) → 12 * (toksE e).length ≤ f + 11 → G + (toksE e).length ≤ f + 1 →
     (pPrimary f (toksE e ++ rest)).bind (fun p => pPostfix f p.1 p.2) = some res) :
    ∀ (f : Nat) (rest : List Tok), 12 * (toksE e).length ≤ f + 10 → postStop rest → noParen rest →
       pUnary f (toksE e ++ rest) = some (e, rest) := by
  intro f rest hf hps hnp
  obtain ⟨t, r, hr, _, hfirst⟩ := toksE_head e h
  have hT : 1 ≤ (toksE e).length := by simp [hr]
  obtain ⟨f', rfl⟩ : ∃ f', f = f' + 1 := ⟨f - 1, by omega⟩
  have hstart : primStart (toksE e ++ rest) := by
    intro o r0 e0
    rw [hr] at e0
    injection e0 with e1 _
    have := hfirst hs o e1
    subst this
    exact ⟨by decide, by decide, by decide, by decide, by decide⟩
  rw [pUnary_prim' f' _ hstart]
  refine hA 1 f' rest (e, rest) hnp ?_ (by omega) (by omega)
  intro g hg
  obtain ⟨g', rfl⟩ : ∃ g', g = g' + 1 := ⟨g - 1, by omega⟩
  exact pPostfix_stop g' e rest hps

/-- (A) for an expression the primary level reads back as a whole -/
theorem main_A_of_prim (e : CExpr) (hT : 1 ≤ (toksE e).length)
    (hP : ∀ (f : Nat) (rest : List Tok), noParen rest → 12 * (toksE e).length ≤ f + 11 →
      pPrimary f (toksE e ++ rest) = some (e, rest)) :
    ∀ (G f : Nat) (rest : List Tok) (res : CExpr × List Tok), noParen rest →
     (∀ g, G ≤ g → pPostfix g e rest = some res) → 12 * (toksE e).length ≤ f + 11 → G + (toksE e).length ≤ f + 1 →
     (pPrimary f (toksE e ++ rest)).bind (fun p => pPostfix f p.1 p.2) = some res := by
  intro G f rest res hnp hcont hf hG
  rw [hP f rest hnp hf]
  exact hcont f (by omega)

theorem len_pos (e : CExpr) (h : wfT e = true) : 1 ≤ (toksE e).length := by
  obtain ⟨t, r, hr, _, _⟩ := toksE_head e h
  simp [hr]

mutual
theorem main (e : CExpr) (h : wfT e = true) : Main e := by
  cases e with
  | var n =>
    have hP : ∀ (f : Nat) (rest : List Tok), noParen rest → 12 * (toksE (.var n)).length ≤ f + 11 →
        pPrimary f (toksE (.var n) ++ rest) = some (.var n, rest) := by
      intro f rest hnp hf
      simp only [toksE, List.length_cons, List.length_nil] at hf
      obtain ⟨f', rfl⟩ : ∃ f', f = f' + 1 := ⟨f - 1, by omega⟩
      have hv : plainId n.toList := by
        simp only [wfT, plainIdB, Bool.and_eq_true, bne_iff_ne, ne_eq] at h
        exact ⟨h.1.1, h.1.2, h.2⟩
      simpa [toksE] using pPrimary_var f' n.toList rest hv hnp
    exact ⟨fun _ => main_A_of_prim _ (by simp [toksE]) hP, main_B_of_A _ h rfl (main_A_of_prim _ (by simp [toksE]) hP)⟩
  | int v =>
    have hP : ∀ (f : Nat) (rest : List Tok), noParen rest → 12 * (toksE (.int v)).length ≤ f + 11 →
        pPrimary f (toksE (.int v) ++ rest) = some (.int v, rest) := by
      intro f rest hnp hf
      simp only [toksE, List.length_cons, List.length_nil] at hf
      obtain ⟨f', rfl⟩ : ∃ f', f = f' + 1 := ⟨f - 1, by omega⟩
      have hv := beqE_eq _ _ (by simpa [wfT] using h : beqE (numLit (toString v).toList) (.int v) = true)
      have := pPrimary_num f' (toString v).toList rest
      rw [hv] at this
      simpa [toksE] using this
    exact ⟨fun _ => main_A_of_prim _ (by simp [toksE]) hP, main_B_of_A _ h rfl (main_A_of_prim _ (by simp [toksE]) hP)⟩
  | dbl t m ex =>
    have hP : ∀ (f : Nat) (rest : List Tok), noParen rest → 12 * (toksE (.dbl t m ex)).length ≤ f + 11 →
        pPrimary f (toksE (.dbl t m ex) ++ rest) = some (.dbl t m ex, rest) := by
      intro f rest hnp hf
      simp only [toksE, List.length_cons, List.length_nil] at hf
      obtain ⟨f', rfl⟩ : ∃ f', f = f' + 1 := ⟨f - 1, by omega⟩
      have hv := beqE_eq _ _ (by simpa [wfT] using h : beqE (numLit t.toList) (.dbl t m ex) = true)
      have := pPrimary_num f' t.toList rest
      rw [hv] at this
      simpa [toksE] using this
    exact ⟨fun _ => main_A_of_prim _ (by simp [toksE]) hP, main_B_of_A _ h rfl (main_A_of_prim _ (by simp [toksE]) hP)⟩
  | bool b =>
    have hP : ∀ (f : Nat) (rest : List Tok), noParen rest → 12 * (toksE (.bool b)).length ≤ f + 11 →
        pPrimary f (toksE (.bool b) ++ rest) = some (.bool b, rest) := by
      intro f rest hnp hf
      simp only [toksE, List.length_cons, List.length_nil] at hf
      obtain ⟨f', rfl⟩ : ∃ f', f = f' + 1 := ⟨f - 1, by omega⟩
      cases b
      · simpa [toksE] using pPrimary_false f' rest
      · simpa [toksE] using pPrimary_true f' rest
    exact ⟨fun _ => main_A_of_prim _ (by simp [toksE]) hP, main_B_of_A _ h rfl (main_A_of_prim _ (by simp [toksE]) hP)⟩
  | str s =>
    have hP : ∀ (f : Nat) (rest : List Tok), noParen rest → 12 * (toksE (.str s)).length ≤ f + 11 →
        pPrimary f (toksE (.str s) ++ rest) = some (.str s, rest) := by
      intro f rest hnp hf
      simp only [toksE, List.length_cons, List.length_nil] at hf
      obtain ⟨f', rfl⟩ : ∃ f', f = f' + 1 := ⟨f - 1, by omega⟩
      have hv : unescape s.toList = s.toList := unescape_id _ (by simpa [wfT] using h)
      simpa [toksE, hv] using pPrimary_str f' s.toList rest
    exact ⟨fun _ => main_A_of_prim _ (by simp [toksE]) hP, main_B_of_A _ h rfl (main_A_of_prim _ (by simp [toksE]) hP)⟩
  | un op a =>
    simp only [wfT, Bool.and_eq_true, Bool.or_eq_true, beq_iff_eq] at h
    obtain ⟨hop, ha⟩ := h
    have hB := (main a ha).2
    have hTa := len_pos a ha
    have hop' : op.toList = ['-'] ∨ op.toList = ['+'] ∨ op.toList = ['!'] := by
      rcases hop with (rfl | rfl) | rfl <;> decide
    have hP : ∀ (f : Nat) (rest : List Tok), noParen rest → 12 * (toksE (.un op a)).length ≤ f + 11 →
        pPrimary f (toksE (.un op a) ++ rest) = some (.un op a, rest) := by
      intro f rest hnp hf
      simp only [toksE, List.length_cons, List.length_append, List.length_nil] at hf
      obtain ⟨g, rfl⟩ : ∃ g, f = g + 18 := ⟨f - 18, by omega⟩
      have h1 := hB g (.op [')'] :: .op [')'] :: rest) (by omega) (stopAt_postStop (stopAt_close 0 _)) (stopAt_noParen (stopAt_close 0 _))
      have h2 := paren_group g (toksE a) a (.op [')'] :: rest) h1
      have h3 : pUnary (g + 9) (.op ['('] :: (toksE a ++ .op [')'] :: .op [')'] :: rest)) = some (a, .op [')'] :: rest) := by
        rw [pUnary_prim (g + 8) _ a _ (by intro o r e; injection e with e1 _; injection e1 with e1; subst e1; exact ⟨by decide, by decide, by decide, by decide, by decide⟩) h2]
        exact pPostfix_stop (g + 7) a _ (stopAt_postStop (stopAt_close 0 _))
      have h4 := pUnary_un (g + 9) op.toList a _ _ hop' h3
      have e1 : (.op op.toList :: .op ['('] :: (toksE a ++ .op [')'] :: .op [')'] :: rest)) =
          (.op op.toList :: .op ['('] :: (toksE a ++ [.op [')']])) ++ .op [')'] :: rest := by simp
      rw [e1] at h4
      have h5 := paren_group (g + 10) _ (.un (String.ofList op.toList) a) rest h4
      simpa [toksE] using h5
    exact ⟨fun _ => main_A_of_prim _ (by simp [toksE]) hP, main_B_of_A _ (by simp [wfT, hop, ha]) rfl (main_A_of_prim _ (by simp [toksE]) hP)⟩
  | bin op a b =>
    simp only [wfT, Bool.and_eq_true] at h
    obtain ⟨⟨hop, ha⟩, hb⟩ := h
    have hBa := (main a ha).2
    have hBb := (main b hb).2
    have hTa := len_pos a ha
    have hTb := len_pos b hb
    obtain ⟨L, hL⟩ := binOpOk_spec _ hop
    obtain ⟨hL5, huniq, hn1, hn2, hn3, hn4⟩ := opsAt_facts _ L hL
    have hP : ∀ (f : Nat) (rest : List Tok), noParen rest → 12 * (toksE (.bin op a b)).length ≤ f + 11 →
        pPrimary f (toksE (.bin op a b) ++ rest) = some (.bin op a b, rest) := by
      intro f rest hnp hf
      simp only [toksE, List.length_cons, List.length_append, List.length_nil] at hf
      obtain ⟨g, rfl⟩ : ∃ g, f = g + 9 := ⟨f - 9, by omega⟩
      -- the right operand, then the left one
      have hstopb : stopAt (L + 1) (.op [')'] :: rest) := stopAt_close _ _
      have hb1 := hBb g (.op [')'] :: rest) (by omega) (stopAt_postStop hstopb) (stopAt_noParen hstopb)
      have hb2 := lift_unary _ b _ g (L + 1) (by omega) hb1 hstopb
      have hstopa : stopAt (L + 1) (.op op.toList :: (toksE b ++ .op [')'] :: rest)) := by
        intro o r e
        injection e with e1 _
        injection e1 with e1
        subst e1
        exact ⟨hn1, hn2, hn3, hn4, fun l hl hm => by have := huniq l hm; omega⟩
      have ha1 := hBa (g + 1) (.op op.toList :: (toksE b ++ .op [')'] :: rest)) (by omega) (stopAt_postStop hstopa) (stopAt_noParen hstopa)
      have ha2 := lift_unary _ a _ (g + 1) (L + 1) (by omega) ha1 hstopa
      have hloop : pLoop (g + 1 + (6 - (L + 1)) + 1) L a (.op op.toList :: (toksE b ++ .op [')'] :: rest)) =
          some (.bin op a b, .op [')'] :: rest) := by
        rw [pLoop_op _ L a b op.toList _ _ hL hb2]
        obtain ⟨k, hk⟩ : ∃ k, g + 1 + (6 - (L + 1)) = k + 1 := ⟨g + (6 - (L + 1)), by omega⟩
        rw [hk, String.ofList_toList]
        exact pLoop_stop k L _ _ (fun o r e => by
          injection e with e1 _; injection e1 with e1; subst e1
          exact (stopAt_close 0 rest _ _ rfl).2.2.2.2 L (by omega))
      have hlev : pLevel (g + 1 + 1 + (6 - (L + 1)) + 1) L (toksE a ++ .op op.toList :: (toksE b ++ .op [')'] :: rest)) =
          some (.bin op a b, .op [')'] :: rest) := by
        rw [pLevel_step _ L _ a _ (by omega) ha2]
        rw [show g + 1 + 1 + (6 - (L + 1)) = g + 1 + (6 - (L + 1)) + 1 by omega]
        exact hloop
      have hl0 := lift_level _ _ _ L _ (by omega) hlev L (by omega) (by simpa using stopAt_close 0 rest)
      rw [Nat.sub_self] at hl0
      have e2 : g + 1 + 1 + (6 - (L + 1)) + 1 + L = g + 8 := by omega
      rw [e2] at hl0
      have := pPrimary_paren (g + 8) _ _ rest hl0
      simpa [toksE] using this
    exact ⟨fun _ => main_A_of_prim _ (by simp [toksE]) hP, main_B_of_A _ (by simp [wfT, hop, ha, hb]) rfl (main_A_of_prim _ (by simp [toksE]) hP)⟩
  | deref a =>
    simp only [wfT] at h
    have hB := (main a h).2
    refine ⟨fun hs => by simp [postfixSafe] at hs, ?_⟩
    intro f rest hf hps hnp
    simp only [toksE, List.length_cons] at hf
    obtain ⟨f', rfl⟩ : ∃ f', f = f' + 1 := ⟨f - 1, by omega⟩
    have := hB f' rest (by omega) hps hnp
    simpa [toksE] using pUnary_deref f' a _ rest this
  | mem o ar n args =>
    have h0 := h
    simp only [wfT, Bool.and_eq_true] at h
    obtain ⟨⟨hso, ho⟩, hargs⟩ := h
    have hAo := (main o ho).1 hso
    have hTo := len_pos o ho
    have hA : ∀ (G f : Nat) (rest : List Tok) (res : CExpr × List Tok), noParen rest →
       (∀ g, G ≤ g → pPostfix g (.mem o ar n args) rest = some res) → 12 * (toksE (.mem o ar n args)).length ≤ f + 11 →
       G + (toksE (.mem o ar n args)).length ≤ f + 1 →
       (pPrimary f (toksE (.mem o ar n args) ++ rest)).bind (fun p => pPostfix f p.1 p.2) = some res := by
      intro G f rest res hnp hcont hf hG
      simp only [toksE, List.length_cons, List.length_append, List.length_nil] at hf hG
      have e1 : toksE (.mem o ar n args) ++ rest =
          toksE o ++ (.op (if ar then cl!"->" else ['.']) :: .id n.toList :: .op ['('] :: (toksArgs args ++ .op [')'] :: rest)) := by
        simp [toksE]
      rw [e1]
      refine hAo (max G (12 * (toksArgs args).length + 9) + 1) f _ res ?_ ?_ (by omega) (by omega)
      · intro o' r e
        injection e with e2 _
        injection e2 with e2
        subst e2
        cases ar <;> decide
      · intro g hg
        obtain ⟨g', rfl⟩ : ∃ g', g = g' + 1 := ⟨g - 1, by omega⟩
        have hargs' := args_main args hargs g' rest (by omega)
        rw [pPostfix_mem g' o _ n.toList args _ rest (by cases ar <;> simp) hargs']
        have : ((if ar then cl!"->" else ['.']) = cl!"->") = (ar = true) := by cases ar <;> simp
        simp only [this, String.ofList_toList]
        have hc := hcont g' (by omega)
        cases ar <;> simpa using hc
    exact ⟨fun _ => hA, main_B_of_A _ h0 rfl hA⟩
  | call fn args =>
    have h0 := h
    simp only [wfT, Bool.and_eq_true] at h
    obtain ⟨hf0, hargs⟩ := h
    have hv : plainId fn.toList := by
      simp only [plainIdB, Bool.and_eq_true, bne_iff_ne, ne_eq] at hf0
      exact ⟨hf0.1.1, hf0.1.2, hf0.2⟩
    have hP : ∀ (f : Nat) (rest : List Tok), noParen rest → 12 * (toksE (.call fn args)).length ≤ f + 11 →
        pPrimary f (toksE (.call fn args) ++ rest) = some (.call fn args, rest) := by
      intro f rest hnp hf
      simp only [toksE, List.length_cons, List.length_append, List.length_nil] at hf
      obtain ⟨g, rfl⟩ : ∃ g, f = g + 1 := ⟨f - 1, by omega⟩
      have hargs' := args_main args hargs g rest (by omega)
      have := pPrimary_call g fn.toList args _ rest hv hargs'
      simpa [toksE] using this
    exact ⟨fun _ => main_A_of_prim _ (by simp [toksE]) hP, main_B_of_A _ h0 rfl (main_A_of_prim _ (by simp [toksE]) hP)⟩
  | cast t a =>
    have h0 := h
    simp only [wfT, Bool.and_eq_true, beq_iff_eq] at h
    obtain ⟨ht, ha⟩ := h
    have hB := (main a ha).2
    have hP : ∀ (f : Nat) (rest : List Tok), noParen rest → 12 * (toksE (.cast t a)).length ≤ f + 11 →
        pPrimary f (toksE (.cast t a) ++ rest) = some (.cast t a, rest) := by
      intro f rest hnp hf
      simp only [toksE, List.length_cons, List.length_append, List.length_nil] at hf
      obtain ⟨g, rfl⟩ : ∃ g, f = g + 8 := ⟨f - 8, by omega⟩
      have h1 := hB g (.op [')'] :: rest) (by omega) (stopAt_postStop (stopAt_close 0 _)) (stopAt_noParen (stopAt_close 0 _))
      have h2 := lift_unary _ a _ g 0 (by omega) h1 (stopAt_close 0 rest)
      have hang : angle 1 (.id t.toList :: .op ['>'] :: .op ['('] :: (toksE a ++ .op [')'] :: rest)) =
          some ([t.toList], .op ['('] :: (toksE a ++ .op [')'] :: rest)) := by
        simp [angle, Tok.val]
      have := pPrimary_cast (g + 7) a [t.toList] _ _ rest hang (by simpa using h2)
      rw [ht, String.ofList_toList] at this
      simpa [toksE] using this
    exact ⟨fun _ => main_A_of_prim _ (by simp [toksE]) hP, main_B_of_A _ h0 rfl (main_A_of_prim _ (by simp [toksE]) hP)⟩
  | «opaque» t => simp [wfT] at h
theorem args_main (args : List CExpr) (h : wfTArgs args = true) (f : Nat) (rest : List Tok)
    (hf : 12 * (toksArgs args).length + 9 ≤ f) :
    pArgs f (toksArgs args ++ .op [')'] :: rest) = some (args, rest) := by
  cases args with
  | nil =>
    obtain ⟨f', rfl⟩ : ∃ f', f = f' + 1 := ⟨f - 1, by omega⟩
    simpa [toksArgs] using pArgs_nil f' rest
  | cons a l =>
    simp only [wfTArgs, Bool.and_eq_true] at h
    simp only [toksArgs, List.length_append] at hf
    obtain ⟨g, rfl⟩ : ∃ g, f = g + 8 := ⟨f - 8, by omega⟩
    obtain ⟨t, r, hr, hne, _⟩ := toksE_head a h.1
    have hstop := toksMore_stop l rest
    have h1 := (main a h.1).2 g (toksMore l ++ .op [')'] :: rest) (by omega) (stopAt_postStop hstop) (stopAt_noParen hstop)
    have h2 := lift_unary _ a _ g 0 (by omega) h1 hstop
    have h3 := more_main l h.2 (g + 7) rest (by omega)
    have e1 : toksArgs (a :: l) ++ .op [')'] :: rest = toksE a ++ (toksMore l ++ .op [')'] :: rest) := by simp [toksArgs]
    rw [e1]
    refine pArgs_cons (g + 7) _ a l _ rest ?_ (by simpa using h2) h3
    intro o r0 e
    rw [hr] at e
    injection e with e2 _
    intro ho
    subst ho
    exact hne e2
theorem more_main (l : List CExpr) (h : wfTArgs l = true) (f : Nat) (rest : List Tok)
    (hf : 12 * (toksMore l).length + 1 ≤ f) :
    pArgsMore f (toksMore l ++ .op [')'] :: rest) = some (l, rest) := by
  cases l with
  | nil =>
    obtain ⟨f', rfl⟩ : ∃ f', f = f' + 1 := ⟨f - 1, by omega⟩
    simpa [toksMore] using pArgsMore_close f' rest
  | cons b r =>
    simp only [wfTArgs, Bool.and_eq_true] at h
    simp only [toksMore, List.length_cons, List.length_append] at hf
    obtain ⟨g, rfl⟩ : ∃ g, f = g + 8 := ⟨f - 8, by omega⟩
    have hstop := toksMore_stop r rest
    have h1 := (main b h.1).2 g (toksMore r ++ .op [')'] :: rest) (by omega) (stopAt_postStop hstop) (stopAt_noParen hstop)
    have h2 := lift_unary _ b _ g 0 (by omega) h1 hstop
    have h3 := more_main r h.2 (g + 7) rest (by omega)
    have e1 : toksMore (b :: r) ++ .op [')'] :: rest = .op [','] :: (toksE b ++ (toksMore r ++ .op [')'] :: rest)) := by
      simp [toksMore]
    rw [e1]
    exact pArgsMore_comma (g + 7) _ b r _ rest (by simpa using h2) h3
end


/-- the whole token sequence of a well-formed expression is read back, with the fuel `parseToks` starts with -/
theorem parseToks_toksE (e : CExpr) (h : wfT e = true) : parseToks (toksE e) = some e := by
  have hB := (main e h).2 (12 * (toksE e).length + 17) [] (by omega) (fun o r e => by cases e) (fun o r e => by cases e)
  have := lift_unary _ e [] _ 0 (by omega) hB (stopAt_nil 0)
  simp only [List.append_nil] at this
  unfold parseToks exprFuel
  rw [show 12 * (toksE e).length + 24 = 12 * (toksE e).length + 17 + 1 + (6 - 0) by omega, this]


/-- completeness of the equality test -/
theorem beqE_refl : ∀ (a : CExpr), beqE a a = true := by
  intro a
  induction a using CExpr.rec (motive_2 := fun as => beqArgs as as = true) with
  | var n => simp [beqE]
  | int n => simp [beqE]
  | dbl t m e => simp [beqE]
  | bool n => simp [beqE]
  | str n => simp [beqE]
  | un o a ih => simp [beqE, ih]
  | bin o a a' ih ih' => simp [beqE, ih, ih']
  | deref a ih => simp [beqE, ih]
  | mem o ar n as ih ih' => simp [beqE, ih, ih']
  | call f as ih => simp [beqE, ih]
  | cast t a ih => simp [beqE, ih]
  | «opaque» t => simp [beqE]
  | nil => simp [beqArgs]
  | cons a as ih ih' => simp [beqArgs, ih, ih']

end FaxVerif.Cpp.Parse
