/-
Cpp.ParseLexBase — one-step lemmas of the tokenizer of Cpp/Parse.lean (operators, strings, blanks).
-/
import FaxVerif.Cpp.ParseExprProofs
namespace FaxVerif.Cpp.Parse
open FaxVerif.Cpp

/-! ### one step of the tokenizer -/

theorem lexAux_nil (n : Nat) : lexAux (n + 1) [] = some [] := by simp [lexAux]

theorem lexAux_ws (n : Nat) (c : Char) (r : Str) (h : isWs c = true) : lexAux (n + 1) (c :: r) = lexAux (n + 1) r := by
  simp [lexAux, h]

theorem lexAux_tok (n : Nat) (c : Char) (r : Str) (t : Tok) (rest : Str) (hws : isWs c = false)
    (h1 : lexOne c r = some (t, rest)) : lexAux (n + 1) (c :: r) = (lexAux n rest).map (t :: ·) := by
  cases h2 : lexAux n rest <;> simp [lexAux, hws, h1, h2]

/-- `p` fails at the head of `rest` (or `rest` is empty) -/
def headFails (p : Char → Bool) (rest : Str) : Prop := ∀ d r, rest = d :: r → p d = false

theorem takeWhile_append_stop {p : Char → Bool} (w rest : Str) (h : headFails p rest) :
    (w ++ rest).takeWhile p = w.takeWhile p := by
  induction w with
  | nil =>
    cases rest with
    | nil => rfl
    | cons d r => simp [h d r rfl]
  | cons c w ih => by_cases hc : p c = true <;> simp [hc, ih]

theorem dropWhile_append_stop {p : Char → Bool} (w rest : Str) (h : headFails p rest) :
    (w ++ rest).dropWhile p = w.dropWhile p ++ rest := by
  induction w with
  | nil =>
    cases rest with
    | nil => rfl
    | cons d r => simp [h d r rfl]
  | cons c w ih => by_cases hc : p c = true <;> simp [hc, ih]

/-- single-character operator tokens -/
theorem lexOne_op1 (c : Char) (rest : Str) (h1 : ops1.contains c = true) (hd : c.isDigit = false)
    (hi : isIdStart c = false) (hq : c ≠ '"')
    (hdot : c = '.' → headFails Char.isDigit rest)
    (h2 : ∀ d r, rest = d :: r → ops2.contains [c, d] = false) :
    lexOne c rest = some (.op [c], rest) := by
  have hn : lexNum c rest = none := by
    unfold lexNum
    simp only [hd]
    by_cases hc : c = '.'
    · have := hdot hc
      cases rest with
      | nil => simp [hc]
      | cons d r => simp [hc, this d r rfl]
    · simp [hc]
  have h1' : c ∈ ops1 := by simpa using h1
  unfold lexOne
  simp only [hn, hi, hq]
  cases rest with
  | nil => simp [h1']
  | cons d r =>
    have : ¬ [c, d] ∈ ops2 := by simpa using h2 d r rfl
    simp [this, h1']

theorem lexOne_op2 (c d : Char) (rest : Str) (h : ops2.contains [c, d] = true) :
    lexOne c (d :: rest) = some (.op [c, d], rest) := by
  have hc : c = '-' ∨ c = '<' ∨ c = '>' ∨ c = '=' ∨ c = '!' ∨ c = '&' ∨ c = '|' := by
    simp [ops2] at h
    rcases h with h | h | h | h | h | h | h <;> simp [h.1]
  have hn : lexNum c (d :: rest) = none := by
    unfold lexNum
    rcases hc with rfl | rfl | rfl | rfl | rfl | rfl | rfl <;> simp <;> decide
  have hi : isIdStart c = false := by rcases hc with rfl | rfl | rfl | rfl | rfl | rfl | rfl <;> decide
  have hq : c ≠ '"' := by rcases hc with rfl | rfl | rfl | rfl | rfl | rfl | rfl <;> decide
  have h' : [c, d] ∈ ops2 := by simpa using h
  unfold lexOne
  simp [hn, hi, hq, h']

theorem lexOne_str (s rest : Str) (h : s.all (fun c => c != '"' && c != '\\') = true) :
    lexOne '"' (s ++ '"' :: rest) = some (.str s, rest) := by
  have hn : lexNum '"' (s ++ '"' :: rest) = none := by unfold lexNum; simp
  unfold lexOne
  simp [hn, scanStr_plain s rest h, show isIdStart '"' = false by decide]

end FaxVerif.Cpp.Parse
