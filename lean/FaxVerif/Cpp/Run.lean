/-
Cpp — running a package over one event and over a job (a sequence of events).
Class-level variables (the column variables, miniAOD tokens) persist across events; everything
else is (re)created by the per-event body itself.
-/
import FaxVerif.Cpp.Sem
namespace FaxVerif.Cpp
variable {D : Type}

def classInit : List (String × String) → Env D
  | [] => fun _ => none
  | (ty, n) :: rest => if isVecType ty then (classInit rest).set n (.vec []) else (classInit rest).declare n

/-- Only the class-level variables survive the end of `execute()`. -/
def keepClass (vars : List (String × String)) (σ : Env D) : Env D :=
  fun n => if vars.any (fun p => p.2 = n) then σ n else none

def Package.ctx (P : Package) (N : Num D) (ev : Event D) : Ctx D :=
  { N := N, ev := ev, cols := P.branches.map (·.2), tokens := P.tokens }

/-- One call of the per-event method from class state `σc`: the rows it writes and the class
state it leaves. -/
def runEvent (P : Package) (N : Num D) (σc : Env D) (ev : Event D) :
    Except Fault (List (List (Val D)) × Env D) :=
  match exec (P.ctx N ev) P.body { env := σc, rows := [] } with
  | .ok s => .ok (s.rows, keepClass P.classVars s.env)
  | .error f => .error f

/-- A job: events in order, class state threaded through; a fault ends the job. -/
def runJobFrom (P : Package) (N : Num D) : Env D → List (Event D) → Except Fault (List (List (Val D)))
  | _, [] => .ok []
  | σc, ev :: evs => match runEvent P N σc ev with
    | .error f => .error f
    | .ok (rows, σc') => match runJobFrom P N σc' evs with
      | .ok more => .ok (rows ++ more)
      | .error f => .error f

def runJob (P : Package) (N : Num D) (evs : List (Event D)) : Except Fault (List (List (Val D))) :=
  runJobFrom P N (classInit P.classVars) evs

end FaxVerif.Cpp
