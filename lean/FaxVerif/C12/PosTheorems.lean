/-
C12 — property theorems for the POSITIONS (PosModel.lean): a math call as argument of a method
call or of a user C++ function, tuple / dict / list element, subscript, arm or test of a
conditional, `and`/`or` operand, operand of a comparison, `Where` predicate, body of an inner
`Select`, seed / body of an aggregate — and any nesting of these, without bound on size or depth.

* `resolved_everywhere` (+ `documented_resolved_everywhere` on the generated constants)
* `resolve_total`, `documented_positions_never_refused`
* shadowing: `shadow_method`, `shadow_lambda_param`, `shadow_variable`, `shadow_user_function`,
  `user_function_used_iff_not_in_table`
* `call_emitted_everywhere`
* `includes_reachable_positions`, `package_positions`
* `namesake_semantics_positions` (`sem_emit` for every configuration)
-/
import FaxVerif.C12.Theorems
import FaxVerif.C12.PosSpec
namespace FaxVerif.C12

/-- the generated configuration, with the user functions and variables of the query at hand -/
def Gen.xcfg (fns : List UserFn) (vars : List (String × String × String)) : XCfg :=
  ⟨Gen.cfg, Gen.cmpOps, Gen.seqOps, fns, vars, Gen.ifName, Gen.boolName, Gen.accName⟩

/-! ## pass 1 -/

theorem resolveX_call_inv {c : Cfg} {f : String} {args : List QExpr} {r : RX} (h : resolveX c (.call f args) = .ok r) :
    ∃ as, resolveListX c args = .ok as ∧
      ((∃ row, findKnown c.table c.env f = .ok (some row) ∧ r = .fcall f row as) ∨
       (findKnown c.table c.env f = .ok none ∧ r = .ucall f as)) := by
  unfold resolveX at h
  cases ha : resolveListX c args with
  | error e => simp [ha] at h
  | ok as =>
    simp only [ha] at h
    cases hk : findKnown c.table c.env f with
    | error e => simp [hk] at h
    | ok o =>
      cases o with
      | none => simp only [hk, Except.ok.injEq] at h; exact ⟨as, rfl, Or.inr ⟨rfl, h.symm⟩⟩
      | some row => simp only [hk, Except.ok.injEq] at h; exact ⟨as, rfl, Or.inl ⟨row, rfl, h.symm⟩⟩

theorem resolveX_node_inv {c : Cfg} {k : Kind} {kids : List QExpr} {r : RX} (h : resolveX c (.node k kids) = .ok r) :
    ∃ ks, resolveListX c kids = .ok ks ∧ r = .node k ks := by
  unfold resolveX at h
  cases ha : resolveListX c kids with
  | error e => simp [ha] at h
  | ok ks => simp only [ha, Except.ok.injEq] at h; exact ⟨ks, rfl, h.symm⟩

theorem resolveListX_cons_inv {c : Cfg} {a : QExpr} {as : List QExpr} {rs : List RX} (h : resolveListX c (a :: as) = .ok rs) :
    ∃ a' as', resolveX c a = .ok a' ∧ resolveListX c as = .ok as' ∧ rs = a' :: as' := by
  unfold resolveListX at h
  cases ha : resolveX c a with
  | error e => simp [ha] at h
  | ok a' =>
    simp only [ha] at h
    cases hs : resolveListX c as with
    | error e => simp [hs] at h
    | ok as' => simp only [hs, Except.ok.injEq] at h; exact ⟨a', as', rfl, rfl, h.symm⟩

mutual
/-- the pre-pass changes nothing but the `func` of Name-calls: forgetting what it wrote gives the
input back -/
theorem resolve_erase (c : Cfg) : ∀ (e : QExpr) (r : RX), resolveX c e = .ok r → r.erase = e
  | .leaf t ty, r, h => by simp only [resolveX, Except.ok.injEq] at h; subst h; simp [RX.erase]
  | .var x, r, h => by simp only [resolveX, Except.ok.injEq] at h; subst h; simp [RX.erase]
  | .call f args, r, h => by
    obtain ⟨as, ha, hr⟩ := resolveX_call_inv h
    have := resolve_eraseList c args as ha
    rcases hr with ⟨row, _, rfl⟩ | ⟨_, rfl⟩ <;> simp [RX.erase, this]
  | .node k kids, r, h => by
    obtain ⟨ks, ha, rfl⟩ := resolveX_node_inv h
    simp [RX.erase, resolve_eraseList c kids ks ha]
theorem resolve_eraseList (c : Cfg) : ∀ (es : List QExpr) (rs : List RX), resolveListX c es = .ok rs → RX.eraseList rs = es
  | [], rs, h => by simp only [resolveListX, Except.ok.injEq] at h; subst h; simp [RX.eraseList]
  | a :: as, rs, h => by
    obtain ⟨a', as', h1, h2, rfl⟩ := resolveListX_cons_inv h
    simp [RX.eraseList, resolve_erase c a a' h1, resolve_eraseList c as as' h2]
end

mutual
/-- every Name-call carries exactly what `findKnown` says of its own name -/
theorem resolve_rows (c : Cfg) : ∀ (e : QExpr) (r : RX), resolveX c e = .ok r → r.rowsRight c
  | .leaf t ty, r, h => by simp only [resolveX, Except.ok.injEq] at h; subst h; simp [RX.rowsRight]
  | .var x, r, h => by simp only [resolveX, Except.ok.injEq] at h; subst h; simp [RX.rowsRight]
  | .call f args, r, h => by
    obtain ⟨as, ha, hr⟩ := resolveX_call_inv h
    have := resolve_rowsList c args as ha
    rcases hr with ⟨row, hk, rfl⟩ | ⟨hk, rfl⟩ <;> simp [RX.rowsRight, this, hk]
  | .node k kids, r, h => by
    obtain ⟨ks, ha, rfl⟩ := resolveX_node_inv h
    simp [RX.rowsRight, resolve_rowsList c kids ks ha]
theorem resolve_rowsList (c : Cfg) : ∀ (es : List QExpr) (rs : List RX), resolveListX c es = .ok rs → RX.rowsRightList c rs
  | [], rs, h => by simp only [resolveListX, Except.ok.injEq] at h; subst h; simp [RX.rowsRightList]
  | a :: as, rs, h => by
    obtain ⟨a', as', h1, h2, rfl⟩ := resolveListX_cons_inv h
    exact ⟨resolve_rows c a a' h1, resolve_rowsList c as as' h2⟩
end

mutual
theorem replaced_right (c : Cfg) : ∀ r : RX, r.rowsRight c → ∀ p ∈ r.replaced, findKnown c.table c.env p.1 = .ok (some p.2)
  | .leaf _ _, _, p, hp => by simp [RX.replaced] at hp
  | .var _, _, p, hp => by simp [RX.replaced] at hp
  | .fcall f row args, h, p, hp => by
    simp only [RX.rowsRight] at h
    simp only [RX.replaced, List.mem_cons] at hp
    rcases hp with rfl | hp
    · exact h.1
    · exact replaced_rightList c args h.2 p hp
  | .ucall f args, h, p, hp => by
    simp only [RX.rowsRight] at h
    simp only [RX.replaced] at hp
    exact replaced_rightList c args h.2 p hp
  | .node k kids, h, p, hp => by
    simp only [RX.rowsRight] at h
    simp only [RX.replaced] at hp
    exact replaced_rightList c kids h p hp
theorem replaced_rightList (c : Cfg) : ∀ rs : List RX, RX.rowsRightList c rs → ∀ p ∈ RX.replacedList rs, findKnown c.table c.env p.1 = .ok (some p.2)
  | [], _, p, hp => by simp [RX.replacedList] at hp
  | a :: as, h, p, hp => by
    simp only [RX.rowsRightList] at h
    simp only [RX.replacedList, List.mem_append] at hp
    rcases hp with hp | hp
    · exact replaced_right c a h.1 p hp
    · exact replaced_rightList c as h.2 p hp
end

mutual
theorem leftAlone_right (c : Cfg) : ∀ r : RX, r.rowsRight c → ∀ f ∈ r.leftAlone, findKnown c.table c.env f = .ok none
  | .leaf _ _, _, p, hp => by simp [RX.leftAlone] at hp
  | .var _, _, p, hp => by simp [RX.leftAlone] at hp
  | .fcall f row args, h, p, hp => by
    simp only [RX.rowsRight] at h
    simp only [RX.leftAlone] at hp
    exact leftAlone_rightList c args h.2 p hp
  | .ucall f args, h, p, hp => by
    simp only [RX.rowsRight] at h
    simp only [RX.leftAlone, List.mem_cons] at hp
    rcases hp with rfl | hp
    · exact h.1
    · exact leftAlone_rightList c args h.2 p hp
  | .node k kids, h, p, hp => by
    simp only [RX.rowsRight] at h
    simp only [RX.leftAlone] at hp
    exact leftAlone_rightList c kids h p hp
theorem leftAlone_rightList (c : Cfg) : ∀ rs : List RX, RX.rowsRightList c rs → ∀ f ∈ RX.leftAloneList rs, findKnown c.table c.env f = .ok none
  | [], _, p, hp => by simp [RX.leftAloneList] at hp
  | a :: as, h, p, hp => by
    simp only [RX.rowsRightList] at h
    simp only [RX.leftAloneList, List.mem_append] at hp
    rcases hp with hp | hp
    · exact leftAlone_right c a h.1 p hp
    · exact leftAlone_rightList c as h.2 p hp
end

mutual
/-- every Name-call of the input is accounted for: replaced or left alone -/
theorem called_cover : ∀ r : RX, ∀ f ∈ r.erase.called, (∃ row, (f, row) ∈ r.replaced) ∨ f ∈ r.leftAlone
  | .leaf _ _, f, hf => by simp [RX.erase, QExpr.called] at hf
  | .var _, f, hf => by simp [RX.erase, QExpr.called] at hf
  | .fcall g row args, f, hf => by
    simp only [RX.erase, QExpr.called, List.mem_cons] at hf
    rcases hf with rfl | hf
    · exact Or.inl ⟨row, by simp [RX.replaced]⟩
    · rcases called_coverList args f hf with ⟨row', h⟩ | h
      · exact Or.inl ⟨row', by simp [RX.replaced, h]⟩
      · exact Or.inr (by simpa [RX.leftAlone] using h)
  | .ucall g args, f, hf => by
    simp only [RX.erase, QExpr.called, List.mem_cons] at hf
    rcases hf with rfl | hf
    · exact Or.inr (by simp [RX.leftAlone])
    · rcases called_coverList args f hf with ⟨row', h⟩ | h
      · exact Or.inl ⟨row', by simpa [RX.replaced] using h⟩
      · exact Or.inr (by simp [RX.leftAlone, h])
  | .node k kids, f, hf => by
    simp only [RX.erase, QExpr.called] at hf
    rcases called_coverList kids f hf with ⟨row', h⟩ | h
    · exact Or.inl ⟨row', by simpa [RX.replaced] using h⟩
    · exact Or.inr (by simpa [RX.leftAlone] using h)
theorem called_coverList : ∀ rs : List RX, ∀ f ∈ QExpr.calledList (RX.eraseList rs),
    (∃ row, (f, row) ∈ RX.replacedList rs) ∨ f ∈ RX.leftAloneList rs
  | [], f, hf => by simp [RX.eraseList, QExpr.calledList] at hf
  | a :: as, f, hf => by
    simp only [RX.eraseList, QExpr.calledList, List.mem_append] at hf
    rcases hf with hf | hf
    · rcases called_cover a f hf with ⟨row, h⟩ | h
      · exact Or.inl ⟨row, by simp [RX.replacedList, h]⟩
      · exact Or.inr (by simp [RX.leftAloneList, h])
    · rcases called_coverList as f hf with ⟨row, h⟩ | h
      · exact Or.inl ⟨row, by simp [RX.replacedList, h]⟩
      · exact Or.inr (by simp [RX.leftAloneList, h])
end

/-- **Resolved everywhere** (`find_known_functions` = `generic_visit` + one lookup per Name-call).
For EVERY table, environment and expression of the extended language — a call standing as argument
of a method or of a user function, as tuple / dict / list element, subscript, arm or test of a
conditional, operand of `and`/`or` or of a comparison, inside the lambda of a `Where` / `Select` /
`Aggregate`, at any depth: the result of the pre-pass is the input with *every* Name-call annotated,
(1) nothing else is rewritten (`erase`), (2) every annotation is what `findKnown` gives for that very
name — a call is replaced by the row of its own key and by no other row, and is left alone only if its
key is not in the table —, (3) no call is dropped: each called name is among the replaced or the left
alone.  What surrounds the call plays no role. -/
theorem resolved_everywhere (c : Cfg) (e : QExpr) (r : RX) (h : resolveX c e = .ok r) :
    r.erase = e ∧ r.rowsRight c ∧
    (∀ p ∈ r.replaced, findKnown c.table c.env p.1 = .ok (some p.2)) ∧
    (∀ f ∈ r.leftAlone, findKnown c.table c.env f = .ok none) ∧
    (∀ f ∈ e.called, (∃ row, (f, row) ∈ r.replaced) ∨ f ∈ r.leftAlone) := by
  have h1 := resolve_erase c e r h
  have h2 := resolve_rows c e r h
  refine ⟨h1, h2, replaced_right c r h2, leftAlone_right c r h2, ?_⟩
  intro f hf
  rw [← h1] at hf
  exact called_cover r f hf

mutual
/-- the pre-pass fails only with the `AttributeError` of a called name that python's `eval` binds to
an object without `__module__` — wherever the call stands -/
theorem resolveX_error (c : Cfg) : ∀ (e : QExpr) (er : TrErr), resolveX c e = .error er →
    ∃ f ∈ e.called, er = .attributeError f ∧ c.env.get f = .noModuleAttr
  | .leaf _ _, er, h => by simp [resolveX] at h
  | .var _, er, h => by simp [resolveX] at h
  | .call g args, er, h => by
    unfold resolveX at h
    cases ha : resolveListX c args with
    | error e' =>
      simp only [ha, Except.error.injEq] at h
      subst h
      obtain ⟨f, hf, h1, h2⟩ := resolveListX_error c args _ ha
      exact ⟨f, by simp [QExpr.called, hf], h1, h2⟩
    | ok rs =>
      simp only [ha] at h
      cases hk : findKnown c.table c.env g with
      | error e' =>
        simp only [hk, Except.error.injEq] at h
        subst h
        obtain ⟨h1, h2⟩ := findKnown_error hk
        exact ⟨g, by simp [QExpr.called], h1, h2⟩
      | ok o => cases o <;> simp [hk] at h
  | .node k kids, er, h => by
    unfold resolveX at h
    cases ha : resolveListX c kids with
    | error e' =>
      simp only [ha, Except.error.injEq] at h
      subst h
      obtain ⟨f, hf, h1, h2⟩ := resolveListX_error c kids _ ha
      exact ⟨f, by simp [QExpr.called, hf], h1, h2⟩
    | ok rs => simp [ha] at h
theorem resolveListX_error (c : Cfg) : ∀ (es : List QExpr) (er : TrErr), resolveListX c es = .error er →
    ∃ f ∈ QExpr.calledList es, er = .attributeError f ∧ c.env.get f = .noModuleAttr
  | [], er, h => by simp [resolveListX] at h
  | a :: as, er, h => by
    unfold resolveListX at h
    cases ha : resolveX c a with
    | error e' =>
      simp only [ha, Except.error.injEq] at h
      subst h
      obtain ⟨f, hf, h1, h2⟩ := resolveX_error c a _ ha
      exact ⟨f, by simp [QExpr.calledList, hf], h1, h2⟩
    | ok a' =>
      simp only [ha] at h
      cases hs : resolveListX c as with
      | error e' =>
        simp only [hs, Except.error.injEq] at h
        subst h
        obtain ⟨f, hf, h1, h2⟩ := resolveListX_error c as _ hs
        exact ⟨f, by simp [QExpr.calledList, hf], h1, h2⟩
      | ok as' => simp [hs] at h
end

/-- **The pre-pass is total** on every expression none of whose called names is bound to a
module-less object. -/
theorem resolve_total (c : Cfg) (e : QExpr) (h : ∀ f ∈ e.called, c.env.get f ≠ .noModuleAttr) :
    ∃ r, resolveX c e = .ok r := by
  cases hr : resolveX c e with
  | ok r => exact ⟨r, rfl⟩
  | error er =>
    obtain ⟨f, hf, _, h2⟩ := resolveX_error c e er hr
    exact absurd h2 (h f hf)

/-! ## shadowing: what a name that is also a table key does -/

/-- **A method named like a math function is never replaced**: `j.sin(x)` has `func` an
`ast.Attribute`; the pre-pass returns the node as it is (its receiver and arguments are visited
like any other children). -/
theorem shadow_method (c : Cfg) (name ret : String) (coll : Bool) (kids : List QExpr) (r : RX)
    (h : resolveX c (.node (.meth name ret coll) kids) = .ok r) :
    ∃ ks, resolveListX c kids = .ok ks ∧ r = .node (.meth name ret coll) ks :=
  resolveX_node_inv h

/-- **A lambda parameter does not shadow**: the body of a lambda is resolved exactly as it would be
outside of it, whatever the parameters are called — `lambda sin: sin(x)` still becomes
`std::sin(x)` (the pre-pass asks python's `eval` in its own scope, not the query's). -/
theorem shadow_lambda_param (c : Cfg) (ps : List String) (b : QExpr) :
    resolveX c (.node (.lam ps) [b]) =
      (match resolveX c b with
        | .ok b' => .ok (.node (.lam ps) [b'])
        | .error e => .error e) := by
  cases hb : resolveX c b with
  | error e => simp [resolveX, resolveListX, hb]
  | ok b' => simp [resolveX, resolveListX, hb]

/-- … and a variable that is not *called* is never touched, whatever its name (`lambda sqrt: sqrt.pt()`). -/
theorem shadow_variable (c : Cfg) (x : String) : resolveX c (.var x) = .ok (.var x) := by simp [resolveX]

/-- **The table wins over a user C++ function of the same name**: if `f` resolves to a row, the call
`f(args)` is emitted as the row's C++ function whatever `add_cpp_function` blocks the query carries —
the pre-pass runs before `cpp_ast_finder`, which then no longer sees a Name. -/
theorem shadow_user_function (c : XCfg) (f : String) (row : Row) (args : List QExpr) (as : List RX) (vs : List XVal)
    (hk : findKnown c.base.table c.base.env f = .ok (some row))
    (ha : resolveListX c.base args = .ok as) (he : emitListX c as = .ok vs) (hv : vs.all XVal.isValue = true) :
    trX c (.call f args) = .ok ⟨.node (.call row.cpp) row.ret (termsOf vs), row.ret, mergeIncs (incsOf vs) row.includes, stmtsOf vs⟩ := by
  unfold trX
  simp [resolveX, ha, hk, emitX, he, buildCall, hv]

/-- A user C++ function is used exactly when the pre-pass left the call alone. -/
theorem user_function_used_iff_not_in_table (c : XCfg) (f : String) (fn : UserFn) (args : List QExpr) (as : List RX) (vs : List XVal)
    (hf : lookupFn c.userFns f = some fn) (hn : fn.nargs = vs.length)
    (hk : findKnown c.base.table c.base.env f = .ok none)
    (ha : resolveListX c.base args = .ok as) (he : emitListX c as = .ok vs) :
    ∃ v, trX c (.call f args) = .ok v ∧ v.term = .node (.bound f ("call:" ++ f)) fn.ret (termsOf vs) ∧
      v.incs = mergeIncs fn.incs (incsOf vs) := by
  unfold trX
  simp [resolveX, ha, hk, emitX, he, buildUCall, hf, hn, preIncs]

/-! ## pass 2 -/

/-- **Call emission at every position** (`visit_function_ast`): whatever the arguments are — method
values, subscripts, conditionals, results of user functions, other math calls — as long as they are
values, the call becomes `cpp_name(a,b,…)` of the row's declared type, the row's include files are
requested after those of the arguments, and the statements are those of the arguments. -/
theorem call_emitted_everywhere (c : XCfg) (f : String) (r : Row) (args : List RX) (vs : List XVal)
    (he : emitListX c args = .ok vs) (hv : vs.all XVal.isValue = true) :
    emitX c (.fcall f r args) = .ok ⟨.node (.call r.cpp) r.ret (termsOf vs), r.ret, mergeIncs (incsOf vs) r.includes, stmtsOf vs⟩ ∧
    renderX (.node (.call r.cpp) r.ret (termsOf vs)) = r.cpp ++ "(" ++ joinWith "," (renderListX (termsOf vs)) ++ ")" := by
  constructor
  · simp [emitX, he, buildCall, hv]
  · simp [renderX, renderNode]

theorem mem_incsOf_aux (vs : List XVal) : ∀ (acc : List String) (i : String),
    i ∈ vs.foldl (fun acc v => mergeIncs acc v.incs) acc ↔ i ∈ acc ∨ ∃ v ∈ vs, i ∈ v.incs := by
  induction vs with
  | nil => intro acc i; simp
  | cons v vs ih =>
    intro acc i
    simp only [List.foldl_cons, ih, mem_mergeIncs, List.mem_cons, exists_eq_or_imp]
    constructor
    · rintro ((h | h) | h)
      · exact Or.inl h
      · exact Or.inr (Or.inl h)
      · exact Or.inr (Or.inr h)
    · rintro (h | h | h)
      · exact Or.inl (Or.inl h)
      · exact Or.inl (Or.inr h)
      · exact Or.inr h

theorem mem_incsOf {vs : List XVal} {i : String} : i ∈ incsOf vs ↔ ∃ v ∈ vs, i ∈ v.incs := by
  unfold incsOf
  rw [mem_incsOf_aux]
  simp

theorem emitListX_cons_inv {c : XCfg} {a : RX} {as : List RX} {vs : List XVal} (h : emitListX c (a :: as) = .ok vs) :
    ∃ v vs', emitX c a = .ok v ∧ emitListX c as = .ok vs' ∧ vs = v :: vs' := by
  unfold emitListX at h
  cases ha : emitX c a with
  | error e => simp [ha] at h
  | ok v =>
    simp only [ha] at h
    cases hs : emitListX c as with
    | error e => simp [hs] at h
    | ok vs' => simp only [hs, Except.ok.injEq] at h; exact ⟨v, vs', rfl, rfl, h.symm⟩

theorem emitX_fcall_inv {c : XCfg} {f : String} {r : Row} {args : List RX} {v : XVal} (h : emitX c (.fcall f r args) = .ok v) :
    ∃ vs v0, emitListX c args = .ok vs ∧ buildCall r vs = .ok v0 ∧ v = { v0 with incs := mergeIncs (incsOf vs) r.includes } := by
  unfold emitX at h
  cases ha : emitListX c args with
  | error e => simp [ha] at h
  | ok vs =>
    simp only [ha] at h
    cases hb : buildCall r vs with
    | error e => simp [hb] at h
    | ok v0 => simp only [hb, Except.ok.injEq] at h; exact ⟨vs, v0, rfl, hb, h.symm⟩

theorem emitX_ucall_inv {c : XCfg} {f : String} {args : List RX} {v : XVal} (h : emitX c (.ucall f args) = .ok v) :
    ∃ vs v0, emitListX c args = .ok vs ∧ buildUCall c f vs = .ok v0 ∧ v = { v0 with incs := mergeIncs (preIncs c f) (incsOf vs) } := by
  unfold emitX at h
  cases ha : emitListX c args with
  | error e => simp [ha] at h
  | ok vs =>
    simp only [ha] at h
    cases hb : buildUCall c f vs with
    | error e => simp [hb] at h
    | ok v0 => simp only [hb, Except.ok.injEq] at h; exact ⟨vs, v0, rfl, hb, h.symm⟩

theorem emitX_node_inv {c : XCfg} {k : Kind} {kids : List RX} {v : XVal} (h : emitX c (.node k kids) = .ok v) :
    ∃ vs v0, emitListX c kids = .ok vs ∧ buildNode c k vs = .ok v0 ∧ v = { v0 with incs := mergeIncs (incsOf vs) (postIncs c k) } := by
  unfold emitX at h
  cases hp : preCheck c k with
  | some e => simp [hp] at h
  | none =>
    simp only [hp] at h
    cases ha : emitListX c kids with
    | error e => simp [ha] at h
    | ok vs =>
      simp only [ha] at h
      cases hb : buildNode c k vs with
      | error e => simp [hb] at h
      | ok v0 => simp only [hb, Except.ok.injEq] at h; exact ⟨vs, v0, rfl, hb, h.symm⟩

mutual
/-- **Headers, at every position.** Whatever is translated successfully, the include files of the row
of every replaced call anywhere in it — under a method call, a subscript, a conditional, a lambda … —
are among the include files requested. -/
theorem includes_of_replaced (c : XCfg) : ∀ (r : RX) (v : XVal), emitX c r = .ok v →
    ∀ p ∈ r.replaced, ∀ i ∈ p.2.includes, i ∈ v.incs
  | .leaf _ _, _, _, p, hp, _, _ => by simp [RX.replaced] at hp
  | .var _, _, _, p, hp, _, _ => by simp [RX.replaced] at hp
  | .fcall f row args, v, h, p, hp, i, hi => by
    obtain ⟨vs, v0, ha, _, rfl⟩ := emitX_fcall_inv h
    simp only [RX.replaced, List.mem_cons] at hp
    rcases hp with rfl | hp
    · exact mem_mergeIncs.2 (Or.inr hi)
    · exact mem_mergeIncs.2 (Or.inl (mem_incsOf.2 (includes_of_replacedList c args vs ha p hp i hi)))
  | .ucall f args, v, h, p, hp, i, hi => by
    obtain ⟨vs, v0, ha, _, rfl⟩ := emitX_ucall_inv h
    simp only [RX.replaced] at hp
    exact mem_mergeIncs.2 (Or.inr (mem_incsOf.2 (includes_of_replacedList c args vs ha p hp i hi)))
  | .node k kids, v, h, p, hp, i, hi => by
    obtain ⟨vs, v0, ha, _, rfl⟩ := emitX_node_inv h
    simp only [RX.replaced] at hp
    exact mem_mergeIncs.2 (Or.inl (mem_incsOf.2 (includes_of_replacedList c kids vs ha p hp i hi)))
theorem includes_of_replacedList (c : XCfg) : ∀ (rs : List RX) (vs : List XVal), emitListX c rs = .ok vs →
    ∀ p ∈ RX.replacedList rs, ∀ i ∈ p.2.includes, ∃ v ∈ vs, i ∈ v.incs
  | [], _, _, p, hp, _, _ => by simp [RX.replacedList] at hp
  | a :: as, vs, h, p, hp, i, hi => by
    obtain ⟨v, vs', h1, h2, rfl⟩ := emitListX_cons_inv h
    simp only [RX.replacedList, List.mem_append] at hp
    rcases hp with hp | hp
    · exact ⟨v, by simp, includes_of_replaced c a v h1 p hp i hi⟩
    · obtain ⟨w, hw, hiw⟩ := includes_of_replacedList c as vs' h2 p hp i hi
      exact ⟨w, by simp [hw], hiw⟩
end

/-! ## the meaning, lifted through every construct -/

theorem emitListX_nil_inv {c : XCfg} {vs : List XVal} (h : emitListX c [] = .ok vs) : vs = [] := by
  simp only [emitListX, Except.ok.injEq] at h; exact h.symm

theorem ctypesX_termsOf (vs : List XVal) (h : ∀ v ∈ vs, v.typeOK) : ctypesX (termsOf vs) = vs.map fun v => CT.ofName v.ty := by
  induction vs with
  | nil => simp [termsOf, ctypesX]
  | cons v vs ih =>
    have hv : v.typeOK := h v (by simp)
    have := ih (fun w hw => h w (by simp [hw]))
    simp only [termsOf, List.map_cons, ctypesX] at this ⊢
    rw [this, ← hv]

/-- the math call: namesake row + faithful declared type ⇒ same meaning, recorded type = C++ type -/
theorem call_sem {f : String} {r : Row} {vs : List XVal} {v0 : XVal} (hb : buildCall r vs = .ok v0)
    (hok : callOkRow f r (vs.map fun v => CT.ofName v.ty) = true) (hty : ∀ v ∈ vs, v.typeOK) :
    csymX v0.term = (match meaningPy f with
      | some m => Sym.app m (csymsX (termsOf vs))
      | none => Sym.unk (tagName ("call:" ++ f)) (csymsX (termsOf vs))) ∧ v0.typeOK := by
  unfold buildCall at hb
  split at hb
  · simp only [Except.ok.injEq] at hb
    subst hb
    simp only [callOkRow, Bool.and_eq_true, beq_iff_eq] at hok
    obtain ⟨⟨hsome, hmean⟩, hret⟩ := hok
    cases hm : meaningPy f with
    | none => simp [hm] at hsome
    | some m =>
      rw [hm] at hmean
      refine ⟨by simp [csymX, symNode, hmean], ?_⟩
      simp only [XVal.typeOK, ctypeX, ctypeNode, ctypesX_termsOf vs hty]
      exact hret
  · simp at hb

theorem bin_sem {c : Cfg} (hc : CfgOK c = true) {op : String} {l r v0 : XVal} (hb : buildBin c op l r = .ok v0)
    (hop : op ∈ arithBin) (hl : l.ty = "int" ∨ l.ty = "double") (hr : r.ty = "int" ∨ r.ty = "double")
    (hlt : l.typeOK) (hrt : r.typeOK) :
    csymX v0.term = psymNode (.bin op) [csymX l.term, csymX r.term] ∧ v0.typeOK := by
  obtain ⟨hAdd, hSub, hMul, hDiv, hPow, _, _⟩ := cfgOK_ops hc
  have hbt := bestType_int_double hc hl hr
  have e1 : ctypeX l.term = CT.ofName l.ty := hlt.symm
  have e2 : ctypeX r.term = CT.ofName r.ty := hrt.symm
  simp only [arithBin, List.mem_cons, List.mem_nil_iff, or_false] at hop
  unfold buildBin at hb
  rcases hop with rfl | rfl | rfl | rfl | rfl
  · simp only [hAdd, hbt] at hb
    simp only [show ¬ ("Add" = "Div") by decide, if_false, Except.ok.injEq] at hb
    subst hb
    refine ⟨by simp [csymX, csymsX, symNode, ctypesX, psymNode, cArith, pArith], ?_⟩
    simp only [XVal.typeOK, ctypeX, ctypesX, ctypeNode, e1, e2]
    rcases hl with h | h <;> rcases hr with h' | h' <;> simp [h, h', CT.ofName, CT.join]
  · simp only [hSub, hbt] at hb
    simp only [show ¬ ("Sub" = "Div") by decide, if_false, Except.ok.injEq] at hb
    subst hb
    refine ⟨by simp [csymX, csymsX, symNode, ctypesX, psymNode, cArith, pArith], ?_⟩
    simp only [XVal.typeOK, ctypeX, ctypesX, ctypeNode, e1, e2]
    rcases hl with h | h <;> rcases hr with h' | h' <;> simp [h, h', CT.ofName, CT.join]
  · simp only [hMul, hbt] at hb
    simp only [show ¬ ("Mult" = "Div") by decide, if_false, Except.ok.injEq] at hb
    subst hb
    refine ⟨by simp [csymX, csymsX, symNode, ctypesX, psymNode, cArith, pArith], ?_⟩
    simp only [XVal.typeOK, ctypeX, ctypesX, ctypeNode, e1, e2]
    rcases hl with h | h <;> rcases hr with h' | h' <;> simp [h, h', CT.ofName, CT.join]
  · -- Div: python's `/` is real division; the cast is emitted exactly when C++ would truncate
    simp only [hDiv, hbt, if_true] at hb
    by_cases hii : l.ty = "int" ∧ r.ty = "int"
    · simp only [hii, and_self, if_true, Except.ok.injEq] at hb
      subst hb
      refine ⟨by simp [csymX, csymsX, symNode, ctypesX, ctypeX, ctypeNode, psymNode, cArith, pArith, CT.ofName], ?_⟩
      simp [XVal.typeOK, ctypeX, ctypesX, ctypeNode, e2, hii.2, CT.ofName, CT.join]
    · have hne : ¬ (ctypeX l.term = .int ∧ ctypeX r.term = .int) := by
        rw [e1, e2, CT.ofName_int, CT.ofName_int]; exact hii
      simp only [hii, if_false, show ¬ ("double" = "int") by decide, Except.ok.injEq] at hb
      subst hb
      refine ⟨by simp [csymX, csymsX, symNode, ctypesX, psymNode, cArith, pArith, hne], ?_⟩
      simp only [XVal.typeOK, ctypeX, ctypesX, ctypeNode, e1, e2]
      rcases hl with h | h <;> rcases hr with h' | h' <;> simp_all [CT.ofName, CT.join]
  · simp only [hPow, if_true, Except.ok.injEq] at hb
    subst hb
    exact ⟨by simp [csymX, csymsX, symNode, psymNode], by simp [XVal.typeOK, ctypeX, ctypeNode, CT.ofName]⟩

theorem ofName_bool : CT.ofName "bool" = .other := by decide
theorem ofName_tuple : CT.ofName "tuple" = .other := by decide
theorem ofName_dict : CT.ofName "dict" = .other := by decide
theorem ofName_sequence : CT.ofName "sequence" = .other := by decide

/-- one node: the emitted construct means the python construct of the meanings of its operands, and
the recorded type is the type C++ gives it -/
theorem node_sem {c : XCfg} (hc : CfgOK c.base = true) {k : Kind} {vs : List XVal} {v0 : XVal}
    (hb : buildNode c k vs = .ok v0) (hk : kindOk c k (vs.map (·.ty)) = true) (hty : ∀ v ∈ vs, v.typeOK) :
    csymX v0.term = psymNode k (csymsX (termsOf vs)) ∧ v0.typeOK := by
  cases k with
  | bin op =>
    rcases vs with _ | ⟨l, _ | ⟨r, _ | ⟨x, rest⟩⟩⟩ <;> try (simp [buildNode] at hb)
    simp only [kindOk, Bool.and_eq_true, decide_eq_true_eq, List.map_cons, List.map_nil, List.all_cons, List.all_nil,
      Bool.and_true, Bool.or_eq_true, beq_iff_eq] at hk
    have := bin_sem hc hb hk.1 hk.2.1 hk.2.2 (hty l (by simp)) (hty r (by simp))
    simpa [termsOf, csymsX] using this
  | un op =>
    rcases vs with _ | ⟨e, _ | ⟨x, rest⟩⟩ <;> try (simp [buildNode] at hb)
    simp only [kindOk, arithUn, List.mem_cons, List.mem_nil_iff, or_false, decide_eq_true_eq] at hk
    obtain ⟨_, _, _, _, _, hNeg, hPos⟩ := cfgOK_ops hc
    have he : e.typeOK := hty e (by simp)
    rcases hk with rfl | rfl
    · simp only [hNeg, Except.ok.injEq] at hb
      subst hb
      exact ⟨by simp [csymX, csymsX, symNode, psymNode, termsOf, cUn, pUn],
        by simpa [XVal.typeOK, ctypeX, ctypesX, ctypeNode, unTy] using he⟩
    · simp only [hPos, Except.ok.injEq] at hb
      subst hb
      exact ⟨by simp [csymX, csymsX, symNode, psymNode, termsOf, cUn, pUn],
        by simpa [XVal.typeOK, ctypeX, ctypesX, ctypeNode, unTy] using he⟩
  | cmp op =>
    rcases vs with _ | ⟨l, _ | ⟨r, _ | ⟨x, rest⟩⟩⟩ <;> try (simp [buildNode] at hb)
    cases hs : assoc c.cmpOps op with
    | none => simp [hs] at hb
    | some sym =>
      simp only [kindOk, hs, beq_iff_eq] at hk
      simp only [hs, Except.ok.injEq] at hb
      subst hb
      exact ⟨by simp [csymX, csymsX, symNode, psymNode, termsOf, hk], by simp [XVal.typeOK, ctypeX, ctypeNode, ofName_bool]⟩
  | boolop op =>
    rcases vs with _ | ⟨v, rest⟩
    · simp [buildNode] at hb
    · simp only [buildNode, Except.ok.injEq] at hb
      subst hb
      exact ⟨by simp [csymX, symNode, psymNode], by simp [XVal.typeOK, ctypeX, ctypeNode]⟩
  | ite =>
    rcases vs with _ | ⟨t, _ | ⟨a, _ | ⟨b, _ | ⟨x, rest⟩⟩⟩⟩ <;> try (simp [buildNode] at hb)
    split at hb
    · simp at hb
    · simp only [Except.ok.injEq] at hb
      subst hb
      exact ⟨by simp [csymX, csymsX, symNode, psymNode, termsOf], by simp [XVal.typeOK, ctypeX, ctypeNode]⟩
  | tuple =>
    simp only [buildNode, Except.ok.injEq] at hb
    subst hb
    exact ⟨by simp [csymX, symNode, psymNode], by simp [XVal.typeOK, ctypeX, ctypeNode, ofName_tuple]⟩
  | list =>
    simp only [buildNode, Except.ok.injEq] at hb
    subst hb
    exact ⟨by simp [csymX, symNode, psymNode], by simp [XVal.typeOK, ctypeX, ctypeNode, ofName_tuple]⟩
  | dict keys =>
    simp only [buildNode, Except.ok.injEq] at hb
    subst hb
    exact ⟨by simp [csymX, symNode, psymNode], by simp [XVal.typeOK, ctypeX, ctypeNode, ofName_dict]⟩
  | index =>
    rcases vs with _ | ⟨v, _ | ⟨i, _ | ⟨x, rest⟩⟩⟩ <;> try (simp [buildNode] at hb)
    split at hb
    · simp only [Except.ok.injEq] at hb
      subst hb
      exact ⟨by simp [csymX, csymsX, symNode, psymNode, termsOf], by simp [XVal.typeOK, ctypeX, ctypeNode]⟩
    · simp at hb
  | meth name ret coll =>
    rcases vs with _ | ⟨recv, args⟩
    · simp [buildNode] at hb
    · simp only [buildNode] at hb
      split at hb
      · simp only [Except.ok.injEq] at hb
        subst hb
        exact ⟨by simp [csymX, symNode, psymNode], by simp [XVal.typeOK, ctypeX, ctypeNode]⟩
      · simp at hb
  | lam ps =>
    rcases vs with _ | ⟨b, _ | ⟨x, rest⟩⟩ <;> try (simp [buildNode] at hb)
    subst hb
    exact ⟨by simp [psymNode, termsOf, csymsX], hty _ (by simp)⟩

/-- a Name-call the pre-pass left alone (user function, sequence operator) -/
theorem ucall_sem {c : XCfg} {f : String} {vs : List XVal} {v0 : XVal} (hb : buildUCall c f vs = .ok v0) :
    csymX v0.term = Sym.unk (tagName ("call:" ++ f)) (csymsX (termsOf vs)) ∧ v0.typeOK := by
  unfold buildUCall at hb
  cases hf : lookupFn c.userFns f with
  | some fn =>
    simp only [hf] at hb
    split at hb
    · simp only [Except.ok.injEq] at hb
      subst hb
      exact ⟨by simp [csymX, symNode], by simp [XVal.typeOK, ctypeX, ctypeNode]⟩
    · simp at hb
  | none =>
    simp only [hf] at hb
    split at hb
    · split at hb
      · simp only [Except.ok.injEq] at hb
        subst hb
        exact ⟨by simp [csymX, symNode], by simp [XVal.typeOK, ctypeX, ctypeNode, ofName_sequence]⟩
      · split at hb
        · simp at hb
        · simp only [Except.ok.injEq] at hb
          subst hb
          exact ⟨by simp [csymX, symNode], by simp [XVal.typeOK, ctypeX, ctypeNode]⟩
      · simp only [Except.ok.injEq] at hb
        subst hb
        exact ⟨by simp [csymX, symNode], by simp [XVal.typeOK, ctypeX, ctypeNode, ofName_sequence]⟩
    · simp at hb

theorem tyOfR_ok {c : XCfg} {r : RX} {v : XVal} (h : emitX c r = .ok v) : tyOfR c r = v.ty := by
  simp [tyOfR, h]

theorem map_tyOfR {c : XCfg} : ∀ (rs : List RX) (vs : List XVal), emitListX c rs = .ok vs → rs.map (tyOfR c) = vs.map (·.ty)
  | [], vs, h => by rw [emitListX_nil_inv h]; simp
  | a :: as, vs, h => by
    obtain ⟨v, vs', h1, h2, rfl⟩ := emitListX_cons_inv h
    simp [tyOfR_ok h1, map_tyOfR as vs' h2]

mutual
/-- **Namesake semantics through every construct, for every configuration.**  If the translation of a
resolved expression succeeds and the expression is in scope (`goodR`: every replaced call's row is the
namesake of the written name and declares the C++ result type for the argument types at hand;
arithmetic `+ - * / **`, unary `+ -` on `int`/`double` operands; comparison symbols are those of their
python operators; nothing is asked of method calls, subscripts, conditionals, `and`/`or`, tuples,
dicts, lambdas, user functions, sequence operators), then the emitted term means what the query means
with every function read by its documented name, and the recorded type is the C++ type. -/
theorem sem_emit (c : XCfg) (hc : CfgOK c.base = true) : ∀ (r : RX) (v : XVal), emitX c r = .ok v → goodR c r = true →
    csymX v.term = psymX c.vars r.erase ∧ v.typeOK
  | .leaf t ty, v, h, _ => by
    simp only [emitX, Except.ok.injEq] at h; subst h
    simp [csymX, psymX, RX.erase, XVal.typeOK, ctypeX]
  | .var x, v, h, _ => by
    unfold emitX at h
    cases hx : lookupVar c.vars x with
    | none => simp [hx] at h
    | some p =>
      obtain ⟨t, ty⟩ := p
      simp only [hx, Except.ok.injEq] at h; subst h
      simp [csymX, psymX, RX.erase, hx, XVal.typeOK, ctypeX]
  | .fcall f row args, v, h, hg => by
    obtain ⟨vs, v0, ha, hb, rfl⟩ := emitX_fcall_inv h
    simp only [goodR, Bool.and_eq_true] at hg
    obtain ⟨hsyms, htys⟩ := sem_emitList c hc args vs ha hg.1
    have hmap : (args.map fun a => CT.ofName (tyOfR c a)) = vs.map fun v => CT.ofName v.ty := by
      have := congrArg (List.map CT.ofName) (map_tyOfR args vs ha)
      simpa [List.map_map, Function.comp_def] using this
    have hok := hg.2
    rw [hmap] at hok
    obtain ⟨h1, h2⟩ := call_sem hb hok htys
    refine ⟨?_, h2⟩
    simp only [RX.erase, psymX]
    rw [h1, hsyms]
    cases meaningPy f <;> rfl
  | .ucall f args, v, h, hg => by
    obtain ⟨vs, v0, ha, hb, rfl⟩ := emitX_ucall_inv h
    simp only [goodR, Bool.and_eq_true, Option.isNone_iff_eq_none] at hg
    obtain ⟨hsyms, htys⟩ := sem_emitList c hc args vs ha hg.2
    obtain ⟨h1, h2⟩ := ucall_sem hb
    refine ⟨?_, h2⟩
    simp only [RX.erase, psymX, hg.1]
    rw [h1, hsyms]
  | .node k kids, v, h, hg => by
    obtain ⟨vs, v0, ha, hb, rfl⟩ := emitX_node_inv h
    simp only [goodR, Bool.and_eq_true] at hg
    obtain ⟨hsyms, htys⟩ := sem_emitList c hc kids vs ha hg.1
    have hk := hg.2
    rw [map_tyOfR kids vs ha] at hk
    obtain ⟨h1, h2⟩ := node_sem hc hb hk htys
    refine ⟨?_, h2⟩
    simp only [RX.erase, psymX]
    rw [h1, hsyms]
theorem sem_emitList (c : XCfg) (hc : CfgOK c.base = true) : ∀ (rs : List RX) (vs : List XVal), emitListX c rs = .ok vs →
    goodRList c rs = true → csymsX (termsOf vs) = psymsX c.vars (RX.eraseList rs) ∧ ∀ v ∈ vs, v.typeOK
  | [], vs, h, _ => by
    rw [emitListX_nil_inv h]
    simp [termsOf, csymsX, psymsX, RX.eraseList]
  | a :: as, vs, h, hg => by
    obtain ⟨v, vs', h1, h2, rfl⟩ := emitListX_cons_inv h
    simp only [goodRList, Bool.and_eq_true] at hg
    obtain ⟨e1, t1⟩ := sem_emit c hc a v h1 hg.1
    obtain ⟨e2, t2⟩ := sem_emitList c hc as vs' h2 hg.2
    refine ⟨?_, ?_⟩
    · simp only [termsOf, List.map_cons, csymsX, RX.eraseList, psymsX, e1]
      have : csymsX (termsOf vs') = psymsX c.vars (RX.eraseList as) := e2
      simp only [termsOf] at this
      rw [this]
    · intro w hw
      rcases List.mem_cons.1 hw with rfl | hw
      · exact t1
      · exact t2 w hw
end

/-! ## on the generated constants: the property at every position -/

theorem header_is_cmath (m : MathFn) : m.header = "cmath" := rfl

/-- **Every documented function, at every position, is replaced by its own `<cmath>` row.**  For every
expression of the extended language (no bound on size, depth or nesting of the constructs) and every
Name-call in it of a function of the README list: the pre-pass replaces it (it is never left as an
unknown python call), and whatever row it carries is a row of the table that is the namesake of the
written name and pulls in `cmath` — it is never rewritten to another function. -/
theorem documented_resolved_everywhere (e : QExpr) (r : RX) (h : resolveX Gen.cfg e = .ok r) :
    ∀ f ∈ e.called, f ∈ Gen.readmeFunctions →
      f ∉ r.leftAlone ∧ (∃ row, (f, row) ∈ r.replaced) ∧
      ∀ row, (f, row) ∈ r.replaced →
        row ∈ Gen.table ∧ (meaningPy f).isSome = true ∧ meaningCpp row.cpp = meaningPy f ∧ "cmath" ∈ row.includes := by
  intro f hf hdoc
  obtain ⟨_, _, hrep, hleft, hcov⟩ := resolved_everywhere Gen.cfg e r h
  have hacc := documented_accepted f hdoc
  unfold acceptedAs at hacc
  have hnl : f ∉ r.leftAlone := by
    intro hin
    have := hleft f hin
    simp [this] at hacc
  refine ⟨hnl, ?_, ?_⟩
  · rcases hcov f hf with h' | h'
    · exact h'
    · exact absurd h' hnl
  · intro row hrow
    have hk := hrep (f, row) hrow
    simp only at hk
    simp only [hk, Bool.and_eq_true, beq_iff_eq] at hacc
    have hmem : row ∈ Gen.table := findKnown_mem hk
    have hh := header row hmem
    unfold rowHeader at hh
    cases hm : meaningCpp row.cpp with
    | none => simp [hm] at hh
    | some m =>
      simp only [hm, List.contains_eq_mem, decide_eq_true_eq, header_is_cmath] at hh
      exact ⟨hmem, hacc.1, hm ▸ hacc.2, hh⟩

/-- **No position makes the pre-pass refuse a documented function**: an expression whose called names
are documented functions or names python's `eval` does not find (sequence operators, user functions)
always passes the pre-pass. -/
theorem documented_positions_never_refused (e : QExpr)
    (h : ∀ f ∈ e.called, f ∈ Gen.readmeFunctions ∨ Gen.evalEnv.get f = .unbound) : ∃ r, resolveX Gen.cfg e = .ok r := by
  apply resolve_total
  intro f hf
  have all : ∀ g ∈ Gen.readmeFunctions, Gen.evalEnv.get g ≠ .noModuleAttr := by decide +kernel
  rcases h f hf with h' | h'
  · exact all f h'
  · show Gen.evalEnv.get f ≠ .noModuleAttr
    rw [h']; simp

/-- **`cmath` is requested whenever a documented function is called at any position** of a translated
expression, whatever user functions and variables the query has. -/
theorem includes_reachable_positions (fns : List UserFn) (vars : List (String × String × String)) (e : QExpr) (v : XVal)
    (h : trX (Gen.xcfg fns vars) e = .ok v) (hcall : ∃ f ∈ e.called, f ∈ Gen.readmeFunctions) : "cmath" ∈ v.incs := by
  unfold trX at h
  cases hr : resolveX (Gen.xcfg fns vars).base e with
  | error er => simp [hr] at h
  | ok r =>
    simp only [hr] at h
    obtain ⟨f, hf, hdoc⟩ := hcall
    obtain ⟨_, ⟨row, hrow⟩, hall⟩ := documented_resolved_everywhere e r hr f hf hdoc
    obtain ⟨_, _, _, hc⟩ := hall row hrow
    exact includes_of_replaced _ r v h (f, row) hrow "cmath" hc

/-- **… and every rendered C++ file that calls a math function sees it** — on the three backends, with
any `inject_code` include lists, whatever other constructs of the query request before or after. -/
theorem package_positions (b : Backend) (mds : List Inject) (hdrCalls : Bool)
    (hh : hdrCalls = true → "cmath" ∈ headerIncsOf mds) (pre post : List String)
    (fns : List UserFn) (vars : List (String × String × String)) (e : QExpr) (v : XVal)
    (h : trX (Gen.xcfg fns vars) e = .ok v) (hcall : ∃ f ∈ e.called, f ∈ Gen.readmeFunctions) :
    PackageSpec (packageFiles b (withCompanions pre v.incs post) mds hdrCalls) = true := by
  apply package_spec b _ mds hdrCalls _ hh
  exact (companions_keep_all pre v.incs post "cmath").2 (Or.inr (Or.inl (includes_reachable_positions fns vars e v h hcall)))

/-- the comparison symbols of the translator are those of their python operators -/
theorem cmp_ops_ok : ∀ p ∈ Gen.cmpOps, cmpName p.2 = p.1 := by decide +kernel

/-- **The call condition of the scope holds for every documented function except `abs` and `remquo`**,
for all argument types — so at a position only the two listed defect classes can put a documented call
outside `ScopedX`. -/
theorem documented_call_in_scope (f : String) (hf : f ∈ Gen.readmeFunctions) (hx : f ∉ ["abs", "remquo"]) (row : Row)
    (hk : findKnown Gen.cfg.table Gen.cfg.env f = .ok (some row)) (tys : List CT) : callOkRow f row tys = true := by
  have := documented_scoped_partial f hf hx tys
  unfold callOk at this
  simp only [hk, Bool.and_eq_true, beq_iff_eq] at this
  simp only [callOkRow, Bool.and_eq_true, beq_iff_eq]
  exact ⟨⟨this.1.1.1.1, this.1.1.1.2⟩, this.1.1.2⟩

/-
FULL STATEMENT (false as it stands, for the same two reasons as in the scalar fragment — `remquo`
needs an `int*`, `abs` of integers is `int` but declared `double`): for every expression `e` of the
extended language whose Name-calls are documented functions with the right number of arguments,
`trX` succeeds and `csymX v.term = psymX vars e`.  Counterexample: `namesake_positions_counterexample_abs_int`.
-/
/-- **C12 at every position, on the model.**  For every expression of the extended language in scope
(`ScopedX`, decidable; by `documented_call_in_scope` every documented function but `abs`-of-integers
and `remquo` meets its call clause) whose translation succeeds: the emitted C++ — the call wherever it
stands, inside whatever constructs — *denotes the same value as the query under every interpretation of
the `<cmath>` meanings, of arithmetic and of the surrounding constructs*, each function read by its
documented name; the recorded type is the type C++ gives the term. -/
theorem namesake_semantics_positions (fns : List UserFn) (vars : List (String × String × String)) (e : QExpr) (v : XVal)
    (h : trX (Gen.xcfg fns vars) e = .ok v) (hs : ScopedX (Gen.xcfg fns vars) e = true) :
    csymX v.term = psymX vars e ∧ CT.ofName v.ty = ctypeX v.term ∧
      ∀ (α : Type) (I : Interp α), Sym.eval I (csymX v.term) = Sym.eval I (psymX vars e) := by
  unfold trX at h
  unfold ScopedX at hs
  cases hr : resolveX (Gen.xcfg fns vars).base e with
  | error er => simp [hr] at h
  | ok r =>
    simp only [hr] at h hs
    obtain ⟨h1, h2⟩ := sem_emit (Gen.xcfg fns vars) cfg_ok r v h hs
    have he : r.erase = e := resolve_erase _ e r hr
    rw [he] at h1
    have h1' : csymX v.term = psymX vars e := h1
    exact ⟨h1', h2, fun α I => by rw [h1']⟩

/-! ### examples: the positions, on the generated constants -/

def exVars : List (String × String × String) :=
  [("j", "i_obj", "xAOD::Jet*"), ("sin", "i_obj", "xAOD::Jet*"), ("acc", "aggResult", "double")]
def exFns : List UserFn := [⟨"c12_twice", 1, [], "double"⟩, ⟨"sin", 1, ["my.h"], "double"⟩]
def exF : QExpr := .call "sin" [.leaf "i_obj->pt()" "double"]
def exShow (e : QExpr) : Option (String × String × List String × List String) :=
  (trX (Gen.xcfg exFns exVars) e).toOption.map fun v => (renderX v.term, v.ty, v.incs, v.stmts)

-- argument of a method call; subscript
example : exShow (.node (.meth "mD" "double" false) [.var "j", exF]) =
    some ("i_obj->mD(std::sin(i_obj->pt()))", "double", ["cmath"], []) ∧
    ScopedX (Gen.xcfg exFns exVars) (.node (.meth "mD" "double" false) [.var "j", exF]) = true := by decide +kernel
example : exShow (.node .index [.node (.meth "vD" "double" true) [.var "j"], exF]) =
    some ("i_obj->vD().at(std::sin(i_obj->pt()))", "double", ["cmath"], []) := by decide +kernel
-- test and arm of a conditional
example : exShow (.node .ite [.node (.cmp "Gt") [exF, .leaf "0.5" "double"], .leaf "1.5" "double", .node (.un "USub") [exF]]) =
    some (Gen.ifName, "double", ["cmath"],
      ["if((std::sin(i_obj->pt())>0.5))", Gen.ifName ++ "=1.5;", "else", Gen.ifName ++ "=(-(std::sin(i_obj->pt())));"]) ∧
    ScopedX (Gen.xcfg exFns exVars) (.node .ite [.node (.cmp "Gt") [exF, .leaf "0.5" "double"], .leaf "1.5" "double", .node (.un "USub") [exF]]) = true := by
  decide +kernel
-- operand of `and`
example : exShow (.node (.boolop "And") [.node (.cmp "Gt") [exF, .leaf "1.0" "double"], .node (.cmp "Gt") [.leaf "i_obj->pt()" "double", .leaf "2" "int"]]) =
    some (Gen.boolName, "bool", ["cmath"],
      [Gen.boolName ++ "=(std::sin(i_obj->pt())>1.0);", "if(" ++ Gen.boolName ++ ")", Gen.boolName ++ "=(i_obj->pt()>2);"]) := by decide +kernel
-- argument of a user function; `Where` predicate; body of an aggregate
example : exShow (.call "c12_twice" [exF]) = some ("c12_twice", "double", ["cmath"], ["std::sin(i_obj->pt())", "c12_twice=result;"]) := by
  decide +kernel
example : exShow (.call "Where" [.leaf "jets" "coll", .node (.lam ["j"]) [.node (.cmp "Lt") [exF, .leaf "2.4" "double"]]]) =
    some ("<call:Where>", "sequence", ["cmath"], ["if((std::sin(i_obj->pt())<2.4))"]) := by decide +kernel
example : exShow (.call "Aggregate" [.leaf "jets" "coll", .leaf "0.0" "double", .node (.lam ["acc", "j"]) [.node (.bin "Add") [.var "acc", exF]]]) =
    some (Gen.accName, "double", ["cmath"], [Gen.accName ++ "(0.0);", Gen.accName ++ "=(aggResult+std::sin(i_obj->pt()));"]) ∧
    ScopedX (Gen.xcfg exFns exVars) (.call "Aggregate" [.leaf "jets" "coll", .leaf "0.0" "double", .node (.lam ["acc", "j"]) [.node (.bin "Add") [.var "acc", exF]]]) = true := by
  decide +kernel
-- shadowing: a method named `sin` is a method; a lambda parameter named `sin` that is called is the math function;
-- a user function named `sin` loses against the table (`my.h` is not even requested)
example : exShow (.node (.meth "sin" "double" false) [.var "j", .leaf "1.0" "double"]) = some ("i_obj->sin(1.0)", "double", [], []) := by
  decide +kernel
example : exShow (.node (.lam ["sin"]) [.call "sin" [.node (.meth "pt" "double" false) [.var "sin"]]]) =
    some ("std::sin(i_obj->pt())", "double", ["cmath"], []) := by decide +kernel
example : exShow exF = some ("std::sin(i_obj->pt())", "double", ["cmath"], []) ∧ (lookupFn exFns "sin").isSome = true := by decide +kernel
-- a refusal that is not the math call's: an unknown name next to it
example : (trX (Gen.xcfg exFns exVars) (.node .tuple [exF, .call "frexp" [.leaf "x" "double"]])).toOption.isNone = true := by decide +kernel

/-- `j.mD(abs(n)/2)` with `n : int`: the defect of the scalar fragment is a defect at every position
(outside `ScopedX`; the emitted term divides two integers, the query divides reals). -/
theorem namesake_positions_counterexample_abs_int :
    ScopedX (Gen.xcfg [] [("j", "i_obj", "xAOD::Jet*")])
      (.node (.meth "mD" "double" false) [.var "j", .node (.bin "Div") [.call "abs" [.leaf "n" "int"], .leaf "2" "int"]]) = false ∧
    ((trX (Gen.xcfg [] [("j", "i_obj", "xAOD::Jet*")])
      (.node (.meth "mD" "double" false) [.var "j", .node (.bin "Div") [.call "abs" [.leaf "n" "int"], .leaf "2" "int"]])).toOption.map
        fun v => Sym.beq (csymX v.term) (psymX [("j", "i_obj", "xAOD::Jet*")]
          (.node (.meth "mD" "double" false) [.var "j", .node (.bin "Div") [.call "abs" [.leaf "n" "int"], .leaf "2" "int"]]))) = some false := by
  decide +kernel

/-- the tie predicate discriminates: the statements of a conditional in another order, or a call
replaced by another function, are rejected -/
theorem position_tie_discriminates :
    firstMissing ["if((std::sin(x)>0.5))", "r=1.5;", "else", "r=std::sin(x);"]
      ["doubler;", "if((std::sin(x)>0.5))", "{", "r=1.5;", "}", "else", "{", "r=std::sin(x);", "}", "_col=r;"] = none ∧
    firstMissing ["if((std::sin(x)>0.5))", "r=1.5;", "else", "r=std::sin(x);"]
      ["doubler;", "if((std::sin(x)>0.5))", "{", "r=std::sin(x);", "}", "else", "{", "r=1.5;", "}", "_col=r;"] = some "else" ∧
    firstMissing ["i_obj->mD(std::sin(x))"] ["_col=i_obj->mD(std::cos(x));"] = some "i_obj->mD(std::sin(x))" := by decide +kernel

end FaxVerif.C12
