/-
C12 driver: one JSON request per line on stdin, one JSON answer per line on stdout.
  {"op":"row","row":{"py":..,"cpp":..,"includes":[..],"ret":..}}
      -> {"holds":b,"namesake":b,"header":b,"ret":b,"arith":b,"faithful":b,"byvalue":b,"knownPy":b,"knownCpp":b}
  {"op":"resolve","name":n[,"binding":{"k":"unbound"|"module"|"nomodule","m":..}]}
      -> {"row":{..}|null} | {"err":"AttributeError"}          (generated table, generated or given binding)
  {"op":"accepted","name":n} -> {"holds":b}                     (acceptedAs on the generated configuration)
  {"op":"tr","expr":E}
      -> {"ok":{"text":..,"ty":..,"incs":[..]},"roundtrip":b,...flags} | {"err":<python exception class>,...flags}
         flags: "documented","scoped","accepted","clean","spec" (SpecTerm of the model's own result)
  {"op":"spec","expr":E,"leaves":[[text,ty],..],"obs":{"text":..,"declTy":..,"incs":[..]}|null}
      -> {"holds":b,"why":s}
  {"op":"placement","expr":E,"leaves":[[text,ty],..],"obs":{"code":text,"incs":[..]}|null} -> {"holds":b,"why":s}   (PlacementSpec)
  {"op":"alive","expr":E,"leaves":[[text,ty],..],"members":[name..],"lines":[{"k":"open"|"close"|"for"|"stmt","t":text,"d":[declared..],"u":[used..]}..]}
      -> {"holds":b,"why":s}   (AliveSpec: the line that holds the call mentions only variables alive there)
  {"op":"package","expr":E,"backend":"atlas"|"cms_aod"|"cms_miniaod","injects":[{"header_includes":[..],"body_includes":[..]}..],"hdrCalls":b[,"pre":[..],"post":[..]]}
      (pre / post: include requests other constructs of the query make before / after the expression's own: withCompanions)
      -> {"files":[{"name":..,"incs":[..],"calls":b}..],"holds":b} | {"err":class}     (model: tr + packageFiles)
  {"op":"pkgspec","files":[{"name":..,"incs":[..],"calls":b}..]} -> {"holds":b,"culprit":name|null}   (PackageSpec on observed files)
  {"op":"trx","expr":Q,"fns":[{"name":..,"nargs":n,"incs":[..],"ret":..}..],"vars":[[name,text,type]..],"lines":[text..]|null,"incs":[..]}
      (the POSITIONS model, PosModel.lean; lines / incs: the statements of the rendered per-event method and the added include files)
      -> {"ok":{"text":..,"ty":..,"incs":[..],"stmts":[..],"frags":[..]},"scoped":b,"called":[..],"tie":{"holds":b,"why":s}|null} | {"err":class,"scoped":b}
  Q ::= E-forms (bin / un become nodes) | {"k":"var","n":name} | {"k":"node","kind":K,"kids":[Q..]}
  K ::= {"t":"bin"|"un"|"cmp"|"boolop","op":astclass} | {"t":"ite"|"tuple"|"list"|"index"} | {"t":"dict","keys":[..]}
      | {"t":"meth","name":..,"ret":..,"coll":b} | {"t":"lam","params":[..]}
  E ::= {"k":"leaf","t":text,"ty":type} | {"k":"call","f":name,"args":[E..]}
      | {"k":"bin","op":astclass,"l":E,"r":E} | {"k":"un","op":astclass,"e":E}
Run: lake env lean --run FaxVerif/C12/Driver.lean
-/
import Lean.Data.Json
import FaxVerif.C12.Spec
import FaxVerif.C12.PosSpec
import FaxVerif.Generated.C12Table
open Lean FaxVerif.C12

def strList (j : Json) : Except String (List String) := do
  let a ← j.getArr?
  a.toList.mapM (·.getStr?)

def jstrs (l : List String) : Json := Json.arr (l.map Json.str).toArray

def parseRow (j : Json) : Except String Row := do
  let py ← (← j.getObjVal? "py").getStr?
  let cpp ← (← j.getObjVal? "cpp").getStr?
  let includes ← strList (← j.getObjVal? "includes")
  let ret ← (← j.getObjVal? "ret").getStr?
  pure { py, cpp, includes, ret }

def rowJson (r : Row) : Json :=
  Json.mkObj [("py", r.py), ("cpp", r.cpp), ("includes", jstrs r.includes), ("ret", r.ret)]

partial def parseExpr (j : Json) : Except String PExpr := do
  let k ← (← j.getObjVal? "k").getStr?
  if k == "leaf" then
    pure (.leaf (← (← j.getObjVal? "t").getStr?) (← (← j.getObjVal? "ty").getStr?))
  else if k == "call" then
    let args ← (← j.getObjVal? "args").getArr?
    pure (.call (← (← j.getObjVal? "f").getStr?) (← args.toList.mapM parseExpr))
  else if k == "bin" then
    pure (.bin (← (← j.getObjVal? "op").getStr?) (← parseExpr (← j.getObjVal? "l")) (← parseExpr (← j.getObjVal? "r")))
  else if k == "un" then
    pure (.un (← (← j.getObjVal? "op").getStr?) (← parseExpr (← j.getObjVal? "e")))
  else throw s!"unknown expression kind {k}"

def parseKind (j : Json) : Except String Kind := do
  let t ← (← j.getObjVal? "t").getStr?
  if t == "bin" then pure (.bin (← (← j.getObjVal? "op").getStr?))
  else if t == "un" then pure (.un (← (← j.getObjVal? "op").getStr?))
  else if t == "cmp" then pure (.cmp (← (← j.getObjVal? "op").getStr?))
  else if t == "boolop" then pure (.boolop (← (← j.getObjVal? "op").getStr?))
  else if t == "ite" then pure .ite
  else if t == "tuple" then pure .tuple
  else if t == "list" then pure .list
  else if t == "index" then pure .index
  else if t == "dict" then pure (.dict (← strList (← j.getObjVal? "keys")))
  else if t == "meth" then
    pure (.meth (← (← j.getObjVal? "name").getStr?) (← (← j.getObjVal? "ret").getStr?) (← (← j.getObjVal? "coll").getBool?))
  else if t == "lam" then pure (.lam (← strList (← j.getObjVal? "params")))
  else throw s!"unknown node kind {t}"

partial def parseQ (j : Json) : Except String QExpr := do
  let k ← (← j.getObjVal? "k").getStr?
  if k == "leaf" then
    pure (.leaf (← (← j.getObjVal? "t").getStr?) (← (← j.getObjVal? "ty").getStr?))
  else if k == "var" then pure (.var (← (← j.getObjVal? "n").getStr?))
  else if k == "call" then
    let args ← (← j.getObjVal? "args").getArr?
    pure (.call (← (← j.getObjVal? "f").getStr?) (← args.toList.mapM parseQ))
  else if k == "bin" then
    pure (.node (.bin (← (← j.getObjVal? "op").getStr?)) [← parseQ (← j.getObjVal? "l"), ← parseQ (← j.getObjVal? "r")])
  else if k == "un" then
    pure (.node (.un (← (← j.getObjVal? "op").getStr?)) [← parseQ (← j.getObjVal? "e")])
  else if k == "node" then
    let kids ← (← j.getObjVal? "kids").getArr?
    pure (.node (← parseKind (← j.getObjVal? "kind")) (← kids.toList.mapM parseQ))
  else throw s!"unknown expression kind {k}"

def errClass : TrErr → String
  | .attributeError _ => "AttributeError"
  | .unknownCall _ => "RuntimeError"
  | .unknownType _ => "AssertionError"
  | .unknownOp _ => "RuntimeError"

def xerrClass : XErr → String
  | .base e => errClass e
  | .noRep _ => "RuntimeError"
  | .arity _ => "Malformed"
  | .valueError _ => "ValueError"
  | .notCollection => "RuntimeError"
  | .notValue => "RuntimeError"

mutual
partial def leavesOf : PExpr → List (String × String)
  | .leaf t ty => [(t, ty)]
  | .call _ args => leavesOfList args
  | .bin _ l r => leavesOf l ++ leavesOf r
  | .un _ e => leavesOf e
partial def leavesOfList : List PExpr → List (String × String)
  | [] => []
  | a :: as => leavesOf a ++ leavesOfList as
end

mutual
partial def cexprBeq : CExpr → CExpr → Bool
  | .leaf a b, .leaf c d => a == c && b == d
  | .call n as, .call m bs => n == m && cexprBeqL as bs
  | .pow a b, .pow c d => cexprBeq a c && cexprBeq b d
  | .bin s a b, .bin t c d => s == t && cexprBeq a c && cexprBeq b d
  | .cast s a, .cast t c => s == t && cexprBeq a c
  | .un s a, .un t c => s == t && cexprBeq a c
  | _, _ => false
partial def cexprBeqL : List CExpr → List CExpr → Bool
  | [], [] => true
  | a :: as, b :: bs => cexprBeq a b && cexprBeqL as bs
  | _, _ => false
end

def parseBinding (j : Json) : Except String Binding := do
  let k ← (← j.getObjVal? "k").getStr?
  if k == "unbound" then pure .unbound
  else if k == "nomodule" then pure .noModuleAttr
  else pure (.inModule (← (← j.getObjVal? "m").getStr?))

def handle (line : String) : String :=
  match Json.parse line with
  | .error e => (Json.mkObj [("bad", e)]).compress
  | .ok j =>
    let cfg := Gen.cfg
    let r : Except String Json := do
      let op ← (← j.getObjVal? "op").getStr?
      if op == "row" then
        let r ← parseRow (← j.getObjVal? "row")
        let byv := match meaningCpp r.cpp with
          | some m => m.callableByValue
          | none => false
        pure (Json.mkObj [("holds", SpecRow cfg.prio r), ("namesake", rowNamesake r), ("header", rowHeader r),
          ("ret", rowRetFaithful r), ("arith", rowArith cfg.prio r), ("faithful", rowRetFaithful r), ("byvalue", byv),
          ("knownPy", (meaningPy r.py).isSome), ("knownCpp", (meaningCpp r.cpp).isSome)])
      else if op == "resolve" then
        let n ← (← j.getObjVal? "name").getStr?
        let res := match j.getObjVal? "binding" with
          | .ok b => (parseBinding b).map fun b =>
              match fncName b n with
              | .ok k => Except.ok (lookup cfg.table k)
              | .error e => Except.error e
          | .error _ => .ok (findKnown cfg.table cfg.env n)
        match ← res with
        | .ok (some r) => pure (Json.mkObj [("row", rowJson r)])
        | .ok none => pure (Json.mkObj [("row", Json.null)])
        | .error e => pure (Json.mkObj [("err", errClass e)])
      else if op == "accepted" then
        let n ← (← j.getObjVal? "name").getStr?
        pure (Json.mkObj [("holds", acceptedAs cfg n)])
      else if op == "tr" then
        let e ← parseExpr (← j.getObjVal? "expr")
        let res := tr cfg e
        let flags : List (String × Json) := [("documented", Documented Gen.readmeFunctions e), ("scoped", Scoped cfg e),
          ("accepted", Accepted cfg e), ("clean", Clean cfg e), ("spec", SpecTerm Gen.readmeFunctions e res)]
        match res with
        | .ok v =>
          let text := render v.term
          let rt := match parseCpp cfg (leavesOf e) text with
            | some t => cexprBeq t v.term
            | none => false
          let head : List (String × Json) := [("ok", Json.mkObj [("text", text), ("ty", v.ty), ("incs", jstrs v.incs)]), ("roundtrip", rt)]
          pure (Json.mkObj (head ++ flags))
        | .error er =>
          let head : List (String × Json) := [("err", errClass er)]
          pure (Json.mkObj (head ++ flags))
      else if op == "trx" then
        let e ← parseQ (← j.getObjVal? "expr")
        let fj ← (← j.getObjVal? "fns").getArr?
        let fns ← fj.toList.mapM fun f => do
          pure ({ name := ← (← f.getObjVal? "name").getStr?, nargs := ← (← f.getObjVal? "nargs").getNat?,
                  incs := ← strList (← f.getObjVal? "incs"), ret := ← (← f.getObjVal? "ret").getStr? } : UserFn)
        let vj ← (← j.getObjVal? "vars").getArr?
        let vars ← vj.toList.mapM fun p => do
          match ← strList p with
          | [n, t, ty] => pure (n, t, ty)
          | _ => throw "var must be [name, text, type]"
        let xc : XCfg := ⟨cfg, Gen.cmpOps, Gen.seqOps, fns, vars, Gen.ifName, Gen.boolName, Gen.accName⟩
        let inScope := ScopedX xc e
        match trX xc e with
        | .ok v =>
          let tie : Json ← match j.getObjVal? "lines" with
            | .ok (.null) => pure Json.null
            | .ok l => do
              let lines ← strList l
              let incs ← strList (← j.getObjVal? "incs")
              let (h, why) := PositionTie v lines incs
              pure (Json.mkObj [("holds", h), ("why", why)])
            | .error _ => pure Json.null
          pure (Json.mkObj [("ok", Json.mkObj [("text", renderX v.term), ("ty", v.ty), ("incs", jstrs v.incs), ("stmts", jstrs v.stmts),
            ("frags", jstrs (tieFrags v))]), ("scoped", inScope), ("called", jstrs e.called), ("tie", tie)])
        | .error er => pure (Json.mkObj [("err", xerrClass er), ("scoped", inScope)])
      else if op == "spec" then
        let e ← parseExpr (← j.getObjVal? "expr")
        let lv ← (← j.getObjVal? "leaves").getArr?
        let leaves ← lv.toList.mapM fun p => do
          let a ← p.getArr?
          match a.toList with
          | [t, ty] => pure ((← t.getStr?), (← ty.getStr?))
          | _ => throw "leaf must be [text, type]"
        let obs : Option Obs ← match j.getObjVal? "obs" with
          | .ok (.null) => pure none
          | .ok o => do
            pure (some { text := ← (← o.getObjVal? "text").getStr?, declTy := ← (← o.getObjVal? "declTy").getStr?,
                         incs := ← strList (← o.getObjVal? "incs") })
          | .error _ => pure none
        let (h, why) := SpecEmit cfg Gen.readmeFunctions leaves e obs
        pure (Json.mkObj [("holds", h), ("why", why)])
      else if op == "placement" then
        let e ← parseExpr (← j.getObjVal? "expr")
        let lv ← (← j.getObjVal? "leaves").getArr?
        let leaves ← lv.toList.mapM fun p => do
          let a ← p.getArr?
          match a.toList with
          | [t, ty] => pure ((← t.getStr?), (← ty.getStr?))
          | _ => throw "leaf must be [text, type]"
        let obs : Option (String × List String) ← match j.getObjVal? "obs" with
          | .ok (.null) => pure none
          | .ok o => do pure (some ((← (← o.getObjVal? "code").getStr?), (← strList (← o.getObjVal? "incs"))))
          | .error _ => pure none
        let (h, why) := PlacementSpec cfg Gen.readmeFunctions leaves e obs
        pure (Json.mkObj [("holds", h), ("why", why)])
      else if op == "alive" then
        let e ← parseExpr (← j.getObjVal? "expr")
        let lv ← (← j.getObjVal? "leaves").getArr?
        let leaves ← lv.toList.mapM fun p => do
          let a ← p.getArr?
          match a.toList with
          | [t, ty] => pure ((← t.getStr?), (← ty.getStr?))
          | _ => throw "leaf must be [text, type]"
        let members ← strList (← j.getObjVal? "members")
        let ls ← (← j.getObjVal? "lines").getArr?
        let lines ← ls.toList.mapM fun l => do
          let k ← (← l.getObjVal? "k").getStr?
          let kind : LineKind := if k == "open" then .openB else if k == "close" then .closeB else if k == "for" then .forL else .stmt
          pure ({ kind, text := ← (← l.getObjVal? "t").getStr?, decls := ← strList (← l.getObjVal? "d"),
                  uses := ← strList (← l.getObjVal? "u") } : CodeLine)
        let (h, why) := AliveSpec cfg Gen.readmeFunctions leaves e members lines
        pure (Json.mkObj [("holds", h), ("why", why)])
      else if op == "package" then
        let e ← parseExpr (← j.getObjVal? "expr")
        let bk ← (← j.getObjVal? "backend").getStr?
        let b : Backend := if bk == "atlas" then .atlas else if bk == "cms_aod" then .cmsAod else .cmsMiniaod
        let mdsJ ← (← j.getObjVal? "injects").getArr?
        let mds ← mdsJ.toList.mapM fun m => do
          pure ({ headerIncs := ← strList (← m.getObjVal? "header_includes"), bodyIncs := ← strList (← m.getObjVal? "body_includes") } : Inject)
        let hdrCalls ← (← j.getObjVal? "hdrCalls").getBool?
        let pre := match j.getObjVal? "pre" with
          | .ok p => (strList p).toOption.getD []
          | .error _ => []
        let post := match j.getObjVal? "post" with
          | .ok p => (strList p).toOption.getD []
          | .error _ => []
        match tr cfg e with
        | .ok v =>
          let files := packageFiles b (withCompanions pre v.incs post) mds hdrCalls
          pure (Json.mkObj [("files", Json.arr (files.map fun f => Json.mkObj [("name", f.name), ("incs", jstrs f.incs), ("calls", f.callsMath)]).toArray),
            ("holds", PackageSpec files)])
        | .error er => pure (Json.mkObj [("err", errClass er)])
      else if op == "pkgspec" then
        let fs ← (← j.getObjVal? "files").getArr?
        let files ← fs.toList.mapM fun f => do
          pure ({ name := ← (← f.getObjVal? "name").getStr?, incs := ← strList (← f.getObjVal? "incs"),
                  callsMath := ← (← f.getObjVal? "calls").getBool? } : FileObs)
        let culprit : Json := match packageCulprit files with
          | some n => Json.str n
          | none => Json.null
        pure (Json.mkObj [("holds", PackageSpec files), ("culprit", culprit)])
      else throw s!"unknown op {op}"
    match r with
    | .ok j => j.compress
    | .error e => (Json.mkObj [("bad", e)]).compress

partial def loopIO (h : IO.FS.Stream) (out : IO.FS.Stream) : IO Unit := do
  let line ← h.getLine
  if line.isEmpty then return ()
  let t := line.trimAscii.toString
  if !t.isEmpty then out.putStrLn (handle t)
  loopIO h out

def main : IO Unit := do
  let out ← IO.getStdout
  loopIO (← IO.getStdin) out
  out.flush
