/-
C12 — positions: acceptance.  Which expressions of the extended language the model translates
(decidable, on the resolved expression), and that a math call is never the reason of a refusal.
-/
import FaxVerif.C12.PosTheorems
namespace FaxVerif.C12

/-- what one node needs of the declared types of its operands to be translated -/
def kindAccepts (c : XCfg) (k : Kind) (tys : List String) : Bool :=
  match k, tys with
  | .bin op, [l, r] =>
    (match assoc c.base.binOps op with
      | some _ => (assoc c.base.prio l).isSome && (assoc c.base.prio r).isSome
      | none => op == "Pow")
  | .un op, [_] => (assoc c.base.unOps op).isSome
  | .cmp op, [_, _] => (assoc c.cmpOps op).isSome
  | .boolop _, _ :: _ => true
  | .ite, [_, a, b] => a != "string" && b != "string"
  | .tuple, _ => true
  | .list, _ => true
  | .dict _, _ => true
  | .index, [v, _] => (elemOf v).isSome
  | .meth _ _ _, recv :: _ => !(recv ∈ structTys)
  | .lam _, [_] => true
  | _, _ => false

/-- a Name-call the pre-pass left alone is translated: a user function with the right number of
arguments, or a sequence operator (an `Aggregate` of three arguments needs seed and update types
`most_accurate_type` can join) -/
def ucallAccepts (c : XCfg) (f : String) (tys : List String) : Bool :=
  match lookupFn c.userFns f with
  | some fn => fn.nargs == tys.length
  | none =>
    f ∈ c.seqOps &&
    (match f, tys with
      | "Where", [_, _] => true
      | "Aggregate", [_, seed, body] => body == seed || ((assoc c.base.prio seed).isSome && (assoc c.base.prio body).isSome)
      | _, _ => true)

mutual
def acceptedR (c : XCfg) : RX → Bool
  | .leaf _ _ => true
  | .var x => (lookupVar c.vars x).isSome
  | .fcall _ _ args => acceptedRList c args && (args.map (tyOfR c)).all (fun t => !(t ∈ structTys))
  | .ucall f args => acceptedRList c args && ucallAccepts c f (args.map (tyOfR c))
  | .node k kids => acceptedRList c kids && kindAccepts c k (kids.map (tyOfR c))
def acceptedRList (c : XCfg) : List RX → Bool
  | [] => true
  | a :: as => acceptedR c a && acceptedRList c as
end

theorem bestType_ok' {prio : List (String × Nat)} {a b : String}
    (ha : (assoc prio a).isSome = true) (hb : (assoc prio b).isSome = true) : ∃ best, bestType prio a b = .ok best := by
  obtain ⟨best, h, _⟩ := bestType_ok ha hb
  exact ⟨best, h⟩

theorem buildNode_ok {c : XCfg} {k : Kind} {vs : List XVal} (h : kindAccepts c k (vs.map (·.ty)) = true) :
    ∃ v, buildNode c k vs = .ok v := by
  cases k with
  | bin op =>
    rcases vs with _ | ⟨l, _ | ⟨r, _ | ⟨x, rest⟩⟩⟩ <;> try (simp [kindAccepts] at h)
    simp only [buildNode, buildBin]
    cases hs : assoc c.base.binOps op with
    | none =>
      simp only [hs, beq_iff_eq] at h
      simp [h]
    | some sym =>
      simp only [hs, Bool.and_eq_true] at h
      obtain ⟨best, hb⟩ := bestType_ok' h.1 h.2
      simp only [hb]
      by_cases hd : op = "Div"
      · by_cases hi : best = "int" <;> simp [hd, hi]
      · simp [hd]
  | un op =>
    rcases vs with _ | ⟨e, _ | ⟨x, rest⟩⟩ <;> try (simp [kindAccepts] at h)
    cases hs : assoc c.base.unOps op with
    | none => simp [hs] at h
    | some sym => simp [buildNode, hs]
  | cmp op =>
    rcases vs with _ | ⟨l, _ | ⟨r, _ | ⟨x, rest⟩⟩⟩ <;> try (simp [kindAccepts] at h)
    cases hs : assoc c.cmpOps op with
    | none => simp [hs] at h
    | some sym => simp [buildNode, hs]
  | boolop op =>
    rcases vs with _ | ⟨v, rest⟩
    · simp [kindAccepts] at h
    · simp [buildNode]
  | ite =>
    rcases vs with _ | ⟨t, _ | ⟨a, _ | ⟨b, _ | ⟨x, rest⟩⟩⟩⟩ <;> try (simp [kindAccepts] at h)
    simp [buildNode, h.1, h.2]
  | tuple => simp [buildNode]
  | list => simp [buildNode]
  | dict keys => simp [buildNode]
  | index =>
    rcases vs with _ | ⟨v, _ | ⟨i, _ | ⟨x, rest⟩⟩⟩ <;> try (simp [kindAccepts] at h)
    cases he : elemOf v.ty with
    | none => simp [he] at h
    | some el => simp [buildNode, he]
  | meth name ret coll =>
    rcases vs with _ | ⟨recv, args⟩
    · simp [kindAccepts] at h
    · simp only [kindAccepts, List.map_cons] at h
      simp [buildNode, XVal.isValue, h]
  | lam ps =>
    rcases vs with _ | ⟨b, _ | ⟨x, rest⟩⟩ <;> try (simp [kindAccepts] at h)
    simp [buildNode]

/-- an accepted node passes the operator check that precedes the translation of the operands -/
theorem preCheck_none {c : XCfg} {k : Kind} {tys : List String} (h : kindAccepts c k tys = true) : preCheck c k = none := by
  cases k with
  | bin op =>
    rcases tys with _ | ⟨l, _ | ⟨r, _ | ⟨x, rest⟩⟩⟩ <;> try (simp [kindAccepts] at h)
    cases hs : assoc c.base.binOps op with
    | none => simp only [hs, beq_iff_eq] at h; simp [preCheck, h]
    | some sym => simp [preCheck, hs]
  | un op =>
    rcases tys with _ | ⟨e, _ | ⟨x, rest⟩⟩ <;> try (simp [kindAccepts] at h)
    cases hs : assoc c.base.unOps op with
    | none => simp [hs] at h
    | some sym => simp [preCheck, hs]
  | _ => simp [preCheck]

theorem buildUCall_ok {c : XCfg} {f : String} {vs : List XVal} (h : ucallAccepts c f (vs.map (·.ty)) = true) :
    ∃ v, buildUCall c f vs = .ok v := by
  unfold ucallAccepts at h
  unfold buildUCall
  cases hf : lookupFn c.userFns f with
  | some fn =>
    simp only [hf, List.length_map, beq_iff_eq] at h
    simp [h]
  | none =>
    simp only [hf, Bool.and_eq_true, decide_eq_true_eq] at h
    obtain ⟨hseq, hrest⟩ := h
    simp only [hseq, if_true]
    split
    · exact ⟨_, rfl⟩
    · rename_i src seed body
      simp only [List.map_cons, List.map_nil] at hrest
      by_cases heq : body.ty = seed.ty
      · simp [heq]
      · have : (assoc c.base.prio seed.ty).isSome = true ∧ (assoc c.base.prio body.ty).isSome = true := by
          simp only [Bool.or_eq_true, beq_iff_eq, Bool.and_eq_true] at hrest
          rcases hrest with h' | h'
          · exact absurd h' heq
          · exact h'
        obtain ⟨best, hb⟩ := bestType_ok' this.1 this.2
        simp [heq, hb]
    · exact ⟨_, rfl⟩

mutual
/-- **Accepted at every position.**  Every resolved expression that is well formed for the call
visitor (`acceptedR`: variables are bound, operators are known and their operand types known to
`most_accurate_type`, a subscript is taken of a collection, a method is called on a value, arms of a
conditional are not strings, a left-alone Name-call is a user function with the right number of
arguments or a sequence operator) is translated.  For a math call the *only* condition is that its
arguments are values (not tuples / dicts / sequences): a documented function is never the reason of a
refusal, whatever stands around it and whatever its arguments are made of. -/
theorem accepted_emit (c : XCfg) : ∀ r : RX, acceptedR c r = true → ∃ v, emitX c r = .ok v
  | .leaf t ty, _ => ⟨⟨.leaf t ty, ty, [], []⟩, by simp [emitX]⟩
  | .var x, h => by
    simp only [acceptedR] at h
    cases hx : lookupVar c.vars x with
    | none => simp [hx] at h
    | some p => obtain ⟨t, ty⟩ := p; exact ⟨⟨.leaf t ty, ty, [], []⟩, by simp [emitX, hx]⟩
  | .fcall f row args, h => by
    simp only [acceptedR, Bool.and_eq_true] at h
    obtain ⟨vs, hvs⟩ := accepted_emitList c args h.1
    have hv : vs.all XVal.isValue = true := by
      have := h.2
      rw [map_tyOfR args vs hvs] at this
      simpa [XVal.isValue, List.all_map] using this
    exact ⟨_, (call_emitted_everywhere c f row args vs hvs hv).1⟩
  | .ucall f args, h => by
    simp only [acceptedR, Bool.and_eq_true] at h
    obtain ⟨vs, hvs⟩ := accepted_emitList c args h.1
    have h2 := h.2
    rw [map_tyOfR args vs hvs] at h2
    obtain ⟨v0, hb⟩ := buildUCall_ok h2
    exact ⟨{ v0 with incs := mergeIncs (preIncs c f) (incsOf vs) }, by simp [emitX, hvs, hb]⟩
  | .node k kids, h => by
    simp only [acceptedR, Bool.and_eq_true] at h
    obtain ⟨vs, hvs⟩ := accepted_emitList c kids h.1
    have h2 := h.2
    rw [map_tyOfR kids vs hvs] at h2
    obtain ⟨v0, hb⟩ := buildNode_ok h2
    have hp := preCheck_none h2
    exact ⟨{ v0 with incs := mergeIncs (incsOf vs) (postIncs c k) }, by simp [emitX, hp, hvs, hb]⟩
theorem accepted_emitList (c : XCfg) : ∀ rs : List RX, acceptedRList c rs = true → ∃ vs, emitListX c rs = .ok vs
  | [], _ => ⟨[], by simp [emitListX]⟩
  | a :: as, h => by
    simp only [acceptedRList, Bool.and_eq_true] at h
    obtain ⟨v, hv⟩ := accepted_emit c a h.1
    obtain ⟨vs, hvs⟩ := accepted_emitList c as h.2
    exact ⟨v :: vs, by simp [emitListX, hv, hvs]⟩
end

/-- the scope of `positions_accepted`, on the input -/
def AcceptedX (c : XCfg) (e : QExpr) : Bool :=
  match resolveX c.base e with
  | .ok r => acceptedR c r
  | .error _ => false

/-- **C12 at every position, acceptance and meaning together** (generated constants): a well-formed
position in scope is translated, and the translation means what the query means. -/
theorem positions_accepted (fns : List UserFn) (vars : List (String × String × String)) (e : QExpr)
    (ha : AcceptedX (Gen.xcfg fns vars) e = true) :
    ∃ v, trX (Gen.xcfg fns vars) e = .ok v ∧
      (ScopedX (Gen.xcfg fns vars) e = true → csymX v.term = psymX vars e ∧ CT.ofName v.ty = ctypeX v.term) ∧
      ((∃ f ∈ e.called, f ∈ Gen.readmeFunctions) → "cmath" ∈ v.incs) := by
  unfold AcceptedX at ha
  cases hr : resolveX (Gen.xcfg fns vars).base e with
  | error er => simp [hr] at ha
  | ok r =>
    simp only [hr] at ha
    obtain ⟨v, hv⟩ := accepted_emit _ r ha
    have htr : trX (Gen.xcfg fns vars) e = .ok v := by simp [trX, hr, hv]
    refine ⟨v, htr, ?_, ?_⟩
    · intro hs
      obtain ⟨h1, h2, _⟩ := namesake_semantics_positions fns vars e v htr hs
      exact ⟨h1, h2⟩
    · intro hc
      exact includes_reachable_positions fns vars e v htr hc

-- non-vacuity: the positions of the examples are accepted
example : AcceptedX (Gen.xcfg exFns exVars) (.node .ite [.node (.cmp "Gt") [exF, .leaf "0.5" "double"], .leaf "1.5" "double", .node (.un "USub") [exF]]) = true := by
  decide +kernel
example : AcceptedX (Gen.xcfg exFns exVars) (.call "Aggregate" [.leaf "jets" "coll", .call "ilogb" [.leaf "0.5" "double"],
    .node (.lam ["acc", "j"]) [.node (.bin "Add") [.var "acc", exF]]]) = true := by decide +kernel
example : AcceptedX (Gen.xcfg exFns exVars) (.node .index [.node (.meth "vD" "double" true) [.var "j"], .call "c12_twice" [exF]]) = true := by
  decide +kernel
-- a tuple as the argument of a math function is the refusal that remains
example : AcceptedX (Gen.xcfg exFns exVars) (.call "sin" [.node .tuple [exF]]) = false := by decide +kernel

end FaxVerif.C12
