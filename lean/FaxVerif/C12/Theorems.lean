/-
C12 — property theorems.

Part I: theorems over the *generated* constants (`Gen.table` = the `add_function_mapping` rows of
common/cpp_functions.py, `Gen.readmeFunctions` = the function list of README.md, `Gen.typePriority`,
`Gen.binOps`, `Gen.unOps`, `Gen.evalEnv`), each a complete enumeration of a finite table by `decide`;
re-proved whenever the source changes.

Part II: theorems about the model of name resolution and emission, for *every* table, environment,
operator table and expression (no bound on size or depth).

Part III: Part II instantiated with the generated constants: the property itself.

Where the full statement is false of the code as it stands, the theorem is `_partial` with an
explicit decidable hypothesis and a `_counterexample` on a literal sits beside it.  Helper lemmas
(lookup, the relational form `Tr` of the translation and its inversion lemmas, the analysis of the
error paths) are in Proofs.lean; the list-companions of the mutual inductions stay next to their
theorems.
-/
import FaxVerif.C12.Proofs
import FaxVerif.C12.Alive
import FaxVerif.Generated.C12Table
namespace FaxVerif.C12

/-! ## Part I — the generated tables -/

/-- The translator read every statement that fills the table as data: no `add_function_mapping`
call with computed arguments, none inside a loop or function, no direct write to
`functions_to_replace`, the README list and the three dictionaries are literals. -/
theorem translator_complete : Gen.unrecognised = [] := by decide

/-- Every function the documentation lists is a key of the table. -/
theorem documented_present : ∀ f ∈ Gen.readmeFunctions, f ∈ keys Gen.table := by decide +kernel

/-- No key is assigned twice, so no row silently overrides another (the table is a `dict`). -/
theorem keys_nodup : (keys Gen.table).Nodup := by decide +kernel

/-- … hence every row is the one its own key finds: the order of the rows is immaterial. -/
theorem rows_found : ∀ r ∈ Gen.table, lookup Gen.table r.py = some r :=
  fun _ hr => lookup_of_nodup keys_nodup hr

/-- Every row maps its python name to the C++ function *of that name* (`ln ↦ log`,
`abs`/`builtins.abs ↦` absolute value, `builtins.pow ↦ pow`): `meaningCpp r.cpp = meaningPy r.py`,
both defined. -/
theorem namesake : ∀ r ∈ Gen.table, rowNamesake r = true := by decide +kernel

/-- Every row pulls in the header that declares its C++ function. -/
theorem header : ∀ r ∈ Gen.table, rowHeader r = true := by decide +kernel

/-- Every row declares as result type the type C++ really gives the call on `double` arguments:
`double`, and `int` for `ilogb` — so the value is held exactly and the arithmetic around the call
is typed as the compiler types it (the cast of an int/int division is emitted exactly when C++
would truncate). -/
theorem return_type_faithful : ∀ r ∈ Gen.table, rowRetFaithful r = true := by decide +kernel

/-- … and that type is `int` or `double`. -/
theorem return_type_numeric : ∀ r ∈ Gen.table, r.ret = "int" ∨ r.ret = "double" := by decide +kernel

/-- Every declared result type (and `double`, the type of `/` and `**`) is a key of
`_type_priority`: `most_accurate_type` never asserts on a math call. -/
theorem table_arith : TableArith Gen.cfg = true := by decide +kernel

/-- The four together (the row-level Spec the harness also evaluates on the live table). -/
theorem spec_row : ∀ r ∈ Gen.table, SpecRow Gen.typePriority r = true := by decide +kernel

/-
FULL STATEMENT (false): ∀ f ∈ Gen.readmeFunctions, the `<cmath>` function it names can be called
with values.  `remquo(x, y, int*)` has an output parameter; a query cannot supply it.
-/
/-- Every documented function except `remquo` takes only by-value parameters. -/
theorem callable_by_value_partial :
    ∀ f ∈ Gen.readmeFunctions, f ≠ "remquo" → (meaningPy f).any MathFn.callableByValue = true := by
  decide +kernel

theorem callable_by_value_counterexample :
    "remquo" ∈ Gen.readmeFunctions ∧ (meaningPy "remquo").any MathFn.callableByValue = false := by
  decide +kernel

/-- Every documented name, written as a call in a query, is replaced by a row whose C++ function
is its namesake — through `eval`: `abs`, `pow` and `round` are python built-ins and reach
`builtins.abs` / `builtins.pow` / `builtins.round`, all others their bare key. -/
theorem documented_accepted : ∀ f ∈ Gen.readmeFunctions, acceptedAs Gen.cfg f = true := by decide +kernel

/-- Every row is reached by the call of its own bare key, except the rows `abs`, `pow`, `round`
(dead: python's `eval` finds the built-in first) and the three `builtins.` rows (reached by `abs`,
`pow`, `round`). -/
theorem rows_reached_partial :
    ∀ r ∈ Gen.table, r.py ∉ ["abs", "pow", "round", "builtins.abs", "builtins.pow", "builtins.round"] →
      (findKnown Gen.table Gen.evalEnv r.py).toOption = some (some r) := by decide +kernel

/-- The operator tables give `+ - * /` and unary `+ -` their C++ symbols, `**` has no entry (it is
special-cased to `std::pow`), `int` ranks below `double`. -/
theorem cfg_ok : CfgOK Gen.cfg = true := by decide +kernel

/-! ## Part II — resolution and emission, for every table and every expression -/

/-- **Resolution rule.** A name python's `eval` does not find reaches the row of its bare key; a
name bound to something of module `m` reaches the row `m.<name>` and *never* its bare row; a name
bound to an object without `__module__` makes the resolver raise. -/
theorem resolver_spec (t : List Row) (env : Env) (id : String) :
    (env.get id = .unbound → findKnown t env id = .ok (lookup t id)) ∧
    (∀ m, env.get id = .inModule m → findKnown t env id = .ok (lookup t (m ++ "." ++ id))) ∧
    (env.get id = .noModuleAttr → findKnown t env id = .error (.attributeError id)) := by
  refine ⟨fun h => ?_, fun m h => ?_, fun h => ?_⟩ <;> simp [findKnown, fncName, h]

/-- A call is replaced iff the resolved key is in the table; the row is a row of the table with
that key. -/
theorem replaced_iff (t : List Row) (env : Env) (id k : String) (hk : fncName (env.get id) id = .ok k) :
    (∃ r, findKnown t env id = .ok (some r)) ↔ k ∈ keys t := by
  simp only [findKnown, hk, Except.ok.injEq]
  rw [← lookup_isSome_iff]
  cases lookup t k <;> simp

/-- **Call emission** (`visit_function_ast`): a call of a name that resolves to row `r`, whose
arguments translate to `ts`, becomes the C++ call `r.cpp(ts…)` of the declared type `r.ret`, and
the row's include files are added after those of the arguments; its text is
`r.cpp ++ "(" ++ ",".join(texts) ++ ")"`. -/
theorem call_emitted (c : Cfg) (f : String) (args : List PExpr) (r : Row) (ts : List CExpr) (incs : List String)
    (hf : findKnown c.table c.env f = .ok (some r)) (ha : TrList c args ts incs) :
    tr c (.call f args) = .ok ⟨.call r.cpp ts, r.ret, mergeIncs incs r.includes⟩ ∧
    render (.call r.cpp ts) = r.cpp ++ "(" ++ renderArgs ts ++ ")" :=
  ⟨(tr_iff _ _ _).2 (Tr.call ha hf), by simp [render]⟩

mutual
/-- **Headers.** Whatever is translated successfully, the include files of the row of every
function called anywhere in it are among the include files added. -/
theorem includes_of_called (c : Cfg) : ∀ (e : PExpr) (v : CVal), Tr c e v →
    ∀ f ∈ calledNames e, ∀ r, findKnown c.table c.env f = .ok (some r) → ∀ i ∈ r.includes, i ∈ v.incs
  | .leaf _ _, _, _, f, hf, _, _, _, _ => by simp [calledNames] at hf
  | .call g args, v, h, f, hf, r, hr, i, hi => by
    obtain ⟨r0, ts, incs, hg, hl, rfl⟩ := Tr.call_inv h
    simp only [calledNames, List.mem_cons] at hf
    rcases hf with rfl | hf
    · rw [hg] at hr
      cases hr
      exact mem_mergeIncs.2 (Or.inr hi)
    · exact mem_mergeIncs.2 (Or.inl (includes_of_calledList c args ts incs hl f hf r hr i hi))
  | .bin _ l r', v, h, f, hf, r, hr, i, hi => by
    obtain ⟨lv, rv, hl, hr', hsub⟩ := Tr.bin_inv h
    simp only [calledNames, List.mem_append] at hf
    rcases hf with hf | hf
    · exact hsub i (Or.inl (includes_of_called c l lv hl f hf r hr i hi))
    · exact hsub i (Or.inr (includes_of_called c r' rv hr' f hf r hr i hi))
  | .un _ e, v, h, f, hf, r, hr, i, hi => by
    obtain ⟨ev, he, hincs⟩ := Tr.un_inv h
    simp only [calledNames] at hf
    rw [hincs]
    exact includes_of_called c e ev he f hf r hr i hi
/-- (the same for an argument list; the companion of `includes_of_called` in the mutual induction) -/
theorem includes_of_calledList (c : Cfg) : ∀ (es : List PExpr) (ts : List CExpr) (incs : List String),
    TrList c es ts incs →
    ∀ f ∈ calledNamesList es, ∀ r, findKnown c.table c.env f = .ok (some r) → ∀ i ∈ r.includes, i ∈ incs
  | [], _, _, _, f, hf, _, _, _, _ => by simp [calledNamesList] at hf
  | a :: as, ts, incs, h, f, hf, r, hr, i, hi => by
    obtain ⟨v, ts', incs', ha, hs, _, rfl⟩ := TrList.cons_inv h
    simp only [calledNamesList, List.mem_append] at hf
    rcases hf with hf | hf
    · exact mem_mergeIncs.2 (Or.inl (includes_of_called c a v ha f hf r hr i hi))
    · exact mem_mergeIncs.2 (Or.inr (includes_of_calledList c as ts' incs' hs f hf r hr i hi))
end

mutual
/-- **Usable inside larger arithmetic.** If every row's declared type is known to
`most_accurate_type` (`TableArith`, proved of the generated table: `table_arith`), then *every*
expression built from operands of known type, calls that resolve to a row (with operands of any
type as direct arguments), the operators of the operator table and `**` is translated — no
`TypeError`, no assertion — and its type is again one `most_accurate_type` knows; a `not` (declared
`bool` since ea7911a) is translated wherever the result type is not asked for (top, under a unary
operator, argument of a call, operand of `**`) and its declared type is `bool`. -/
theorem usable_in_arithmetic (c : Cfg) (hc : TableArith c = true) : ∀ e : PExpr, Accepted c e = true →
    ∃ v, Tr c e v ∧ (if boolTyped e = true then v.ty = "bool" else (assoc c.prio v.ty).isSome = true)
  | .leaf t ty, h => by
    simp only [Accepted] at h
    exact ⟨_, Tr.leaf c t ty, by simpa [boolTyped] using h⟩
  | .call f args, h => by
    simp only [Accepted, Bool.and_eq_true] at h
    obtain ⟨hargs, hf⟩ := h
    obtain ⟨ts, incs, hl⟩ := usable_args c hc args hargs
    cases hk : findKnown c.table c.env f with
    | error e => simp [hk] at hf
    | ok o =>
      cases o with
      | none => simp [hk] at hf
      | some r =>
        refine ⟨_, Tr.call hl hk, ?_⟩
        have hr := findKnown_mem hk
        simp only [TableArith, Bool.and_eq_true, List.all_eq_true] at hc
        have hk' : (assoc c.prio r.ret).isSome = true := hc.1 r hr
        simpa [boolTyped] using hk'
  | .bin op l r, h => by
    simp only [Accepted, Bool.and_eq_true] at h
    obtain ⟨⟨hop, hl⟩, hr⟩ := h
    obtain ⟨lv, hlv, hlt⟩ := usable_in_arithmetic c hc l hl
    obtain ⟨rv, hrv, hrt⟩ := usable_in_arithmetic c hc r hr
    have hdbl : (assoc c.prio "double").isSome := by
      simp only [TableArith, Bool.and_eq_true] at hc
      exact hc.2
    simp only [boolTyped, Bool.false_eq_true, if_false]
    cases hs : assoc c.binOps op with
    | some sym =>
      simp only [hs, Option.isSome_some, Option.isNone_some, Bool.true_and, Bool.false_and, Bool.or_false,
        Bool.and_eq_true, Bool.not_eq_true'] at hop
      simp only [hop.1, Bool.false_eq_true, if_false] at hlt
      simp only [hop.2, Bool.false_eq_true, if_false] at hrt
      obtain ⟨best, hb, hbest⟩ := bestType_ok hlt hrt
      refine ⟨_, Tr.bin hlv hrv hs hb, ?_⟩
      unfold binVal
      by_cases hd : op = "Div"
      · by_cases hi : best = "int" <;> simp [hd, hi, hdbl]
      · simp only [hd, if_false]
        rcases hbest with rfl | rfl <;> assumption
    | none =>
      simp only [hs, Option.isSome_none, Option.isNone_none, Bool.false_and, Bool.false_or, Bool.true_and, beq_iff_eq] at hop
      subst hop
      exact ⟨_, Tr.pow hlv hrv hs, hdbl⟩
  | .un op e, h => by
    simp only [Accepted, Bool.and_eq_true] at h
    obtain ⟨hop, he⟩ := h
    obtain ⟨v, hv, ht⟩ := usable_in_arithmetic c hc e he
    cases hs : assoc c.unOps op with
    | none => simp [hs] at hop
    | some sym =>
      refine ⟨_, Tr.un hv hs, ?_⟩
      by_cases hn : op = "Not"
      · simp [boolTyped, unTy, hn]
      · by_cases hb : boolTyped e = true
        · simp only [hb, if_true] at ht
          simp [boolTyped, unTy, hn, hb, ht]
        · simp only [hb, Bool.false_eq_true, if_false] at ht
          simp [boolTyped, unTy, hn, hb, ht]
/-- (argument lists: operands of any type are allowed as direct arguments) -/
theorem usable_args (c : Cfg) (hc : TableArith c = true) : ∀ es : List PExpr, AcceptedArgs c es = true →
    ∃ ts incs, TrList c es ts incs
  | [], _ => ⟨[], [], TrList.nil c⟩
  | a :: as, h => by
    simp only [AcceptedArgs, Bool.and_eq_true] at h
    obtain ⟨ha, has⟩ := h
    obtain ⟨ts, incs, hl⟩ := usable_args c hc as has
    have : ∃ v, Tr c a v := by
      cases a with
      | leaf t ty => exact ⟨_, Tr.leaf c t ty⟩
      | call f args => obtain ⟨v, hv, _⟩ := usable_in_arithmetic c hc (.call f args) ha; exact ⟨v, hv⟩
      | bin op l r => obtain ⟨v, hv, _⟩ := usable_in_arithmetic c hc (.bin op l r) ha; exact ⟨v, hv⟩
      | un op e => obtain ⟨v, hv, _⟩ := usable_in_arithmetic c hc (.un op e) ha; exact ⟨v, hv⟩
    obtain ⟨v, hv⟩ := this
    exact ⟨_, _, TrList.cons hv hl⟩
end


/-! ### the emitted C++ means what the query means -/

mutual
/-- **Namesake, for every expression in scope** (the core of `computes_namesake_partial`). -/
theorem scoped_faithful (c : Cfg) (hc : CfgOK c = true) : ∀ e : PExpr, Scoped c e = true → ∃ v, Faithful c e v
  | .leaf t ty, h => by
    simp only [Scoped] at h
    have hty := scoped_leaf_ty h
    exact ⟨_, Tr.leaf c t ty, by simp [csym, psym], by simp [CExpr.ctype], hty⟩
  | .call f args, h => by
    simp only [Scoped, Bool.and_eq_true] at h
    obtain ⟨hargs, hcall⟩ := h
    obtain ⟨ts, incs, hl, hsyms, htys⟩ := scoped_args c hc args hargs
    unfold callOk at hcall
    cases hk : findKnown c.table c.env f with
    | error e => simp [hk] at hcall
    | ok o =>
      cases o with
      | none => simp [hk] at hcall
      | some r =>
        simp only [hk, Bool.and_eq_true, beq_iff_eq, Bool.or_eq_true] at hcall
        obtain ⟨⟨⟨⟨hsome, hmean⟩, hret⟩, hnum⟩, _⟩ := hcall
        refine ⟨_, Tr.call hl hk, ?_, ?_, ?_⟩
        · cases hm : meaningPy f with
          | none => simp [hm] at hsome
          | some m =>
            rw [hm] at hmean
            simp only [csym, psym, hmean, hm, hsyms]
        · simp only [CExpr.ctype, htys]
          exact hret
        · rcases hnum with h | h
          · exact Or.inl (CT.ofName_int.1 h)
          · exact Or.inr (CT.ofName_dbl.1 h)
  | .bin op l r, h => by
    simp only [Scoped, Bool.and_eq_true] at h
    obtain ⟨⟨hop, hl⟩, hr⟩ := h
    obtain ⟨lv, hlv⟩ := scoped_faithful c hc l hl
    obtain ⟨rv, hrv⟩ := scoped_faithful c hc r hr
    obtain ⟨hAdd, hSub, hMul, hDiv, hPow, _, _⟩ := cfgOK_ops hc
    simp only [arithBin, List.mem_cons, List.mem_nil_iff, or_false, decide_eq_true_eq] at hop
    rcases hop with rfl | rfl | rfl | rfl | rfl
    · exact faithful_bin_plain hc hAdd (by decide) (by decide) (fun a b => by simp [cArith, pArith]) hlv hrv
    · exact faithful_bin_plain hc hSub (by decide) (by decide) (fun a b => by simp [cArith, pArith]) hlv hrv
    · exact faithful_bin_plain hc hMul (by decide) (by decide) (fun a b => by simp [cArith, pArith]) hlv hrv
    · -- Div: python's `/` is real division; the cast is emitted exactly when C++ would truncate
      obtain ⟨hl1, hl2, hl3, hl4⟩ := hlv
      obtain ⟨hr1, hr2, hr3, hr4⟩ := hrv
      have hb := bestType_int_double hc hl4 hr4
      refine ⟨_, Tr.bin hl1 hr1 hDiv hb, ?_, ?_, Or.inr ?_⟩
      · by_cases hii : lv.ty = "int" ∧ rv.ty = "int"
        · simp [binVal, hii, csym, psym, CExpr.ctype, cArith, pArith, CT.ofName, hl2, hr2]
        · have hne : ¬ (lv.term.ctype = .int ∧ rv.term.ctype = .int) := by
            rw [← hl3, ← hr3, CT.ofName_int, CT.ofName_int]; exact hii
          simp [binVal, hii, csym, psym, cArith, pArith, hl2, hr2, hne]
      · have e1 : lv.term.ctype = CT.ofName lv.ty := hl3.symm
        have e2 : rv.term.ctype = CT.ofName rv.ty := hr3.symm
        rcases hl4 with h | h <;> rcases hr4 with h' | h' <;>
          simp [binVal, h, h', ctype_bin, ctype_cast, e1, e2, CT.ofName, CT.join]
      · by_cases hii : lv.ty = "int" ∧ rv.ty = "int" <;> simp [binVal, hii]
    · -- Pow: `std::pow(l, r)`
      obtain ⟨hl1, hl2, _, _⟩ := hlv
      obtain ⟨hr1, hr2, _, _⟩ := hrv
      exact ⟨_, Tr.pow hl1 hr1 hPow, by simp [csym, psym, hl2, hr2], by simp [CExpr.ctype, CT.ofName], Or.inr rfl⟩
  | .un op e, h => by
    simp only [Scoped, Bool.and_eq_true] at h
    obtain ⟨hop, he⟩ := h
    obtain ⟨v, hv1, hv2, hv3, hv4⟩ := scoped_faithful c hc e he
    obtain ⟨_, _, _, _, _, hNeg, hPos⟩ := cfgOK_ops hc
    simp only [arithUn, List.mem_cons, List.mem_nil_iff, or_false, decide_eq_true_eq] at hop
    rcases hop with rfl | rfl
    · exact ⟨_, Tr.un hv1 hNeg, by simp [csym, psym, cUn, pUn, hv2], by simp [CExpr.ctype, unTy, hv3], by simpa [unTy] using hv4⟩
    · exact ⟨_, Tr.un hv1 hPos, by simp [csym, psym, cUn, pUn, hv2], by simp [CExpr.ctype, unTy, hv3], by simpa [unTy] using hv4⟩
/-- (argument lists: meanings and C++ types of all arguments agree position by position) -/
theorem scoped_args (c : Cfg) (hc : CfgOK c = true) : ∀ es : List PExpr, ScopedArgs c es = true →
    ∃ ts incs, TrList c es ts incs ∧ csyms ts = psyms es ∧ CExpr.ctypes ts = es.map (argTy c)
  | [], _ => ⟨[], [], TrList.nil c, by simp [csyms, psyms], by simp [CExpr.ctypes]⟩
  | a :: as, h => by
    simp only [ScopedArgs, Bool.and_eq_true] at h
    obtain ⟨ha, has⟩ := h
    obtain ⟨ts, incs, hl, hsyms, htys⟩ := scoped_args c hc as has
    have : ∃ v, Tr c a v ∧ csym v.term = psym a ∧ CT.ofName v.ty = v.term.ctype := by
      cases a with
      | leaf t ty => exact ⟨_, Tr.leaf c t ty, by simp [csym, psym], by simp [CExpr.ctype]⟩
      | call f args => obtain ⟨v, h1, h2, h3, _⟩ := scoped_faithful c hc (.call f args) ha; exact ⟨v, h1, h2, h3⟩
      | bin op l r => obtain ⟨v, h1, h2, h3, _⟩ := scoped_faithful c hc (.bin op l r) ha; exact ⟨v, h1, h2, h3⟩
      | un op e => obtain ⟨v, h1, h2, h3, _⟩ := scoped_faithful c hc (.un op e) ha; exact ⟨v, h1, h2, h3⟩
    obtain ⟨v, hv1, hv2, hv3⟩ := this
    refine ⟨_, _, TrList.cons hv1 hl, ?_, ?_⟩
    · simp only [csyms, psyms, hv2, hsyms]
    · simp only [CExpr.ctypes, List.map_cons, htys, argTy_of_Tr hv1, hv3]
end


/-! ### the refusals -/

/-- **What is refused.** The translation fails with "Do not know how to call `f`" only if `f` is
called in the expression and its resolved key is not in the table; it fails with `AttributeError`
only for a called name bound to an object without `__module__`. -/
theorem refused_only_unresolved (c : Cfg) (e : PExpr) (f : String) :
    (tr c e = .error (.unknownCall f) → f ∈ calledNames e ∧ findKnown c.table c.env f = .ok none) ∧
    (tr c e = .error (.attributeError f) → f ∈ calledNames e ∧ c.env.get f = .noModuleAttr) := by
  unfold tr
  cases h : resolve c e with
  | error er =>
    obtain ⟨g, hg, h1, h2⟩ := resolve_error c e er h
    subst h1
    constructor
    · intro h'; simp at h'
    · intro h'
      simp only [Except.error.injEq, TrErr.attributeError.injEq] at h'
      subst h'
      exact ⟨hg, h2⟩
  | ok q =>
    constructor
    · intro h'; exact unknownCall_src c e q f h h'
    · intro h'
      have := emit_noattr c q _ h'
      simp [TrErr.isAttr] at this


/-- **The header is reachable in every rendered file** (`executor.write_cpp_files` + the templates of
the three backends).  Whatever `inject_code` blocks the query carries: if the translation added
`cmath` (it does for every call of a table function: `includes_of_called`, `header`), every rendered
C++ file that calls a math function sees `<cmath>` — `query.cxx` and `Analyzer.cc` directly;
`query.h` provided injected declarations that call a math function bring the include with them. -/
theorem package_spec (b : Backend) (qv : List String) (mds : List Inject) (hdrCalls : Bool)
    (hq : "cmath" ∈ qv) (hh : hdrCalls = true → "cmath" ∈ headerIncsOf mds) :
    PackageSpec (packageFiles b qv mds hdrCalls) = true := by
  cases b
  · simp only [PackageSpec, packageFiles, List.all_cons, List.all_nil, Bool.and_true, Bool.and_eq_true,
      Bool.or_eq_true, Bool.not_eq_true']
    constructor
    · right
      simp [sees, hq]
    · cases hdrCalls with
      | false => left; rfl
      | true => right; simp [sees, hh rfl]
  all_goals
    simp [PackageSpec, packageFiles, sees, hq]

/-- `PackageSpec` is not vacuous: a CMS `Analyzer.cc` that calls a math function and does not list
`cmath` fails it (CMS renders no header that could supply it); an ATLAS `query.cxx` may get it
through `query.h`. -/
theorem package_spec_discriminates :
    PackageSpec [⟨"Analyzer.cc", ["vector"], true⟩] = false ∧
    PackageSpec [⟨"query.cxx", ["query.h"], true⟩, ⟨"query.h", ["cmath"], false⟩] = true := by decide

/-! ## Part III — the property, on the generated constants -/

/-
FULL STATEMENT (false as it stands): for every documented expression `e` (`Documented
Gen.readmeFunctions e`: numeric operands, calls of documented functions, `+ - * / **`, unary `+ -`)
the translator accepts `e`, the emitted C++ means what `e` means with every function read by its
documented name, the needed headers are included and the result has an arithmetic type:
    ∀ e, SpecTerm Gen.readmeFunctions e (tr Gen.cfg e) = true.
Counterexamples below: `remquo(x, y, 0)`, `abs(n)/2` with `n : int`.
-/
/-- **C12, on the model, for every expression in scope** (no bound on size or nesting): the query
is accepted; the C++ expression emitted *denotes the same value as the query under every
interpretation of the `<cmath>` meanings and of arithmetic* — each function is called by the C++
name that is the namesake of the name written in the query, `/` is real division also between
integers, every operand is evaluated in the position it was written; the type the translator
records is the type the C++ compiler gives the expression.

Scope (`Scoped Gen.cfg e`, decidable): operands of type `int`/`double`; operators `+ - * / **`,
unary `+ -`; every call resolves to a row that is the namesake of the written name and whose
declared result type is the C++ result type for the argument types at hand.  By
`documented_plain_partial` and `abs_scope_partial` that is: every documented function except
`remquo` (defect: needs an `int*`) and `abs` applied to integers only (defect: `std::abs(int)` is
`int`, declared `double`).  `float` operands are outside the abstraction (single-precision overloads), not a known defect. -/
theorem computes_namesake_partial : ∀ e : PExpr, Scoped Gen.cfg e = true →
    ∃ v, tr Gen.cfg e = .ok v ∧ csym v.term = psym e ∧ CT.ofName v.ty = v.term.ctype ∧
      (v.ty = "int" ∨ v.ty = "double") ∧
      ∀ (α : Type) (I : Interp α), Sym.eval I (csym v.term) = Sym.eval I (psym e) := by
  intro e h
  obtain ⟨v, h1, h2, h3, h4⟩ := scoped_faithful Gen.cfg cfg_ok e h
  exact ⟨v, (tr_iff _ _ _).2 h1, h2, h3, h4, fun α I => by rw [h2]⟩

/-- The same, as the decidable Spec the harness evaluates on the real translator's output: inside
the scope the model's result satisfies `SpecTerm` (accepted, same meaning, headers, arithmetic type). -/
theorem spec_partial : ∀ e : PExpr, Scoped Gen.cfg e = true →
    SpecTerm Gen.readmeFunctions e (tr Gen.cfg e) = true := by
  intro e h
  obtain ⟨v, h1, h2, _, h4⟩ := scoped_faithful Gen.cfg cfg_ok e h
  have htr := (tr_iff _ _ _).2 h1
  unfold SpecTerm
  rw [htr]
  simp only [Bool.or_eq_true, Bool.not_eq_true']
  right
  unfold SpecTermOk
  simp only [Bool.and_eq_true]
  refine ⟨⟨⟨(Sym.beq_iff _ _).2 h2, ?_⟩, ?_⟩, ?_⟩
  · simp only [neededHeaders, List.all_eq_true, List.mem_filterMap, decide_eq_true_eq]
    rintro hd ⟨f, hf, hm⟩
    obtain ⟨r, hk, hsome, hmean, _⟩ := scoped_calls Gen.cfg e h f hf
    cases hmf : meaningPy f with
    | none => simp [hmf] at hsome
    | some m =>
      simp only [hmf, Option.map_some, Option.some.injEq] at hm
      have hr : r ∈ Gen.table := findKnown_mem hk
      have hh := header r hr
      unfold rowHeader at hh
      rw [hmean, hmf] at hh
      simp only [List.contains_eq_mem, decide_eq_true_eq] at hh
      subst hm
      exact includes_of_called Gen.cfg e v h1 f hf r hk _ hh
  · rcases h4 with h4 | h4 <;> simp [h4, numericTypes]
  · simp only [List.all_eq_true]
    intro f hf
    obtain ⟨_, _, _, _, hv⟩ := scoped_calls Gen.cfg e h f hf
    exact hv

/-- **The scope, per function.** Every documented function other than `abs`, `remquo`
satisfies the call condition of `Scoped` for *all* argument types … -/
theorem documented_plain_partial :
    ∀ f ∈ Gen.readmeFunctions, f ∉ ["abs", "remquo"] → plainRow Gen.cfg f = true := by
  decide +kernel

theorem documented_scoped_partial (f : String) (hf : f ∈ Gen.readmeFunctions)
    (hx : f ∉ ["abs", "remquo"]) (tys : List CT) : callOk Gen.cfg f tys = true :=
  callOk_of_plainRow (documented_plain_partial f hf hx) tys

/-- … and `abs` satisfies it whenever not all of its arguments are integers (`std::abs(int)` is
`int`: `computes_namesake_counterexample_abs_int`). -/
theorem abs_scope_partial (tys : List CT) (h : (tys.isEmpty || !tys.all (· == .int)) = true) :
    callOk Gen.cfg "abs" tys = true := by
  have fact : (match findKnown Gen.cfg.table Gen.cfg.env "abs" with
      | .ok (some r) => r.ret == "double" && meaningCpp r.cpp == meaningPy "abs" && r.cpp != "std::ilogb"
      | _ => false) = true := by decide +kernel
  unfold callOk
  cases hk : findKnown Gen.cfg.table Gen.cfg.env "abs" with
  | error e => simp [hk] at fact
  | ok o =>
    cases o with
    | none => simp [hk] at fact
    | some r =>
      simp only [hk, Bool.and_eq_true, beq_iff_eq, bne_iff_ne, ne_eq] at fact
      obtain ⟨⟨h2, h3⟩, h4⟩ := fact
      have hm : (meaningPy "abs").isSome = true := by decide
      have hv : byValue "abs" = true := by decide
      have hret : cppRet r.cpp tys = .dbl := by
        unfold cppRet
        simp only [h4, if_false]
        cases tys with
        | nil => simp
        | cons a as =>
          simp only [List.isEmpty_cons, Bool.false_or, Bool.not_eq_true'] at h
          simp [h]
      simp [hm, hv, h3, h2, hret, CT.ofName]

mutual
/-- **The scope in terms of the input alone.** A documented expression that stays out of the four
defect classes and has no `float` operand (`Clean`) is in the scope of the theorems. -/
theorem documented_clean_scoped : ∀ e : PExpr, Documented Gen.readmeFunctions e = true → Clean Gen.cfg e = true →
    Scoped Gen.cfg e = true
  | .leaf t ty, hd, hc => by
    simp only [Documented, numericTypes, List.mem_cons, List.mem_nil_iff, or_false, decide_eq_true_eq] at hd
    simp only [Clean, bne_iff_ne, ne_eq] at hc
    simp only [Scoped, Bool.or_eq_true, beq_iff_eq]
    rcases hd with h | h | h
    · exact Or.inl h
    · exact absurd h hc
    · exact Or.inr h
  | .call f args, hd, hc => by
    simp only [Documented, Bool.and_eq_true, decide_eq_true_eq] at hd
    obtain ⟨⟨hf, _⟩, hargs⟩ := hd
    simp only [Clean, Bool.and_eq_true, Bool.not_eq_true', decide_eq_false_iff_not, Bool.or_eq_true, bne_iff_ne, ne_eq] at hc
    obtain ⟨⟨hnot, habs⟩, hcargs⟩ := hc
    simp only [Scoped, Bool.and_eq_true]
    refine ⟨documented_clean_scopedArgs args hargs hcargs, ?_⟩
    by_cases ha : f = "abs"
    · subst ha
      apply abs_scope_partial
      rcases habs with (h | h) | h
      · exact absurd rfl h
      · simp [h]
      · simp [h]
    · apply documented_scoped_partial f hf
      simp only [List.mem_cons, List.mem_nil_iff, or_false, not_or] at hnot ⊢
      exact ⟨ha, hnot⟩
  | .bin op l r, hd, hc => by
    simp only [Documented, Bool.and_eq_true] at hd
    simp only [Clean, Bool.and_eq_true] at hc
    simp only [Scoped, Bool.and_eq_true]
    exact ⟨⟨hd.1.1, documented_clean_scoped l hd.1.2 hc.1⟩, documented_clean_scoped r hd.2 hc.2⟩
  | .un op e, hd, hc => by
    simp only [Documented, Bool.and_eq_true] at hd
    simp only [Clean] at hc
    simp only [Scoped, Bool.and_eq_true]
    exact ⟨hd.1, documented_clean_scoped e hd.2 hc⟩
/-- (argument lists) -/
theorem documented_clean_scopedArgs : ∀ es : List PExpr, DocumentedArgs Gen.readmeFunctions es = true →
    CleanArgs Gen.cfg es = true → ScopedArgs Gen.cfg es = true
  | [], _, _ => by simp [ScopedArgs]
  | a :: as, hd, hc => by
    simp only [DocumentedArgs, Bool.and_eq_true] at hd
    simp only [CleanArgs, Bool.and_eq_true] at hc
    simp only [ScopedArgs, Bool.and_eq_true]
    refine ⟨?_, documented_clean_scopedArgs as hd.2 hc.2⟩
    cases a with
    | leaf t ty => simpa [Clean] using hc.1
    | call f args => exact documented_clean_scoped (.call f args) hd.1 hc.1
    | bin op l r => exact documented_clean_scoped (.bin op l r) hd.1 hc.1
    | un op e => exact documented_clean_scoped (.un op e) hd.1 hc.1
end

/-- **C12 for the model, stated on the input alone.** For every documented expression (numeric
operands, calls of documented functions with the right number of arguments, `+ - * / **`, unary
`+ -`; no bound on size or nesting) outside the four defect classes and without `float`
operands, the translation satisfies the property's Spec: accepted, the emitted C++ denotes what the
query denotes with every function read by its documented name, `<cmath>` is included, the result
type is arithmetic — and the recorded type is the type C++ gives the expression. -/
theorem c12_partial (e : PExpr) (hd : Documented Gen.readmeFunctions e = true) (hc : Clean Gen.cfg e = true) :
    SpecTerm Gen.readmeFunctions e (tr Gen.cfg e) = true ∧
    ∃ v, tr Gen.cfg e = .ok v ∧ csym v.term = psym e ∧ CT.ofName v.ty = v.term.ctype ∧
      ∀ (α : Type) (I : Interp α), Sym.eval I (csym v.term) = Sym.eval I (psym e) := by
  have hs := documented_clean_scoped e hd hc
  obtain ⟨v, h1, h2, h3, _, h5⟩ := computes_namesake_partial e hs
  exact ⟨spec_partial e hs, v, h1, h2, h3, h5⟩

/-- **C12 at package level, for every expression in scope that calls a function**: on each of the
three backends and with any `inject_code` blocks, the model's package for the translated query lets
every C++ file that calls a math function see `<cmath>`. -/
theorem package_partial (b : Backend) (mds : List Inject) (hdrCalls : Bool)
    (hh : hdrCalls = true → "cmath" ∈ headerIncsOf mds)
    (e : PExpr) (hs : Scoped Gen.cfg e = true) (hcall : calledNames e ≠ []) :
    ∃ v, tr Gen.cfg e = .ok v ∧ PackageSpec (packageFiles b v.incs mds hdrCalls) = true := by
  obtain ⟨v, h1, _⟩ := scoped_faithful Gen.cfg cfg_ok e hs
  refine ⟨v, (tr_iff _ _ _).2 h1, package_spec b v.incs mds hdrCalls ?_ hh⟩
  obtain ⟨f, hf⟩ := List.exists_mem_of_ne_nil _ hcall
  obtain ⟨r, hk, hsome, hmean, _⟩ := scoped_calls Gen.cfg e hs f hf
  have hr : r ∈ Gen.table := findKnown_mem hk
  have hh' := header r hr
  unfold rowHeader at hh'
  cases hm : meaningCpp r.cpp with
  | none => simp [hm] at hh'
  | some m =>
    simp only [hm, List.contains_eq_mem, decide_eq_true_eq] at hh'
    exact includes_of_called Gen.cfg e v h1 f hf r hk _ hh'

/-- **The header is reachable whatever else the query uses.** For every expression in scope that
calls a function, every list of include requests made before (`pre`) and after (`post`) the
expression's own — `math.h` of the built-in `DeltaR`, the `include_files` of user C++ functions in C or
C++ spelling, headers of collections — and any `inject_code` include lists: every rendered C++ file
of the model's package that calls a math function sees `cmath` (the header that declares `std::f`;
`math.h` does not count). -/
theorem package_companions_partial (b : Backend) (mds : List Inject) (hdrCalls : Bool)
    (hh : hdrCalls = true → "cmath" ∈ headerIncsOf mds) (pre post : List String)
    (e : PExpr) (hs : Scoped Gen.cfg e = true) (hcall : calledNames e ≠ []) :
    ∃ v, tr Gen.cfg e = .ok v ∧ PackageSpec (packageFiles b (withCompanions pre v.incs post) mds hdrCalls) = true := by
  obtain ⟨v, h1, _⟩ := scoped_faithful Gen.cfg cfg_ok e hs
  refine ⟨v, (tr_iff _ _ _).2 h1, package_spec b _ mds hdrCalls ?_ hh⟩
  obtain ⟨f, hf⟩ := List.exists_mem_of_ne_nil _ hcall
  obtain ⟨r, hk, hsome, hmean, _⟩ := scoped_calls Gen.cfg e hs f hf
  have hr : r ∈ Gen.table := findKnown_mem hk
  have hh' := header r hr
  unfold rowHeader at hh'
  cases hm : meaningCpp r.cpp with
  | none => simp [hm] at hh'
  | some m =>
    simp only [hm, List.contains_eq_mem, decide_eq_true_eq] at hh'
    have hv : "cmath" ∈ v.incs := includes_of_called Gen.cfg e v h1 f hf r hk _ hh'
    unfold withCompanions
    exact mem_mergeIncs.2 (Or.inl (mem_mergeIncs.2 (Or.inr hv)))

/-- The order of the requests is immaterial to what is in the list: nothing requested is lost. -/
theorem companions_keep_all (pre qv post : List String) (i : String) :
    i ∈ withCompanions pre qv post ↔ i ∈ pre ∨ i ∈ qv ∨ i ∈ post := by
  unfold withCompanions
  simp [mem_mergeIncs, or_assoc]

/-- The clause discriminates: had `add_include` treated `math.h` and `cmath` as one path, the query
`sin(DeltaR(…))` (requests `TVector2.h`, `math.h`, then `cmath`) would lose `cmath`, and the rendered
CMS file would fail `PackageSpec`; in the function-first order it would not. -/
theorem companions_discriminates :
    PackageSpec (packageFiles .cmsAod (mergeAliased [("math.h", "cmath"), ("cmath", "math.h")] [] ["TVector2.h", "math.h", "cmath"]) [] false) = false ∧
    PackageSpec (packageFiles .cmsAod (mergeAliased [("math.h", "cmath"), ("cmath", "math.h")] [] ["cmath", "TVector2.h", "math.h"]) [] false) = true ∧
    PackageSpec (packageFiles .cmsAod (withCompanions ["TVector2.h", "math.h"] ["cmath"] []) [] false) = true := by decide

/-- A documented expression is never refused with "Do not know how to call" one of the documented
functions, and no documented name makes the resolver raise. -/
theorem documented_never_refused (e : PExpr) (f : String) (hf : f ∈ Gen.readmeFunctions) :
    tr Gen.cfg e ≠ .error (.unknownCall f) ∧ tr Gen.cfg e ≠ .error (.attributeError f) := by
  constructor
  · intro h
    obtain ⟨_, hn⟩ := (refused_only_unresolved Gen.cfg e f).1 h
    have := documented_accepted f hf
    unfold acceptedAs at this
    simp only [Gen.cfg] at hn
    simp [Gen.cfg, hn] at this
  · intro h
    obtain ⟨_, hn⟩ := (refused_only_unresolved Gen.cfg e f).2 h
    have all : ∀ g ∈ Gen.readmeFunctions, Gen.evalEnv.get g ≠ .noModuleAttr := by decide +kernel
    exact all f hf hn

/-! ### counterexamples: where the full statement is false of the code -/

/-- `abs(n)/2` with `n : int`: `std::abs(int)` is `int`, the row declares `double`: integer
division again. -/
theorem computes_namesake_counterexample_abs_int :
    Documented Gen.readmeFunctions (.bin "Div" (.call "abs" [.leaf "n" "int"]) (.leaf "2" "int")) = true ∧
    SpecTerm Gen.readmeFunctions (.bin "Div" (.call "abs" [.leaf "n" "int"]) (.leaf "2" "int"))
      (tr Gen.cfg (.bin "Div" (.call "abs" [.leaf "n" "int"]) (.leaf "2" "int"))) = false := by
  decide +kernel

def errOf : Except TrErr CVal → Option TrErr
  | .error e => some e
  | .ok _ => none

/-- `remquo(x, y, 0)`: the only way to write the third argument is a value; `std::remquo` wants an
`int*` (with the literal `0` the C++ even compiles — and writes through a null pointer). -/
theorem computes_namesake_counterexample_remquo :
    Documented Gen.readmeFunctions (.call "remquo" [.leaf "x" "double", .leaf "y" "double", .leaf "0" "int"]) = true ∧
    SpecTerm Gen.readmeFunctions (.call "remquo" [.leaf "x" "double", .leaf "y" "double", .leaf "0" "int"])
      (tr Gen.cfg (.call "remquo" [.leaf "x" "double", .leaf "y" "double", .leaf "0" "int"])) = false := by
  decide +kernel

/-! ### non-vacuity: the hypotheses are satisfiable by the inputs the property is about -/

-- `sin(x)*2 + 1`
example : Scoped Gen.cfg (.bin "Add" (.bin "Mult" (.call "sin" [.leaf "x" "double"]) (.leaf "2" "int")) (.leaf "1" "int")) = true := by
  decide +kernel
-- the two repaired inputs: `round(x)` (reaches `builtins.round`) and `ilogb(x)/2` (declared `int`,
-- so the cast that keeps `/` a real division is emitted)
example : Scoped Gen.cfg (.call "round" [.leaf "x" "double"]) = true := by decide +kernel
example : (tr Gen.cfg (.bin "Div" (.call "ilogb" [.leaf "x" "double"]) (.leaf "2" "int"))).toOption.map
    (fun v => (render v.term, v.ty)) = some ("(static_cast<double>(std::ilogb(x))/2)", "double") ∧
    Scoped Gen.cfg (.bin "Div" (.call "ilogb" [.leaf "x" "double"]) (.leaf "2" "int")) = true := by decide +kernel
-- `1/2 + abs(y)`, `pow(x, 2)/3`, `-hypot(x, y) ** ldexp(x, 3)`
example : Scoped Gen.cfg (.bin "Add" (.bin "Div" (.leaf "1" "int") (.leaf "2" "int")) (.call "abs" [.leaf "y" "double"])) = true := by
  decide +kernel
example : Scoped Gen.cfg (.bin "Div" (.call "pow" [.leaf "x" "double", .leaf "2" "int"]) (.leaf "3" "int")) = true := by
  decide +kernel
example : Scoped Gen.cfg (.un "USub" (.bin "Pow" (.call "hypot" [.leaf "x" "double", .leaf "y" "double"])
    (.call "ldexp" [.leaf "x" "double", .leaf "3" "int"]))) = true := by decide +kernel
-- `nan("")` with its string argument, nested calls
example : Scoped Gen.cfg (.call "fmax" [.call "nan" [.leaf "\"\"" "string"], .call "sin" [.call "cos" [.leaf "x" "double"]]]) = true := by
  decide +kernel
-- the model's text for `sin(x)*2+1`
example : (tr Gen.cfg (.bin "Add" (.bin "Mult" (.call "sin" [.leaf "x" "double"]) (.leaf "2" "int")) (.leaf "1" "int"))).toOption.map
    (fun v => (render v.term, v.ty, v.incs)) = some ("((std::sin(x)*2)+1)", "double", ["cmath"]) := by decide +kernel
-- the same inputs satisfy the input-only hypotheses of `c12_partial`
example : Documented Gen.readmeFunctions (.bin "Add" (.bin "Mult" (.call "sin" [.leaf "x" "double"]) (.leaf "2" "int")) (.leaf "1" "int")) = true ∧
    Clean Gen.cfg (.bin "Add" (.bin "Mult" (.call "sin" [.leaf "x" "double"]) (.leaf "2" "int")) (.leaf "1" "int")) = true := by decide +kernel
example : Documented Gen.readmeFunctions (.call "fmax" [.call "nan" [.leaf "\"\"" "string"], .call "abs" [.leaf "x" "double"]]) = true ∧
    Clean Gen.cfg (.call "fmax" [.call "nan" [.leaf "\"\"" "string"], .call "abs" [.leaf "x" "double"]]) = true := by decide +kernel
-- `Accepted` covers more than `Scoped`: float operands, `%`, ilogb, `not` where no result type is asked for
example : Accepted Gen.cfg (.bin "Mod" (.call "ilogb" [.leaf "x" "float"]) (.un "USub" (.leaf "2" "int"))) = true := by
  decide +kernel
example : Accepted Gen.cfg (.call "sin" [.un "USub" (.un "Not" (.bin "Pow" (.un "Not" (.leaf "x" "double")) (.leaf "2" "int")))]) = true := by
  decide +kernel
-- `not x` is declared bool, and a bool operand of a table operator is refused (most_accurate_type does not know bool)
example : (tr Gen.cfg (.un "Not" (.call "log1p" [.leaf "x" "double"]))).toOption.map (·.ty) = some "bool" := by decide +kernel
example : errOf (tr Gen.cfg (.bin "Add" (.un "Not" (.call "sin" [.leaf "x" "double"])) (.leaf "1" "int"))) = some (.unknownType "bool") := by
  decide +kernel
-- the refusals are real: an unknown name, a module-less binding, a string in arithmetic
example : errOf (tr Gen.cfg (.call "frexp" [.leaf "x" "double"])) = some (.unknownCall "frexp") := by decide +kernel
example : errOf (tr Gen.cfg (.call "ast" [.leaf "x" "double"])) = some (.attributeError "ast") := by decide +kernel
example : errOf (tr Gen.cfg (.bin "Add" (.leaf "\"a\"" "string") (.leaf "1" "int"))) = some (.unknownType "string") := by
  decide +kernel

/-! ## Part IV — the call stands where its operands are alive

The model of where `visit_function_ast` puts the call (`columnCode`: the lines the arguments emit,
then the line with the call, then the closing lines) against the scope clause of the Spec
(`aliveGo` / `AliveSpec`).  The same `AliveSpec` is evaluated by the harness on the per-event method
the real translator rendered, also for a second translation of the same query object. -/

/-- For every list of arguments — constants, values out of a `First()` (which stays inside its loop
and guard), accumulators of `Count()`/`Sum()` — in any order and number: in the code the model emits
for a column whose value is the call, *every* line (whatever `sel` selects) mentions only variables
declared in an enclosing block, provided the line with the call mentions only data members and the
variables the arguments' values are made of.  In particular the call is evaluated inside the loop of
every `First()` it reads from. -/
theorem call_alive (sel : CodeLine → Bool) (members : List String) (args : List ArgShape) (call : CodeLine)
    (hk : call.kind = .stmt) (hd : call.decls = [])
    (hu : ∀ u ∈ call.uses, u ∈ members ∨ u ∈ args.flatMap ArgShape.vars) :
    aliveGo sel [members] [] (columnCode args call) = true := by
  apply aliveGo_mono
  unfold columnCode
  rw [befores_walk]
  have hne : enter args [members] ≠ [] := enter_ne args _ (by simp)
  have hvis : call.uses.all (visibleIn (enter args [members])) = true := by
    rw [List.all_eq_true]
    intro u huu
    rcases hu u huu with hm | hv
    · exact enter_mono args _ u (by simp [visibleIn, hm])
    · exact enter_vars args _ u hv
  unfold aliveGo
  simp only [hk, hd, hvis, allLines, Bool.not_true, Bool.false_or, Bool.true_and]
  rw [declareIn_nil _ hne]
  have := afters_walk args [members] [] (by simp)
  rw [List.append_nil] at this
  rw [this]
  simp [aliveGo]

/-- … hence the Spec holds of the model's code: if the line with the call is recognised as holding
an expression that means `e`, `AliveSpec` accepts `columnCode`. -/
theorem alive_spec_model (c : Cfg) (readme : List String) (leaves : List (String × String)) (e : PExpr)
    (members : List String) (args : List ArgShape) (call : CodeLine)
    (hk : call.kind = .stmt) (hd : call.decls = [])
    (hu : ∀ u ∈ call.uses, u ∈ members ∨ u ∈ args.flatMap ArgShape.vars)
    (hh : holdsCall c leaves e call = true) :
    (AliveSpec c readme leaves e members (columnCode args call)).1 = true := by
  unfold AliveSpec
  by_cases hdoc : Documented readme e = true
  · have hany : (columnCode args call).any (holdsCall c leaves e) = true := by
      unfold columnCode
      simp [List.any_append, hh]
    have hnone := aliveCulprit_none (holdsCall c leaves e) _ _ _ (call_alive (holdsCall c leaves e) members args call hk hd hu)
    simp [hdoc, hany, hnone]
  · simp [hdoc]

/-- The clause discriminates (1): the call emitted *after* the blocks of a `First()` were closed —
what a scope captured before the arguments were evaluated gives — is rejected. -/
theorem alive_discriminates_late :
    aliveGo (fun l => l.text == "_col=std::abs(i_obj->pt());") [["_col"]] []
      ((ArgShape.first "jets0" "is_first2" "i_obj1").before ++ (ArgShape.first "jets0" "is_first2" "i_obj1").after
        ++ [⟨.stmt, "_col=std::abs(i_obj->pt());", [], ["_col", "i_obj1"]⟩]) = false := by decide

/-- The clause discriminates (2): a call that mentions the loop variable of *another* piece of
generated code (the text of an earlier translation handed out again) is rejected, although it stands
inside a loop. -/
theorem alive_discriminates_stale :
    aliveGo (fun l => l.text == "_col=std::sqrt(i_obj->pt());") [["_col"]] []
      [⟨.stmt, "", ["jets4"], []⟩, ⟨.forL, "", ["i_obj5"], ["jets4"]⟩, ⟨.openB, "", [], []⟩,
       ⟨.stmt, "_col=std::sqrt(i_obj->pt());", [], ["_col", "i_obj1"]⟩, ⟨.closeB, "", [], []⟩] = false := by decide

-- non-vacuity: the hypotheses of `call_alive` are met by the shape `fmax(X.First().pt(), X.Count())`
example : aliveGo allLines [["_col"]] []
    (columnCode [.first "jets0" "is_first2" "i_obj1", .agg "jets3" "aggResult5" "i_obj4"]
      ⟨.stmt, "_col=std::fmax(i_obj->pt(),aggResult);", [], ["_col", "i_obj1", "aggResult5"]⟩) = true := by decide

end FaxVerif.C12
