/-
C12 — helper lemmas for the scope clause (`AliveSpec`): the stack of frames while the lines of
`columnCode` are walked.  Property theorems are in Theorems.lean.
-/
import FaxVerif.C12.Spec
namespace FaxVerif.C12

/-- every line is judged -/
abbrev allLines : CodeLine → Bool := fun _ => true

theorem aliveGo_mono (sel : CodeLine → Bool) : ∀ (ls : List CodeLine) (stack : List (List String)) (pend : List String),
    aliveGo allLines stack pend ls = true → aliveGo sel stack pend ls = true := by
  intro ls
  induction ls with
  | nil => intro _ _ _; simp [aliveGo]
  | cons l ls ih =>
    intro stack pend h
    unfold aliveGo at h ⊢
    cases hk : l.kind <;> simp only [hk] at h ⊢
    · exact ih _ _ h
    · exact ih _ _ h
    · simp only [Bool.and_eq_true, allLines, Bool.not_true, Bool.false_or] at h
      simp only [Bool.and_eq_true, Bool.or_eq_true]
      exact ⟨Or.inr h.1, ih _ _ h.2⟩
    · simp only [Bool.and_eq_true, allLines, Bool.not_true, Bool.false_or] at h
      simp only [Bool.and_eq_true, Bool.or_eq_true]
      exact ⟨Or.inr h.1, ih _ _ h.2⟩

/-- the stack after the lines one argument emits before the call -/
def enter1 : ArgShape → List (List String) → List (List String)
  | .plain, S => S
  | .first c g v, S => [] :: [v] :: declareIn [c, g] S
  | .agg c acc _, S => declareIn [c, acc] S

def enter : List ArgShape → List (List String) → List (List String)
  | [], S => S
  | a :: as, S => enter as (enter1 a S)

/-- the stack after the blocks the arguments left open are closed again -/
def base : List ArgShape → List (List String) → List (List String)
  | [], S => S
  | .plain :: as, S => base as S
  | .first c g _ :: _, S => declareIn [c, g] S
  | .agg c acc _ :: as, S => base as (declareIn [c, acc] S)

theorem visibleIn_declareIn_self (ds : List String) (S : List (List String)) (v : String) (h : v ∈ ds) :
    visibleIn (declareIn ds S) v = true := by
  cases S with
  | nil => simp [declareIn, visibleIn, h]
  | cons f fs => simp [declareIn, visibleIn, h]

theorem visibleIn_declareIn_mono (ds : List String) (S : List (List String)) (v : String) (h : visibleIn S v = true) :
    visibleIn (declareIn ds S) v = true := by
  cases S with
  | nil => simp [visibleIn] at h
  | cons f fs =>
    simp only [visibleIn, List.any_cons, Bool.or_eq_true, declareIn] at h ⊢
    rcases h with h | h
    · left; simp only [List.contains_eq_mem, List.mem_append, decide_eq_true_eq] at h ⊢; exact Or.inr h
    · right; exact h

theorem visibleIn_cons_mono (f : List String) (S : List (List String)) (v : String) (h : visibleIn S v = true) :
    visibleIn (f :: S) v = true := by
  simp only [visibleIn, List.any_cons, Bool.or_eq_true] at h ⊢
  exact Or.inr h

theorem declareIn_ne (ds : List String) (S : List (List String)) : declareIn ds S ≠ [] := by
  cases S <;> simp [declareIn]

theorem declareIn_nil (S : List (List String)) (h : S ≠ []) : declareIn [] S = S := by
  cases S with
  | nil => exact absurd rfl h
  | cons f fs => simp [declareIn]

@[simp] theorem declareIn_nil_cons (f : List String) (fs : List (List String)) : declareIn [] (f :: fs) = f :: fs := by
  simp [declareIn]

theorem declareIn_tail (ds : List String) (S : List (List String)) (h : S ≠ []) : (declareIn ds S).tail = S.tail := by
  cases S with
  | nil => exact absurd rfl h
  | cons f fs => simp [declareIn]

theorem enter1_ne (a : ArgShape) (S : List (List String)) (h : S ≠ []) : enter1 a S ≠ [] := by
  cases a <;> simp [enter1, h, declareIn_ne]

theorem enter1_mono (a : ArgShape) (S : List (List String)) (v : String) (h : visibleIn S v = true) :
    visibleIn (enter1 a S) v = true := by
  cases a with
  | plain => exact h
  | first c g w => exact visibleIn_cons_mono _ _ _ (visibleIn_cons_mono _ _ _ (visibleIn_declareIn_mono _ _ _ h))
  | agg c acc w => exact visibleIn_declareIn_mono _ _ _ h

theorem enter1_vars (a : ArgShape) (S : List (List String)) (v : String) (h : v ∈ a.vars) :
    visibleIn (enter1 a S) v = true := by
  cases a with
  | plain => simp [ArgShape.vars] at h
  | first c g w =>
    simp only [ArgShape.vars, List.mem_singleton] at h
    subst h
    simp [enter1, visibleIn]
  | agg c acc w =>
    simp only [ArgShape.vars, List.mem_singleton] at h
    subst h
    exact visibleIn_declareIn_self _ _ _ (by simp)

theorem enter_mono : ∀ (as : List ArgShape) (S : List (List String)) (v : String), visibleIn S v = true →
    visibleIn (enter as S) v = true := by
  intro as
  induction as with
  | nil => intro S v h; exact h
  | cons a as ih => intro S v h; exact ih _ _ (enter1_mono a S v h)

theorem enter_vars : ∀ (as : List ArgShape) (S : List (List String)) (v : String), v ∈ as.flatMap ArgShape.vars →
    visibleIn (enter as S) v = true := by
  intro as
  induction as with
  | nil => intro S v h; simp at h
  | cons a as ih =>
    intro S v h
    simp only [List.flatMap_cons, List.mem_append] at h
    rcases h with h | h
    · exact enter_mono as _ v (enter1_vars a S v h)
    · exact ih _ _ h

theorem enter_ne : ∀ (as : List ArgShape) (S : List (List String)), S ≠ [] → enter as S ≠ [] := by
  intro as
  induction as with
  | nil => intro S h; exact h
  | cons a as ih => intro S h; exact ih _ (enter1_ne a S h)

theorem base_ne : ∀ (as : List ArgShape) (S : List (List String)), S ≠ [] → base as S ≠ [] := by
  intro as
  induction as with
  | nil => intro S h; exact h
  | cons a as ih =>
    intro S h
    cases a with
    | plain => exact ih S h
    | first c g v => exact declareIn_ne _ _
    | agg c acc v => exact ih _ (declareIn_ne _ _)

theorem base_tail : ∀ (as : List ArgShape) (S : List (List String)), S ≠ [] → (base as S).tail = S.tail := by
  intro as
  induction as with
  | nil => intro S _; rfl
  | cons a as ih =>
    intro S h
    cases a with
    | plain => exact ih S h
    | first c g v => exact declareIn_tail _ _ h
    | agg c acc v => rw [base, ih _ (declareIn_ne _ _), declareIn_tail _ _ h]

/-- walking the lines one argument emits before the call -/
theorem before_walk (a : ArgShape) (S : List (List String)) (rest : List CodeLine) :
    aliveGo allLines S [] (a.before ++ rest) = aliveGo allLines (enter1 a S) [] rest := by
  cases a with
  | plain => simp [ArgShape.before, enter1]
  | first c g v =>
    have hc : visibleIn (declareIn [c, g] S) c = true := visibleIn_declareIn_self _ _ _ (by simp)
    have hg : visibleIn ([v] :: declareIn [c, g] S) g = true :=
      visibleIn_cons_mono _ _ _ (visibleIn_declareIn_self _ _ _ (by simp))
    have hg2 : visibleIn ([] :: [v] :: declareIn [c, g] S) g = true := visibleIn_cons_mono _ _ _ hg
    simp [ArgShape.before, enter1, aliveGo, allLines, hc, hg, hg2]
  | agg c acc v =>
    have hc : visibleIn (declareIn [c, acc] S) c = true := visibleIn_declareIn_self _ _ _ (by simp)
    have ha : visibleIn ([v] :: declareIn [c, acc] S) acc = true :=
      visibleIn_cons_mono _ _ _ (visibleIn_declareIn_self _ _ _ (by simp))
    have hv : visibleIn ([v] :: declareIn [c, acc] S) v = true := by simp [visibleIn]
    simp [ArgShape.before, enter1, aliveGo, allLines, hc, ha, hv]

theorem befores_walk : ∀ (as : List ArgShape) (S : List (List String)) (rest : List CodeLine),
    aliveGo allLines S [] (as.flatMap ArgShape.before ++ rest) = aliveGo allLines (enter as S) [] rest := by
  intro as
  induction as with
  | nil => intro S rest; simp [enter]
  | cons a as ih =>
    intro S rest
    simp only [List.flatMap_cons, List.append_assoc]
    rw [before_walk, ih, enter]

/-- walking the closing lines: back to the stack `base` -/
theorem afters_walk : ∀ (as : List ArgShape) (S : List (List String)) (rest : List CodeLine), S ≠ [] →
    aliveGo allLines (enter as S) [] (afterAll as ++ rest) = aliveGo allLines (base as S) [] rest := by
  intro as
  induction as with
  | nil => intro S rest _; simp [enter, afterAll, base]
  | cons a as ih =>
    intro S rest hS
    simp only [afterAll, List.append_assoc, enter]
    rw [ih (enter1 a S) (a.after ++ rest) (enter1_ne a S hS)]
    cases a with
    | plain => simp [ArgShape.after, enter1, base]
    | agg c acc v => simp [ArgShape.after, enter1, base]
    | first c g v =>
      have hne : ([] : List String) :: [v] :: declareIn [c, g] S ≠ [] := by simp
      have ht := base_tail as _ hne
      have hg : visibleIn (declareIn [c, g] S) g = true := visibleIn_declareIn_self _ _ _ (by simp)
      have hD : declareIn [] (declareIn [c, g] S) = declareIn [c, g] S := declareIn_nil _ (declareIn_ne _ _)
      have hD2 : declareIn [] ([] :: declareIn [c, g] S) = [] :: declareIn [c, g] S := by simp [declareIn]
      simp only [enter1, ArgShape.after, List.cons_append, List.nil_append, base]
      simp [aliveGo, allLines, ht, hg, hD, hD2]

theorem aliveCulprit_none (sel : CodeLine → Bool) : ∀ (ls : List CodeLine) (stack : List (List String)) (pend : List String),
    aliveGo sel stack pend ls = true → aliveCulprit sel stack pend ls = none := by
  intro ls
  induction ls with
  | nil => intro _ _ _; simp [aliveCulprit]
  | cons l ls ih =>
    intro stack pend h
    unfold aliveGo at h
    unfold aliveCulprit
    cases hk : l.kind <;> simp only [hk] at h ⊢
    · exact ih _ _ h
    · exact ih _ _ h
    · simp only [Bool.and_eq_true, Bool.or_eq_true, Bool.not_eq_true'] at h
      have : (if sel l = true then l.uses.find? (fun v => !visibleIn stack v) else none) = none := by
        by_cases hs : sel l = true
        · simp only [hs, if_true]
          rcases h.1 with h1 | h1
          · simp [hs] at h1
          · simp only [List.find?_eq_none, Bool.not_eq_true', Bool.not_eq_false]
            intro v hv; exact (List.all_eq_true.mp h1) v hv
        · simp [hs]
      rw [this]; exact ih _ _ h.2
    · simp only [Bool.and_eq_true, Bool.or_eq_true, Bool.not_eq_true'] at h
      have : (if sel l = true then l.uses.find? (fun v => !visibleIn stack v) else none) = none := by
        by_cases hs : sel l = true
        · simp only [hs, if_true]
          rcases h.1 with h1 | h1
          · simp [hs] at h1
          · simp only [List.find?_eq_none, Bool.not_eq_true', Bool.not_eq_false]
            intro v hv; exact (List.all_eq_true.mp h1) v hv
        · simp [hs]
      rw [this]; exact ih _ _ h.2

end FaxVerif.C12
