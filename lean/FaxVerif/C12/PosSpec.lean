/-
C12 — positions: decidable predicates.

* `ScopedX` / `goodR`: the scope of `namesake_semantics_positions` (what the typed clauses need of
  the math calls and of the arithmetic around them; nothing is asked of the other constructs).
* `PositionTie`: the comparison of the MODEL's output for a position (the statements `emitX` says
  are emitted, in order, and the include requests) with what the real translator rendered — evaluated
  by the driver (op `trx`) on the lines of the rendered per-event method.
-/
import FaxVerif.C12.PosModel
import FaxVerif.C12.Spec
namespace FaxVerif.C12

/-- the declared type the model gives a resolved sub-expression -/
def tyOfR (c : XCfg) (r : RX) : String :=
  match emitX c r with
  | .ok v => v.ty
  | .error _ => "?"

/-- the row is the namesake of the written name and declares the type C++ gives the call on
arguments of these types -/
def callOkRow (f : String) (r : Row) (tys : List CT) : Bool :=
  (meaningPy f).isSome && meaningCpp r.cpp == meaningPy f && CT.ofName r.ret == cppRet r.cpp tys

/-- what the typed clauses need of one node, given the declared types of its operands: arithmetic on
`int`/`double` operands with `+ - * / **`, unary `+ -`; a comparison symbol that is the one of its
python operator.  Method calls, subscripts, conditionals, `and`/`or`, tuples, dicts, lambdas: nothing. -/
def kindOk (c : XCfg) (k : Kind) (tys : List String) : Bool :=
  match k with
  | .bin op => op ∈ arithBin && tys.all (fun t => t == "int" || t == "double")
  | .un op => op ∈ arithUn
  | .cmp op =>
    (match assoc c.cmpOps op with
      | some sym => cmpName sym == op
      | none => true)
  | _ => true

mutual
def goodR (c : XCfg) : RX → Bool
  | .leaf _ _ => true
  | .var _ => true
  | .fcall f r args => goodRList c args && callOkRow f r (args.map fun a => CT.ofName (tyOfR c a))
  | .ucall f args => (meaningPy f).isNone && goodRList c args   -- a name that has a documented meaning was not left alone
  | .node k kids => goodRList c kids && kindOk c k (kids.map (tyOfR c))
def goodRList (c : XCfg) : List RX → Bool
  | [] => true
  | a :: as => goodR c a && goodRList c as
end

/-- the scope, on the input -/
def ScopedX (c : XCfg) (e : QExpr) : Bool :=
  match resolveX c.base e with
  | .ok r => goodR c r
  | .error _ => false

/-- recorded type = the type C++ gives the term -/
def XVal.typeOK (v : XVal) : Prop := CT.ofName v.ty = ctypeX v.term

/-! ### the tie -/

def containsChars (frag : List Char) (line : List Char) : Bool :=
  (tailsOf line).any fun s => (stripPrefix? frag s).isSome

/-- the statements occur in this order in the lines (two may stand in one line); returns the first
statement that does not -/
def firstMissing : List String → List String → Option String
  | [], _ => none
  | f :: _, [] => some f
  | f :: fs, l :: ls =>
    if containsChars f.toList l.toList then firstMissing fs (l :: ls) else firstMissing (f :: fs) ls
termination_by fs ls => fs.length + ls.length

/-- what the consumer of the position's value writes: the text of a scalar value (`_col = <text>;`,
`push_back(<text>)`), each element of a tuple / dict, nothing for a sequence -/
def consumerTexts (v : XVal) : List String :=
  match v.term with
  | .node (.struct _) _ parts => if v.ty = "sequence" then [] else renderListX parts
  | t => [renderX t]

def tieFrags (v : XVal) : List String := v.stmts ++ consumerTexts v

/-- `lines`: the statements of the rendered per-event method (white space removed, counters of
generated names removed); `incs`: the include files the translation added.  The model's statements
occur in order, and the model's include requests are exactly the added ones (as sets: the order of
requests made by *other* constructs of the whole query is the companion stream's business). -/
def PositionTie (v : XVal) (lines : List String) (incs : List String) : Bool × String :=
  match firstMissing (tieFrags v) lines with
  | some f => (false, "the model's statement `" ++ f ++ "` does not occur (in the model's order: statements, then the value's text) in the rendered per-event method")
  | none =>
    if !(v.incs.all (· ∈ incs)) then (false, "an include file the model requests was not added")
    else (true, "")

end FaxVerif.C12
