/-
C12 — model of the math-function machinery of func_adl_xAOD:

* the table `functions_to_replace` filled by `add_function_mapping` (common/cpp_functions.py) — a
  list of `Row`s, regenerated from the source on every run (`Generated/C12Table.lean`);
* `find_known_functions.visit_Call`: name resolution (`eval(id)` → `<module>.<id>`, `NameError` →
  bare `id`) and table lookup — `fncName`, `findKnown`, `resolve`;
* `query_ast_visitor.visit_function_ast` / `visit_BinOp` / `visit_special_BinOp` / `visit_UnaryOp`
  (common/ast_to_cpp_translator.py) and `most_accurate_type` (common/utils.py) on the scalar
  expression fragment — `emit`;
* what the functions *mean*: one enumeration `MathFn` of <cmath> function meanings with two maps
  into it, written independently of each other and of the table: `meaningPy` (the documented
  python-side names) and `meaningCpp` (the C++ names), and a symbolic semantics (`psym` for the
  query expression under Python numerics, `csym` for the emitted C++ term under the C++ typing
  rules) in a free term algebra `Sym`.

No Mathlib; everything here is computable and is what the driver runs.
-/
namespace FaxVerif.C12

/-! ### the table -/

/-- one `add_function_mapping(python_name, cpp_name, include_files, return_type)`; `includes` is
already normalised the way the function does it (a single string becomes a one-element list) and
`ret` is the `.type` of `terminal(return_type)`. -/
structure Row where
  py : String
  cpp : String
  includes : List String
  ret : String
deriving Repr, DecidableEq, Inhabited

/-- `functions_to_replace[k]` after the rows were added in order: dict assignment, so the *last*
row with that key wins. -/
def lookup : List Row → String → Option Row
  | [], _ => none
  | r :: rs, k =>
    match lookup rs k with
    | some r' => some r'
    | none => if r.py = k then some r else none

def keys (t : List Row) : List String := t.map (·.py)

/-! ### meanings -/

/-- The functions of `<cmath>` the documentation lists, as *meanings*: `ln` and `log` are the same
meaning (natural logarithm); `abs`, `fabs`, the python built-in `abs`, `std::abs` and `std::fabs`
are the same meaning (absolute value — on floating-point arguments they are the same function). -/
inductive MathFn where
  | sin | cos | tan | acos | asin | atan | atan2
  | sinh | cosh | tanh | asinh | acosh | atanh
  | exp | ldexp | log | log10 | exp2 | expm1 | ilogb | log1p | log2 | scalbn | scalbln
  | pow | sqrt | cbrt | hypot
  | erf | erfc | tgamma | lgamma
  | ceil | floor | fmod | trunc | round | rint | nearbyint | remainder | remquo
  | copysign | nan | nextafter | nexttoward
  | fdim | fmax | fmin
  | fabs | fma
deriving Repr, DecidableEq, Inhabited

/-- What a python-side name (a key of the table: a documented bare name, or `builtins.<name>`)
means.  Written from the documentation (README "Math": the functions of the C++ `cmath` library,
plus `ln`; python's built-in `abs` and `pow`). -/
def meaningPy : String → Option MathFn
  | "sin" => some .sin | "cos" => some .cos | "tan" => some .tan
  | "acos" => some .acos | "asin" => some .asin | "atan" => some .atan | "atan2" => some .atan2
  | "sinh" => some .sinh | "cosh" => some .cosh | "tanh" => some .tanh
  | "asinh" => some .asinh | "acosh" => some .acosh | "atanh" => some .atanh
  | "exp" => some .exp | "ldexp" => some .ldexp | "log" => some .log | "ln" => some .log
  | "log10" => some .log10 | "exp2" => some .exp2 | "expm1" => some .expm1 | "ilogb" => some .ilogb
  | "log1p" => some .log1p | "log2" => some .log2 | "scalbn" => some .scalbn | "scalbln" => some .scalbln
  | "pow" => some .pow | "sqrt" => some .sqrt | "cbrt" => some .cbrt | "hypot" => some .hypot
  | "erf" => some .erf | "erfc" => some .erfc | "tgamma" => some .tgamma | "lgamma" => some .lgamma
  | "ceil" => some .ceil | "floor" => some .floor | "fmod" => some .fmod | "trunc" => some .trunc
  | "round" => some .round | "rint" => some .rint | "nearbyint" => some .nearbyint
  | "remainder" => some .remainder | "remquo" => some .remquo
  | "copysign" => some .copysign | "nan" => some .nan | "nextafter" => some .nextafter
  | "nexttoward" => some .nexttoward
  | "fdim" => some .fdim | "fmax" => some .fmax | "fmin" => some .fmin
  | "fabs" => some .fabs | "abs" => some .fabs | "fma" => some .fma
  | "builtins.abs" => some .fabs | "builtins.pow" => some .pow | "builtins.round" => some .round
  | _ => none

/-- What a C++ name means (ISO C++ `<cmath>`). -/
def meaningCpp : String → Option MathFn
  | "std::sin" => some .sin | "std::cos" => some .cos | "std::tan" => some .tan
  | "std::acos" => some .acos | "std::asin" => some .asin | "std::atan" => some .atan
  | "std::atan2" => some .atan2
  | "std::sinh" => some .sinh | "std::cosh" => some .cosh | "std::tanh" => some .tanh
  | "std::asinh" => some .asinh | "std::acosh" => some .acosh | "std::atanh" => some .atanh
  | "std::exp" => some .exp | "std::ldexp" => some .ldexp | "std::log" => some .log
  | "std::log10" => some .log10 | "std::exp2" => some .exp2 | "std::expm1" => some .expm1
  | "std::ilogb" => some .ilogb | "std::log1p" => some .log1p | "std::log2" => some .log2
  | "std::scalbn" => some .scalbn | "std::scalbln" => some .scalbln
  | "std::pow" => some .pow | "std::sqrt" => some .sqrt | "std::cbrt" => some .cbrt
  | "std::hypot" => some .hypot
  | "std::erf" => some .erf | "std::erfc" => some .erfc | "std::tgamma" => some .tgamma
  | "std::lgamma" => some .lgamma
  | "std::ceil" => some .ceil | "std::floor" => some .floor | "std::fmod" => some .fmod
  | "std::trunc" => some .trunc | "std::round" => some .round | "std::rint" => some .rint
  | "std::nearbyint" => some .nearbyint | "std::remainder" => some .remainder
  | "std::remquo" => some .remquo
  | "std::copysign" => some .copysign | "std::nan" => some .nan | "std::nextafter" => some .nextafter
  | "std::nexttoward" => some .nexttoward
  | "std::fdim" => some .fdim | "std::fmax" => some .fmax | "std::fmin" => some .fmin
  | "std::fabs" => some .fabs | "std::abs" => some .fabs | "std::fma" => some .fma
  | _ => none

/-- The header ISO C++ declares the function in. -/
def MathFn.header : MathFn → String := fun _ => "cmath"

/-- Kinds of parameter of the `<cmath>` signatures (the `double` overload). -/
inductive Param where
  | num      -- double
  | int      -- int
  | long     -- long
  | ldbl     -- long double
  | cstr     -- const char*
  | intPtr   -- int* (an output parameter)
deriving Repr, DecidableEq

/-- Signature of the `double` overload (ISO C++ [c.math]). -/
def MathFn.params : MathFn → List Param
  | .atan2 | .pow | .hypot | .fmod | .remainder | .copysign | .nextafter
  | .fdim | .fmax | .fmin => [.num, .num]
  | .ldexp | .scalbn => [.num, .int]
  | .scalbln => [.num, .long]
  | .nexttoward => [.num, .ldbl]
  | .remquo => [.num, .num, .intPtr]
  | .nan => [.cstr]
  | .fma => [.num, .num, .num]
  | _ => [.num]

/-- A query can only pass values (numbers, string constants); an `int*` cannot be written. -/
def MathFn.callableByValue (m : MathFn) : Bool := m.params.all (· != .intPtr)

/-! ### C++ arithmetic types -/

inductive CT where
  | int | flt | dbl | other
deriving Repr, DecidableEq, Inhabited

def CT.ofName : String → CT
  | "int" => .int | "float" => .flt | "double" => .dbl | _ => .other

/-- the usual arithmetic conversions on `int`/`float`/`double` -/
def CT.join : CT → CT → CT
  | .other, _ => .other | _, .other => .other
  | .dbl, _ => .dbl | _, .dbl => .dbl
  | .flt, _ => .flt | _, .flt => .flt
  | .int, .int => .int

/-- The type C++ gives the call `name(args)` for arguments of type `int`/`double`: `std::ilogb`
returns `int`; `std::abs` of integers is the integer overload; everything else is the `double`
overload (integer arguments are converted to `double`, [cmath.syn]).  `float` arguments (which
would select the single-precision overloads) are outside the scope of the theorems. -/
def cppRet (name : String) (args : List CT) : CT :=
  if name = "std::ilogb" then .int
  else if name = "std::abs" ∧ args ≠ [] ∧ args.all (· == .int) then .int
  else .dbl

/-! ### name resolution: `find_known_functions.visit_Call` -/

/-- What python's `eval(id)` finds in the scope of `visit_Call` and what `.__module__` gives. -/
inductive Binding where
  | unbound                 -- `NameError`
  | inModule (m : String)   -- bound, `fnc.__module__ == m`
  | noModuleAttr            -- bound to an object without `__module__`: `AttributeError` escapes
deriving Repr, DecidableEq, Inhabited

abbrev Env := List (String × Binding)

def Env.get (env : Env) (id : String) : Binding :=
  match env.find? (·.1 == id) with
  | some p => p.2
  | none => .unbound

inductive TrErr where
  | attributeError (f : String)  -- resolver: `module 'x' has no attribute '__module__'`
  | unknownCall (f : String)     -- RuntimeError: Do not know how to call 'f'
  | unknownType (t : String)     -- AssertionError of most_accurate_type
  | unknownOp (op : String)      -- RuntimeError: Do not know how to translate … operator
deriving Repr, DecidableEq

/-- `fnc_name` of `visit_Call`. -/
def fncName (b : Binding) (id : String) : Except TrErr String :=
  match b with
  | .unbound => .ok id
  | .inModule m => .ok (m ++ "." ++ id)
  | .noModuleAttr => .error (.attributeError id)

/-- The table row a call of the bare name `id` is replaced by (`none`: the call is left alone). -/
def findKnown (t : List Row) (env : Env) (id : String) : Except TrErr (Option Row) :=
  match fncName (env.get id) id with
  | .ok k => .ok (lookup t k)
  | .error e => .error e

/-! ### the scalar expression fragment -/

/-- Python side: what stands in the query.  `leaf` is an already translated operand (a method
call on the loop variable, a constant) with the C++ text and the type name the translator has for
it; `bin`/`un` carry the *python ast class name* of the operator (`"Add"`, `"USub"`, …). -/
inductive PExpr where
  | leaf (text ty : String)
  | call (f : String) (args : List PExpr)
  | bin (op : String) (l r : PExpr)
  | un (op : String) (e : PExpr)
deriving Repr, Inhabited

/-- after `find_known_functions`: every call is either replaced by its row or left alone -/
inductive RExpr where
  | leaf (text ty : String)
  | fcall (r : Row) (args : List RExpr)
  | ucall (f : String) (args : List RExpr)
  | bin (op : String) (l r : RExpr)
  | un (op : String) (e : RExpr)
deriving Repr, Inhabited

/-- the emitted C++ expression -/
inductive CExpr where
  | leaf (text ty : String)
  | call (name : String) (args : List CExpr)     -- `name(a,b)`
  | pow (l r : CExpr)                            -- `std::pow(l, r)` of the `**` operator
  | bin (sym : String) (l r : CExpr)             -- `(l+r)`
  | cast (ty : String) (e : CExpr)               -- `static_cast<ty>(e)`
  | un (sym : String) (e : CExpr)                -- `(-(e))`
deriving Repr, Inhabited

structure Cfg where
  table : List Row
  env : Env
  prio : List (String × Nat)        -- `_type_priority`
  binOps : List (String × String)   -- `_known_binary_operators`: ast class name ↦ C++ symbol
  unOps : List (String × String)    -- `_known_unary_operators`

def assoc (l : List (String × α)) (k : String) : Option α :=
  match l.find? (·.1 == k) with
  | some p => some p.2
  | none => none

/- pass 1, `find_known_functions().visit(a)`: bottom-up (arguments left to right, then the call) -/
mutual
def resolve (c : Cfg) : PExpr → Except TrErr RExpr
  | .leaf t ty => .ok (.leaf t ty)
  | .call f args =>
    match resolveList c args with
    | .error e => .error e
    | .ok as =>
      match findKnown c.table c.env f with
      | .error e => .error e
      | .ok (some r) => .ok (.fcall r as)
      | .ok none => .ok (.ucall f as)
  | .bin op l r =>
    match resolve c l with
    | .error e => .error e
    | .ok l' =>
      match resolve c r with
      | .error e => .error e
      | .ok r' => .ok (.bin op l' r')
  | .un op e =>
    match resolve c e with
    | .error e => .error e
    | .ok e' => .ok (.un op e')
def resolveList (c : Cfg) : List PExpr → Except TrErr (List RExpr)
  | [] => .ok []
  | a :: as =>
    match resolve c a with
    | .error e => .error e
    | .ok a' =>
      match resolveList c as with
      | .error e => .error e
      | .ok as' => .ok (a' :: as')
end

/-- the value a visitor leaves as `rep`: the expression, the type name, and the include files
`add_include` was called with so far (in order of first call) -/
structure CVal where
  term : CExpr
  ty : String
  incs : List String
deriving Repr, Inhabited

/-- `add_include` for each element of `b` after all of `a` -/
def mergeIncs (a b : List String) : List String :=
  b.foldl (fun acc i => if i ∈ acc then acc else acc ++ [i]) a

/-- `most_accurate_type([l, r])`: both must be keys of `_type_priority`; stable sort, descending. -/
def bestType (prio : List (String × Nat)) (l r : String) : Except TrErr String :=
  match assoc prio l, assoc prio r with
  | some pl, some pr => .ok (if pl < pr then r else l)
  | none, _ => .error (.unknownType l)
  | _, none => .error (.unknownType r)

/-- `visit_UnaryOp`: `not x` is a bool whatever the operand is (since ea7911a); `+x` and `-x` keep
the operand's declared type. -/
def unTy (op ty : String) : String := if op = "Not" then "bool" else ty

/- pass 2: `visit_function_ast`, `visit_Call` (unknown name), `visit_BinOp`,
`visit_special_BinOp`, `visit_UnaryOp`. -/
mutual
def emit (c : Cfg) : RExpr → Except TrErr CVal
  | .leaf t ty => .ok ⟨.leaf t ty, ty, []⟩
  | .fcall r args =>
    match emitList c args with
    | .error e => .error e
    | .ok (ts, incs) => .ok ⟨.call r.cpp ts, r.ret, mergeIncs incs r.includes⟩
  | .ucall f args =>
    -- generic_visit translates the arguments, then: "Do not know how to call"
    match emitList c args with
    | .error e => .error e
    | .ok _ => .error (.unknownCall f)
  | .bin op l r =>
    match assoc c.binOps op with
    | none =>
      if op = "Pow" then
        match emit c l with
        | .error e => .error e
        | .ok lv =>
          match emit c r with
          | .error e => .error e
          | .ok rv => .ok ⟨.pow lv.term rv.term, "double", mergeIncs (mergeIncs lv.incs rv.incs) ["cmath"]⟩
      else .error (.unknownOp op)
    | some sym =>
      match emit c l with
      | .error e => .error e
      | .ok lv =>
        match emit c r with
        | .error e => .error e
        | .ok rv =>
          match bestType c.prio lv.ty rv.ty with
          | .error e => .error e
          | .ok best =>
            let incs := mergeIncs lv.incs rv.incs
            if op = "Div" then
              if best = "int" then .ok ⟨.bin sym (.cast "double" lv.term) rv.term, "double", incs⟩
              else .ok ⟨.bin sym lv.term rv.term, "double", incs⟩
            else .ok ⟨.bin sym lv.term rv.term, best, incs⟩
  | .un op e =>
    match assoc c.unOps op with
    | none => .error (.unknownOp op)
    | some sym =>
      match emit c e with
      | .error er => .error er
      | .ok v => .ok ⟨.un sym v.term, unTy op v.ty, v.incs⟩
def emitList (c : Cfg) : List RExpr → Except TrErr (List CExpr × List String)
  | [] => .ok ([], [])
  | a :: as =>
    match emit c a with
    | .error e => .error e
    | .ok v =>
      match emitList c as with
      | .error e => .error e
      | .ok (ts, incs) => .ok (v.term :: ts, mergeIncs v.incs incs)
end

/-- the whole pipeline on the fragment -/
def tr (c : Cfg) (e : PExpr) : Except TrErr CVal :=
  match resolve c e with
  | .error er => .error er
  | .ok r => emit c r

/-! ### text of the emitted expression -/

mutual
def render : CExpr → String
  | .leaf t _ => t
  | .call n args => n ++ "(" ++ renderArgs args ++ ")"
  | .pow l r => "std::pow(" ++ render l ++ ", " ++ render r ++ ")"
  | .bin s l r => "(" ++ render l ++ s ++ render r ++ ")"
  | .cast ty e => "static_cast<" ++ ty ++ ">(" ++ render e ++ ")"
  | .un s e => "(" ++ s ++ "(" ++ render e ++ "))"
/-- `",".join(...)` -/
def renderArgs : List CExpr → String
  | [] => ""
  | [a] => render a
  | a :: b :: rest => render a ++ "," ++ renderArgs (b :: rest)
end

/-! ### meaning: a free term algebra -/

/-- arithmetic operations as *meanings*: python's `/` is always real division (`fdiv`), C++'s `/`
on two `int`s is `idiv`; python's `%` (sign of the divisor) and C++'s `%` (`imod`, integers only,
sign of the dividend) are different operations -/
inductive Arith where
  | add | sub | mul | fdiv | idiv | pymod | imod | badmod | neg | pos | lnot | unknown (s : String)
deriving Repr, DecidableEq

inductive Sym where
  | leaf (text : String)
  | app (f : MathFn) (args : List Sym)
  | unk (name : String) (args : List Sym)
  | op (a : Arith) (args : List Sym)
deriving Repr, Inhabited

mutual
def Sym.beq : Sym → Sym → Bool
  | .leaf a, .leaf b => a == b
  | .app f as, .app g bs => f == g && Sym.beqList as bs
  | .unk f as, .unk g bs => f == g && Sym.beqList as bs
  | .op f as, .op g bs => f == g && Sym.beqList as bs
  | _, _ => false
def Sym.beqList : List Sym → List Sym → Bool
  | [], [] => true
  | a :: as, b :: bs => Sym.beq a b && Sym.beqList as bs
  | _, _ => false
end

/- actual C++ type of the emitted expression (what the compiler will give it) -/
mutual
def CExpr.ctype : CExpr → CT
  | .leaf _ ty => CT.ofName ty
  | .call n args => cppRet n (CExpr.ctypes args)
  | .pow _ _ => .dbl
  | .bin _ l r => CT.join l.ctype r.ctype
  | .cast ty _ => CT.ofName ty
  | .un _ e => e.ctype
def CExpr.ctypes : List CExpr → List CT
  | [] => []
  | a :: as => a.ctype :: CExpr.ctypes as
end

/-- the operation a C++ binary operator symbol denotes on operands of these types -/
def cArith (sym : String) (l r : CT) : Arith :=
  if sym = "+" then .add else if sym = "-" then .sub else if sym = "*" then .mul
  else if sym = "/" then (if l = .int ∧ r = .int then .idiv else .fdiv)
  else if sym = "%" then (if l = .int ∧ r = .int then .imod else .badmod)
  else .unknown sym

def cUn (sym : String) : Arith :=
  if sym = "-" then .neg else if sym = "+" then .pos else if sym = "!" then .lnot else .unknown sym

/-- the operation a python operator denotes -/
def pArith (op : String) : Arith :=
  if op = "Add" then .add else if op = "Sub" then .sub else if op = "Mult" then .mul
  else if op = "Div" then .fdiv else if op = "Mod" then .pymod else .unknown op

def pUn (op : String) : Arith :=
  if op = "USub" then .neg else if op = "UAdd" then .pos else if op = "Not" then .lnot else .unknown op

/- meaning of the emitted C++ (value conversions `int → double` are exact and erased) -/
mutual
def csym : CExpr → Sym
  | .leaf t _ => .leaf t
  | .call n args =>
    match meaningCpp n with
    | some m => .app m (csyms args)
    | none => .unk n (csyms args)
  | .pow l r => .app .pow [csym l, csym r]
  | .bin s l r => .op (cArith s l.ctype r.ctype) [csym l, csym r]
  | .cast _ e => csym e
  | .un s e => .op (cUn s) [csym e]
def csyms : List CExpr → List Sym
  | [] => []
  | a :: as => csym a :: csyms as
end

/- meaning of the query expression: each function *by its documented name*, python numerics -/
mutual
def psym : PExpr → Sym
  | .leaf t _ => .leaf t
  | .call f args =>
    match meaningPy f with
    | some m => .app m (psyms args)
    | none => .unk f (psyms args)
  | .bin op l r =>
    if op = "Pow" then .app .pow [psym l, psym r] else .op (pArith op) [psym l, psym r]
  | .un op e => .op (pUn op) [psym e]
def psyms : List PExpr → List Sym
  | [] => []
  | a :: as => psym a :: psyms as
end

/-- An interpretation of the meanings over any carrier (the `Num` of DESIGN §2): the denotation of
a symbolic term.  Equal symbolic terms have equal denotations under every interpretation. -/
structure Interp (α : Type) where
  leaf : String → α
  fn : MathFn → List α → α
  unk : String → List α → α
  op : Arith → List α → α

mutual
def Sym.eval (I : Interp α) : Sym → α
  | .leaf t => I.leaf t
  | .app f as => I.fn f (Sym.evalList I as)
  | .unk n as => I.unk n (Sym.evalList I as)
  | .op a as => I.op a (Sym.evalList I as)
def Sym.evalList (I : Interp α) : List Sym → List α
  | [] => []
  | a :: as => Sym.eval I a :: Sym.evalList I as
end

/-! ### the rendered package: which file sees which include

`executor.write_cpp_files` hands the templates `body_include_files` = the include files the
translation added (`qv.include_files()`) followed by the `body_includes` of every `inject_code`
block, and `header_include_files` = their `header_includes`.  The ATLAS templates render `query.cxx`
(which includes the rendered `query.h`, then the body includes) and `query.h` (the header includes);
the CMS AOD and miniAOD templates render one C++ file, `Analyzer.cc`, with the body includes only —
`header_include_files` is not used there. -/

inductive Backend where
  | atlas | cmsAod | cmsMiniaod
deriving Repr, DecidableEq

/-- the include lists of one `inject_code` metadata block -/
structure Inject where
  headerIncs : List String
  bodyIncs : List String
deriving Repr

/-- one rendered C++ file: its name, the files it includes (a rendered file is named by its base
name), whether it calls a `std::` math function -/
structure FileObs where
  name : String
  incs : List String
  callsMath : Bool
deriving Repr

def headerIncsOf (mds : List Inject) : List String := mds.flatMap (·.headerIncs)
def bodyIncsOf (mds : List Inject) : List String := mds.flatMap (·.bodyIncs)

/-- the C++ files of the package as far as includes go; `qv` are the include files the translation
of the query added, `hdrCalls` says whether injected declarations (`private_members`, rendered into
the class declaration: `query.h` on ATLAS) call a math function themselves -/
def packageFiles (b : Backend) (qv : List String) (mds : List Inject) (hdrCalls : Bool) : List FileObs :=
  match b with
  | .atlas => [⟨"query.cxx", ["query.h"] ++ qv ++ bodyIncsOf mds, true⟩, ⟨"query.h", headerIncsOf mds, hdrCalls⟩]
  | _ => [⟨"Analyzer.cc", qv ++ bodyIncsOf mds, true⟩]

/-- The include list of the query (`generated_code.add_include`, one call per request: the first
request of a path fixes its position, a path is dropped only if *that very path* is in the list) when
the math expression is used together with other sources of includes — built-in injected functions
(`DeltaR`: `TVector2.h`, `math.h`), user `add_cpp_function` blocks, collections: `pre` are the
requests made before the expression's own (`qv`), `post` those made after. -/
def withCompanions (pre qv post : List String) : List String :=
  mergeIncs (mergeIncs (mergeIncs [] pre) qv) post

/-- what a list of requests would give if a C header and the C++ header that wraps it counted as
the same path (`alias`: pairs, both directions) — NOT what the code does; kept to show what the
package clause rejects -/
def mergeAliased (alias : List (String × String)) (a b : List String) : List String :=
  b.foldl (fun acc i => if i ∈ acc || (alias.any fun p => p.1 == i && acc.contains p.2) then acc else acc ++ [i]) a

/-- `name` includes `h`, directly or through rendered files it includes -/
def sees (files : List FileObs) : Nat → String → String → Bool
  | 0, _, _ => false
  | fuel + 1, name, h =>
    match files.find? (·.name == name) with
    | none => false
    | some f => f.incs.contains h || f.incs.any fun i => files.any (·.name == i) && sees files fuel i h

/-! ### where a call is put: the block structure of the emitted per-event method

The call of a math function is emitted *after* its arguments were evaluated
(`visit_function_ast`: `arg_reps = [get_rep_value(a) …]` first, then the value is given
`self._gc.current_scope()`).  Evaluating an argument may emit statements and may leave the cursor
inside new blocks (`First()` stays inside `for (…) { if (is_first) {`; `Count()`/`Sum()` open a
loop and close it again, the value is the accumulator declared before the loop).  Only the block
structure matters here: a line is an opening brace, a closing brace, a `for` header (its loop
variable belongs to the block that follows) or any other statement, with the translator-generated
variables it declares and mentions. -/

inductive LineKind where
  | openB | closeB | forL | stmt
deriving Repr, DecidableEq

structure CodeLine where
  kind : LineKind
  /-- the text of the line (white space removed, loop variables renamed as in the operand texts) -/
  text : String
  /-- generated variables the line declares (`forL`: the loop variable, alive in the next block) -/
  decls : List String
  /-- generated variables the line mentions (other than those it declares) -/
  uses : List String
deriving Repr, DecidableEq

/-- what evaluating one argument of the call leaves in the emitted code -/
inductive ArgShape where
  /-- a constant, or a value of something already alive: no statement -/
  | plain
  /-- `X.First().m()` / `X.Select(…).First()`: collection `coll` and flag `flag` are declared, the
  loop over `coll` with variable `v` and the guard `if (flag)` are opened and stay open -/
  | first (coll flag v : String)
  /-- `X.Count()` / `X.Select(…).Sum()`: `coll` and the accumulator `acc` are declared, the loop is
  opened and closed again -/
  | agg (coll acc v : String)
deriving Repr

/-- lines emitted before the call -/
def ArgShape.before : ArgShape → List CodeLine
  | .plain => []
  | .first coll flag v =>
    [⟨.stmt, "", [coll, flag], []⟩, ⟨.forL, "", [v], [coll]⟩, ⟨.openB, "", [], []⟩,
     ⟨.stmt, "", [], [flag]⟩, ⟨.openB, "", [], []⟩, ⟨.stmt, "", [], [flag]⟩]
  | .agg coll acc v =>
    [⟨.stmt, "", [coll, acc], []⟩, ⟨.forL, "", [v], [coll]⟩, ⟨.openB, "", [], []⟩,
     ⟨.stmt, "", [], [acc, v]⟩, ⟨.closeB, "", [], []⟩]

/-- lines emitted when the blocks the argument left open are closed (after the call) -/
def ArgShape.after : ArgShape → List CodeLine
  | .first _ flag _ =>
    [⟨.closeB, "", [], []⟩, ⟨.closeB, "", [], []⟩, ⟨.stmt, "", [], [flag]⟩, ⟨.openB, "", [], []⟩,
     ⟨.stmt, "", [], []⟩, ⟨.closeB, "", [], []⟩]
  | _ => []

/-- the generated variables the text of the argument's value mentions -/
def ArgShape.vars : ArgShape → List String
  | .plain => []
  | .first _ _ v => [v]
  | .agg _ acc _ => [acc]

def afterAll : List ArgShape → List CodeLine
  | [] => []
  | a :: as => afterAll as ++ a.after

/-- the per-event code of a column whose value is the call: the arguments left to right, the line
holding the call, then the blocks closed innermost first -/
def columnCode (args : List ArgShape) (call : CodeLine) : List CodeLine :=
  args.flatMap ArgShape.before ++ call :: afterAll args


end FaxVerif.C12
