/-
C12 — the property as decidable predicates.

Table level (`SpecRow`, `documentedPresent`, `acceptedAs`): evaluated by `decide` on the generated
table in Theorems.lean *and* by the driver on the rows of the live `functions_to_replace`.

Expression level: `SpecTerm` says what the property demands of the result of translating a query
expression `e` that uses only documented functions and arithmetic (`Documented`): it is accepted,
the emitted C++ *means* (under the C++ typing rules, `csym`) what the query means with every
function read by its documented name (`psym`), the header of every function used is included, and
the result has an arithmetic type.  The same predicate is (a) proved of the model (`tr`) in
Theorems.lean and (b) evaluated on the text the real translator emitted (`SpecEmit`, after parsing
the text with `parseCpp`).
-/
import FaxVerif.C12.Model
namespace FaxVerif.C12

/-! ### table level -/

/-- the C++ function of the row is the namesake of its python name -/
def rowNamesake (r : Row) : Bool := (meaningPy r.py).isSome && meaningCpp r.cpp == meaningPy r.py

/-- the row pulls in the header that declares its C++ function -/
def rowHeader (r : Row) : Bool :=
  match meaningCpp r.cpp with
  | some m => r.includes.contains m.header
  | none => false

/-- the declared result type is one `most_accurate_type` knows: usable in arithmetic -/
def rowArith (prio : List (String × Nat)) (r : Row) : Bool := (assoc prio r.ret).isSome

/-- the declared result type is the type C++ gives the call on `double` arguments (`double`, or
`int` for `ilogb`): the value is held exactly *and* the arithmetic around the call is typed as the
C++ compiler types it -/
def rowRetFaithful (r : Row) : Bool :=
  match meaningCpp r.cpp with
  | some m => CT.ofName r.ret == cppRet r.cpp (m.params.map fun _ => CT.dbl)
  | none => false

def SpecRow (prio : List (String × Nat)) (r : Row) : Bool :=
  rowNamesake r && rowHeader r && rowRetFaithful r && rowArith prio r

/-- every documented name is a key of the table -/
def documentedPresent (t : List Row) (readme : List String) : Bool := readme.all (· ∈ keys t)

/-- a call of the bare name `f` written in a query reaches a row whose C++ function is the namesake
of `f` -/
def acceptedAs (c : Cfg) (f : String) : Bool :=
  match findKnown c.table c.env f with
  | .ok (some r) => (meaningPy f).isSome && meaningCpp r.cpp == meaningPy f
  | _ => false

/-! ### expression level: which inputs the property speaks about -/

def arithBin : List String := ["Add", "Sub", "Mult", "Div", "Pow"]
def arithUn : List String := ["USub", "UAdd"]
def numericTypes : List String := ["int", "float", "double"]

/-- the call has as many arguments as the `<cmath>` function of that name has parameters -/
def arityOk (f : String) (n : Nat) : Bool :=
  match meaningPy f with
  | some m => m.params.length == n
  | none => false

/-- the function of that name takes only by-value parameters: a query can call it at all -/
def byValue (f : String) : Bool := (meaningPy f).any MathFn.callableByValue

/- `Documented readme e`: a scalar expression built from numeric operands, calls of documented
functions (whose direct arguments may also be string constants: `nan("")`) and arithmetic. -/
mutual
def Documented (readme : List String) : PExpr → Bool
  | .leaf _ ty => ty ∈ numericTypes
  | .call f args => f ∈ readme && arityOk f args.length && DocumentedArgs readme args
  | .bin op l r => op ∈ arithBin && Documented readme l && Documented readme r
  | .un op e => op ∈ arithUn && Documented readme e
def DocumentedArgs (readme : List String) : List PExpr → Bool
  | [] => true
  | a :: as =>
    (match a with
      | .leaf _ ty => ty ∈ numericTypes || ty == "string"
      | _ => Documented readme a) && DocumentedArgs readme as
end

/- names of the functions called anywhere in `e` -/
mutual
def calledNames : PExpr → List String
  | .leaf _ _ => []
  | .call f args => f :: calledNamesList args
  | .bin _ l r => calledNames l ++ calledNames r
  | .un _ e => calledNames e
def calledNamesList : List PExpr → List String
  | [] => []
  | a :: as => calledNames a ++ calledNamesList as
end

/-- the headers the functions called in `e` need -/
def neededHeaders (e : PExpr) : List String :=
  (calledNames e).filterMap fun f => (meaningPy f).map (·.header)

/-! ### expression level: the demand -/

/-- What the property demands of a *successful* translation, on terms. -/
def SpecTermOk (e : PExpr) (term : CExpr) (ty : String) (incs : List String) : Bool :=
  Sym.beq (csym term) (psym e) &&
  (neededHeaders e).all (· ∈ incs) &&
  ty ∈ numericTypes &&
  (calledNames e).all byValue

/-- The property on the model's result type. -/
def SpecTerm (readme : List String) (e : PExpr) (res : Except TrErr CVal) : Bool :=
  !Documented readme e ||
  match res with
  | .ok v => SpecTermOk e v.term v.ty v.incs
  | .error _ => false

/-! ### the scope of the theorems (decidable hypotheses) -/

/-- type the model gives a sub-expression -/
def argTy (c : Cfg) (a : PExpr) : CT :=
  match tr c a with
  | .ok v => CT.ofName v.ty
  | .error _ => .other

/-- `f(args)` resolves to a row that is the namesake of `f`, whose declared result type is the
type C++ really gives the call on arguments of these types. -/
def callOk (c : Cfg) (f : String) (tys : List CT) : Bool :=
  match findKnown c.table c.env f with
  | .ok (some r) =>
    (meaningPy f).isSome && meaningCpp r.cpp == meaningPy f &&
    CT.ofName r.ret == cppRet r.cpp tys && (CT.ofName r.ret == .int || CT.ofName r.ret == .dbl) &&
    byValue f
  | _ => false

/- `Scoped c e`: the inputs for which the full statement is proved: operands of type `int` or
`double` (single precision is outside the abstraction), operators `+ - * / **` and unary `+ -`,
every call satisfies `callOk` (resolves to its namesake, declared type = C++ type, by-value). -/
mutual
def Scoped (c : Cfg) : PExpr → Bool
  | .leaf _ ty => ty == "int" || ty == "double"
  | .call f args => ScopedArgs c args && callOk c f (args.map (argTy c))
  | .bin op l r => op ∈ arithBin && Scoped c l && Scoped c r
  | .un op e => op ∈ arithUn && Scoped c e
def ScopedArgs (c : Cfg) : List PExpr → Bool
  | [] => true
  | a :: as =>
    (match a with
      | .leaf _ ty => ty != "float"
      | _ => Scoped c a) && ScopedArgs c as
end

/- `Clean c e`: `e` stays out of the two classes of inputs on which the code is known to be wrong
(`remquo`: needs an `int*`; `abs` of integers only: `std::abs(int)` is `int`, declared `double`)
and has no `float` operand (single precision is outside
the abstraction). -/
mutual
def Clean (c : Cfg) : PExpr → Bool
  | .leaf _ ty => ty != "float"
  | .call f args =>
    !(f ∈ ["remquo"]) &&
    (f != "abs" || (args.map (argTy c)).isEmpty || !(args.map (argTy c)).all (· == .int)) &&
    CleanArgs c args
  | .bin _ l r => Clean c l && Clean c r
  | .un _ e => Clean c e
def CleanArgs (c : Cfg) : List PExpr → Bool
  | [] => true
  | a :: as => Clean c a && CleanArgs c as
end

/-- the configuration facts the expression theorems need: the operator tables give the arithmetic
operators their usual C++ symbols (and have no entry for `Pow`, which is special-cased), and `int`
ranks below `double` -/
def CfgOK (c : Cfg) : Bool :=
  assoc c.binOps "Add" == some "+" && assoc c.binOps "Sub" == some "-" &&
  assoc c.binOps "Mult" == some "*" && assoc c.binOps "Div" == some "/" &&
  assoc c.binOps "Pow" == none &&
  assoc c.unOps "USub" == some "-" && assoc c.unOps "UAdd" == some "+" &&
  (match assoc c.prio "int", assoc c.prio "double" with
    | some a, some b => decide (a < b)
    | _, _ => false)

/-- the value is declared `bool`: a `not`, possibly under unary `+`/`-` (which keep the declared
type of their operand).  `most_accurate_type` does not know `bool`. -/
def boolTyped : PExpr → Bool
  | .un op e => op == "Not" || boolTyped e
  | _ => false

/- `Accepted c e`: the inputs the translator takes (whatever the C++ then means): operands of a
type `_type_priority` knows, known operators, calls that resolve to a row (direct arguments may
be leaves of any type).  Since `not x` is declared `bool` (ea7911a), a `not` may stand at the top,
under another unary operator, as an argument of a call and as an operand of `**` (none of which asks
`most_accurate_type`), but not as an operand of an operator of the operator table. -/
mutual
def Accepted (c : Cfg) : PExpr → Bool
  | .leaf _ ty => (assoc c.prio ty).isSome
  | .call f args =>
    AcceptedArgs c args &&
    (match findKnown c.table c.env f with
      | .ok (some _) => true
      | _ => false)
  | .bin op l r =>
    (((assoc c.binOps op).isSome && !boolTyped l && !boolTyped r) || ((assoc c.binOps op).isNone && op == "Pow")) &&
    Accepted c l && Accepted c r
  | .un op e => (assoc c.unOps op).isSome && Accepted c e
def AcceptedArgs (c : Cfg) : List PExpr → Bool
  | [] => true
  | a :: as =>
    (match a with
      | .leaf _ _ => true
      | _ => Accepted c a) && AcceptedArgs c as
end

/-- every row's declared type, and `double`, are known to `most_accurate_type` -/
def TableArith (c : Cfg) : Bool :=
  c.table.all (rowArith c.prio) && (assoc c.prio "double").isSome

/-! ### reading the emitted text back (the Lean side owns what the text means) -/

def isIdentChar (ch : Char) : Bool := ch.isAlphanum || ch == '_' || ch == ':' || ch == '<' || ch == '>'

def stripPrefix? (p s : List Char) : Option (List Char) :=
  match p, s with
  | [], s => some s
  | _ :: _, [] => none
  | a :: p', b :: s' => if a == b then stripPrefix? p' s' else none

/-- the longest operand text that `s` starts with and that is not followed by more of a token -/
def matchLeaf (leaves : List (String × String)) (s : List Char) : Option ((String × String) × List Char) :=
  leaves.foldl (fun best lf =>
    match stripPrefix? lf.1.toList s with
    | some rest =>
      let ok := match rest with
        | [] => true
        | ch :: _ => !(ch.isAlphanum || ch == '_' || ch == '.')
      if ok && !lf.1.isEmpty then
        match best with
        | some (b, _) => if b.1.length < lf.1.length then some (lf, rest) else best
        | none => some (lf, rest)
      else best
    | none => best) none

def takeIdent : List Char → List Char × List Char
  | [] => ([], [])
  | ch :: s => if isIdentChar ch then let (a, b) := takeIdent s; (ch :: a, b) else ([], ch :: s)

/-- the symbol among `syms` that `s` starts with -/
def matchSym (syms : List String) (s : List Char) : Option (String × List Char) :=
  syms.findSome? fun y => if y.isEmpty then none else (stripPrefix? y.toList s).map fun rest => (y, rest)

mutual
/-- expression grammar of the emitted text:
`leaf | (E sym E) | (sym(E)) | static_cast<T>(E) | name(E,E,…) | std::pow(E, E)` -/
def parseE (c : Cfg) (leaves : List (String × String)) : Nat → List Char → Option (CExpr × List Char)
  | 0, _ => none
  | fuel + 1, s =>
    match matchLeaf leaves s with
    | some ((t, ty), rest) => some (.leaf t ty, rest)
    | none =>
      match s with
      | '(' :: s1 =>
        -- unary: `(` sym `(` E `))`
        let unary : Option (CExpr × List Char) :=
          match matchSym (c.unOps.map (·.2)) s1 with
          | some (y, '(' :: s2) =>
            match parseE c leaves fuel s2 with
            | some (e, ')' :: ')' :: rest) => some (.un y e, rest)
            | _ => none
          | _ => none
        match unary with
        | some r => some r
        | none =>
          match parseE c leaves fuel s1 with
          | some (l, s2) =>
            match matchSym (c.binOps.map (·.2)) s2 with
            | some (y, s3) =>
              match parseE c leaves fuel s3 with
              | some (r, ')' :: rest) => some (.bin y l r, rest)
              | _ => none
            | none => none
          | none => none
      | _ =>
        let (name, s1) := takeIdent s
        if name.isEmpty then none else
        match s1 with
        | '(' :: s2 =>
          let nm := String.ofList name
          if nm.startsWith "static_cast<" && nm.endsWith ">" then
            match parseE c leaves fuel s2 with
            | some (e, ')' :: rest) => some (.cast ((nm.drop 12).dropEnd 1).toString e, rest)
            | _ => none
          else
            match s2 with
            | ')' :: rest => some (.call nm [], rest)
            | _ =>
              match parseArgs c leaves fuel s2 with
              | some (args, seps, rest) =>
                if nm == "std::pow" && seps == [", "] then
                  match args with
                  | [l, r] => some (.pow l r, rest)
                  | _ => none
                else if seps.all (· == ",") then some (.call nm args, rest) else none
              | none => none
        | _ => none
/-- `E (sep E)* )` with `sep` = `,` or `, `; returns the arguments, the separators, the rest after `)` -/
def parseArgs (c : Cfg) (leaves : List (String × String)) : Nat → List Char → Option (List CExpr × List String × List Char)
  | 0, _ => none
  | fuel + 1, s =>
    match parseE c leaves fuel s with
    | some (e, ')' :: rest) => some ([e], [], rest)
    | some (e, ',' :: ' ' :: s1) =>
      match parseArgs c leaves fuel s1 with
      | some (es, seps, rest) => some (e :: es, ", " :: seps, rest)
      | none => none
    | some (e, ',' :: s1) =>
      match parseArgs c leaves fuel s1 with
      | some (es, seps, rest) => some (e :: es, "," :: seps, rest)
      | none => none
    | _ => none
end

def parseCpp (c : Cfg) (leaves : List (String × String)) (text : String) : Option CExpr :=
  let s := text.toList
  match parseE c leaves (s.length + 1) s with
  | some (e, []) => some e
  | _ => none

/-- what is observed of the real translator: the text of the expression assigned to the output
column, the declared C++ type of that column, the include files it added -/
structure Obs where
  text : String
  declTy : String
  incs : List String
deriving Repr

/-- The property evaluated on the implementation's output (`none`: the translator raised). -/
def SpecEmit (c : Cfg) (readme : List String) (leaves : List (String × String)) (e : PExpr) (obs : Option Obs) : Bool × String :=
  if !Documented readme e then (true, "not a documented expression: nothing demanded")
  else match obs with
    | none => (false, "a documented expression was rejected")
    | some o =>
      match parseCpp c leaves o.text with
      | none => (false, "the emitted text is not an expression of the emitted language")
      | some t =>
        if SpecTermOk e t o.declTy o.incs then (true, "")
        else if !Sym.beq (csym t) (psym e) then (false, "the emitted C++ does not mean what the query means (function or operation differs)")
        else if !(neededHeaders e).all (· ∈ o.incs) then (false, "a needed header is not included")
        else if !(calledNames e).all byValue then (false, "a function that needs an output parameter cannot be called from a query")
        else (false, "the result is not of an arithmetic type")

/-! ### package level: the header is reachable where the function is called -/

/-- Every rendered C++ file that calls a `std::` math function includes `<cmath>`, directly or
through a rendered header it includes. -/
def PackageSpec (files : List FileObs) : Bool :=
  files.all fun f => !f.callsMath || sees files (files.length + 1) f.name "cmath"

/-- the first file that calls a math function without seeing `<cmath>` -/
def packageCulprit (files : List FileObs) : Option String :=
  (files.find? fun f => f.callsMath && !sees files (files.length + 1) f.name "cmath").map (·.name)

/-! ### placement level: the function is accepted wherever an expression may stand

A documented call `e` is written at some position of a query (argument of an object method or of a
user C++ function, tuple / dict element, index, test or arm of a conditional, predicate of a
`Where`, …).  What the surrounding construct emits is the business of other properties; C12 demands
that the query is accepted, that *somewhere in the emitted code* stands an expression that means
what `e` means, and that the headers `e` needs are included. -/

def tailsOf : List Char → List (List Char)
  | [] => [[]]
  | c :: cs => (c :: cs) :: tailsOf cs

/-- some position of `code` starts an expression of the emitted language that means `psym e` -/
def occursMeaning (c : Cfg) (leaves : List (String × String)) (e : PExpr) (code : String) : Bool :=
  let target := psym e
  (tailsOf code.toList).any fun s =>
    match s with
    | [] => false
    | ch :: _ =>
      (ch.isAlpha || ch == '(') &&
      match parseE c leaves (s.length + 1) s with
      | some (t, _) => Sym.beq (csym t) target
      | none => false

/-- `code` = the emitted statements (white space removed), `none` = the translator raised -/
def PlacementSpec (c : Cfg) (readme : List String) (leaves : List (String × String)) (e : PExpr)
    (obs : Option (String × List String)) : Bool × String :=
  if !Documented readme e then (true, "not a documented expression: nothing demanded")
  else match obs with
    | none => (false, "a query using a documented function at this position was rejected")
    | some (code, incs) =>
      if !occursMeaning c leaves e code then
        (false, "no expression of the emitted code means what the function call means (not translated, or translated to another function)")
      else if !(neededHeaders e).all (· ∈ incs) then (false, "a needed header is not included")
      else if !(calledNames e).all byValue then (false, "a function that needs an output parameter cannot be called from a query")
      else (true, "")

/-! ### scope level: the call stands where its operands are alive

"Evaluates in the generated job to the same number as the function of that name" needs more than
the right text: the line that holds the call must stand inside the blocks that declare the
variables its operands mention (the loop variable of a `First()`, an accumulator, the loop variable
of the sequence), and those variables must be declared by *this* piece of generated code (a second
translation of the same query object may not hand out the text of the first).  The harness cuts the
per-event method into lines (`CodeLine`); which line holds the call is decided here, by meaning. -/

def visibleIn (stack : List (List String)) (v : String) : Bool := stack.any (·.contains v)

def declareIn (ds : List String) : List (List String) → List (List String)
  | [] => [ds]
  | f :: fs => (ds ++ f) :: fs

/-- Walk the lines with a stack of frames (innermost first; `pend` = the loop variable of a `for`
header waiting for its block).  Every line selected by `sel` may mention only visible variables. -/
def aliveGo (sel : CodeLine → Bool) : List (List String) → List String → List CodeLine → Bool
  | _, _, [] => true
  | stack, pend, l :: ls =>
    match l.kind with
    | .openB => aliveGo sel (pend :: stack) [] ls
    | .closeB => aliveGo sel stack.tail [] ls
    | .forL => (!sel l || l.uses.all (visibleIn stack)) && aliveGo sel stack l.decls ls
    | .stmt => (!sel l || l.uses.all (visibleIn stack)) && aliveGo sel (declareIn l.decls stack) [] ls

/-- the first selected line that mentions a variable that is not visible there, and that variable -/
def aliveCulprit (sel : CodeLine → Bool) : List (List String) → List String → List CodeLine → Option (String × String)
  | _, _, [] => none
  | stack, pend, l :: ls =>
    match l.kind with
    | .openB => aliveCulprit sel (pend :: stack) [] ls
    | .closeB => aliveCulprit sel stack.tail [] ls
    | .forL =>
      match (if sel l then l.uses.find? (fun v => !visibleIn stack v) else none) with
      | some v => some (l.text, v)
      | none => aliveCulprit sel stack l.decls ls
    | .stmt =>
      match (if sel l then l.uses.find? (fun v => !visibleIn stack v) else none) with
      | some v => some (l.text, v)
      | none => aliveCulprit sel (declareIn l.decls stack) [] ls

/-- the line holds an expression that means the call -/
def holdsCall (c : Cfg) (leaves : List (String × String)) (e : PExpr) (l : CodeLine) : Bool :=
  (l.kind == .stmt || l.kind == .forL) && !l.text.isEmpty && occursMeaning c leaves e l.text

/-- `members`: the data members of the generated class (alive everywhere); `lines`: the per-event
method.  Some line holds the call, and every such line mentions only variables alive there. -/
def AliveSpec (c : Cfg) (readme : List String) (leaves : List (String × String)) (e : PExpr)
    (members : List String) (lines : List CodeLine) : Bool × String :=
  if !Documented readme e then (true, "not a documented expression: nothing demanded")
  else if !lines.any (holdsCall c leaves e) then
    (false, "no line of the per-event method holds an expression that means the function call")
  else match aliveCulprit (holdsCall c leaves e) [members] [] lines with
    | some (line, v) => (false, "the call stands where its operand is not alive: `" ++ line ++ "` mentions `" ++ v ++
        "`, which no enclosing block of this generated method declares")
    | none => (true, "")


end FaxVerif.C12
