/-
C12 — helper lemmas: the table lookup, the relational form `Tr` of the two-pass translation with
one introduction rule per syntactic form, small facts about `CT`, `mergeIncs`, `Sym.beq`.
-/
import FaxVerif.C12.Spec
namespace FaxVerif.C12

/-! ### lookup -/

theorem lookup_mem {t : List Row} {k : String} {r : Row} (h : lookup t k = some r) : r ∈ t ∧ r.py = k := by
  induction t with
  | nil => simp [lookup] at h
  | cons a t ih =>
    unfold lookup at h
    cases h' : lookup t k with
    | some r' =>
      simp only [h'] at h
      cases h
      exact ⟨List.mem_cons_of_mem _ (ih h').1, (ih h').2⟩
    | none =>
      simp only [h'] at h
      by_cases hk : a.py = k
      · simp only [hk, if_true] at h
        cases h
        exact ⟨List.mem_cons_self, hk⟩
      · simp [hk] at h

theorem lookup_none_iff (t : List Row) (k : String) : lookup t k = none ↔ k ∉ keys t := by
  induction t with
  | nil => simp [lookup, keys]
  | cons a t ih =>
    unfold lookup
    cases h' : lookup t k with
    | some r' =>
      have : k ∈ keys t := by
        have := (lookup_mem h')
        simp only [keys, List.mem_map]
        exact ⟨r', this.1, this.2⟩
      simp only [reduceCtorEq, false_iff, Decidable.not_not]
      simp only [keys, List.map_cons, List.mem_cons]
      exact Or.inr this
    | none =>
      have hn := ih.1 h'
      by_cases hk : a.py = k
      · simp [hk, keys]
      · simp only [hk, if_false, true_iff]
        simp only [keys, List.map_cons, List.mem_cons, not_or]
        exact ⟨fun h => hk h.symm, hn⟩

theorem lookup_isSome_iff (t : List Row) (k : String) : (lookup t k).isSome ↔ k ∈ keys t := by
  have := lookup_none_iff t k
  cases h : lookup t k with
  | none => simp [h] at this; simp [this]
  | some r => simp [h] at this; simp [this]

/-- when no key is assigned twice, every row is the one its key finds -/
theorem lookup_of_nodup {t : List Row} (hnd : (keys t).Nodup) {r : Row} (hr : r ∈ t) : lookup t r.py = some r := by
  induction t with
  | nil => simp at hr
  | cons a t ih =>
    simp only [keys, List.map_cons, List.nodup_cons] at hnd
    unfold lookup
    rcases List.mem_cons.1 hr with rfl | hr'
    · have : lookup t r.py = none := (lookup_none_iff t r.py).2 hnd.1
      simp [this]
    · have := ih hnd.2 hr'
      simp [this]

/-! ### C types -/

theorem CT.ofName_int {s : String} : CT.ofName s = .int ↔ s = "int" := by
  unfold CT.ofName; split <;> simp_all

theorem CT.ofName_dbl {s : String} : CT.ofName s = .dbl ↔ s = "double" := by
  unfold CT.ofName; split <;> simp_all

/-! ### include lists -/

theorem mem_foldl_inc (b : List String) : ∀ (a : List String) (i : String),
    i ∈ b.foldl (fun acc i => if i ∈ acc then acc else acc ++ [i]) a ↔ i ∈ a ∨ i ∈ b := by
  induction b with
  | nil => intro a i; simp
  | cons x b ih =>
    intro a i
    simp only [List.foldl_cons, ih, List.mem_cons]
    by_cases hx : x ∈ a
    · simp only [hx, if_true]
      constructor
      · rintro (h | h)
        · exact Or.inl h
        · exact Or.inr (Or.inr h)
      · rintro (h | h | h)
        · exact Or.inl h
        · exact Or.inl (h ▸ hx)
        · exact Or.inr h
    · simp only [hx, if_false, List.mem_append, List.mem_singleton]
      constructor
      · rintro ((h | h) | h)
        · exact Or.inl h
        · exact Or.inr (Or.inl h)
        · exact Or.inr (Or.inr h)
      · rintro (h | h | h)
        · exact Or.inl (Or.inl h)
        · exact Or.inl (Or.inr h)
        · exact Or.inr h

theorem mem_mergeIncs {a b : List String} {i : String} : i ∈ mergeIncs a b ↔ i ∈ a ∨ i ∈ b :=
  mem_foldl_inc b a i

/-! ### symbolic terms: `Sym.beq` decides equality -/

mutual
theorem Sym.beq_refl : ∀ a : Sym, Sym.beq a a = true
  | .leaf t => by simp [Sym.beq]
  | .app f as => by simp [Sym.beq, Sym.beqList_refl as]
  | .unk f as => by simp [Sym.beq, Sym.beqList_refl as]
  | .op f as => by simp [Sym.beq, Sym.beqList_refl as]
theorem Sym.beqList_refl : ∀ as : List Sym, Sym.beqList as as = true
  | [] => by simp [Sym.beqList]
  | a :: as => by simp [Sym.beqList, Sym.beq_refl a, Sym.beqList_refl as]
end

mutual
theorem Sym.eq_of_beq : ∀ a b : Sym, Sym.beq a b = true → a = b
  | .leaf t, .leaf u, h => by simp [Sym.beq] at h; simp [h]
  | .app f as, .app g bs, h => by
      simp [Sym.beq] at h; obtain ⟨h1, h2⟩ := h
      rw [h1, Sym.eqList_of_beq as bs h2]
  | .unk f as, .unk g bs, h => by
      simp [Sym.beq] at h; obtain ⟨h1, h2⟩ := h
      rw [h1, Sym.eqList_of_beq as bs h2]
  | .op f as, .op g bs, h => by
      simp [Sym.beq] at h; obtain ⟨h1, h2⟩ := h
      rw [h1, Sym.eqList_of_beq as bs h2]
  | .leaf _, .app _ _, h | .leaf _, .unk _ _, h | .leaf _, .op _ _, h
  | .app _ _, .leaf _, h | .app _ _, .unk _ _, h | .app _ _, .op _ _, h
  | .unk _ _, .leaf _, h | .unk _ _, .app _ _, h | .unk _ _, .op _ _, h
  | .op _ _, .leaf _, h | .op _ _, .app _ _, h | .op _ _, .unk _ _, h => by simp [Sym.beq] at h
theorem Sym.eqList_of_beq : ∀ as bs : List Sym, Sym.beqList as bs = true → as = bs
  | [], [], _ => rfl
  | a :: as, b :: bs, h => by
      simp [Sym.beqList] at h; obtain ⟨h1, h2⟩ := h
      rw [Sym.eq_of_beq a b h1, Sym.eqList_of_beq as bs h2]
  | [], _ :: _, h | _ :: _, [], h => by simp [Sym.beqList] at h
end

theorem Sym.beq_iff (a b : Sym) : Sym.beq a b = true ↔ a = b :=
  ⟨Sym.eq_of_beq a b, fun h => h ▸ Sym.beq_refl a⟩

/-! ### the translation as a relation, one rule per form -/

/-- the model translates `e` to `v`: pass 1 (`resolve`) then pass 2 (`emit`) succeed -/
def Tr (c : Cfg) (e : PExpr) (v : CVal) : Prop := ∃ r, resolve c e = .ok r ∧ emit c r = .ok v

def TrList (c : Cfg) (es : List PExpr) (ts : List CExpr) (incs : List String) : Prop :=
  ∃ rs, resolveList c es = .ok rs ∧ emitList c rs = .ok (ts, incs)

theorem tr_iff (c : Cfg) (e : PExpr) (v : CVal) : tr c e = .ok v ↔ Tr c e v := by
  unfold tr Tr
  cases h : resolve c e with
  | error er => simp
  | ok r => simp

theorem Tr.leaf (c : Cfg) (t ty : String) : Tr c (.leaf t ty) ⟨.leaf t ty, ty, []⟩ :=
  ⟨.leaf t ty, by simp [resolve], by simp [emit]⟩

theorem TrList.nil (c : Cfg) : TrList c [] [] [] := ⟨[], by simp [resolveList], by simp [emitList]⟩

theorem TrList.cons {c : Cfg} {a : PExpr} {as : List PExpr} {v : CVal} {ts : List CExpr} {incs : List String}
    (h : Tr c a v) (hs : TrList c as ts incs) : TrList c (a :: as) (v.term :: ts) (mergeIncs v.incs incs) := by
  obtain ⟨r, h1, h2⟩ := h
  obtain ⟨rs, h3, h4⟩ := hs
  exact ⟨r :: rs, by simp [resolveList, h1, h3], by simp [emitList, h2, h4]⟩

theorem Tr.call {c : Cfg} {f : String} {args : List PExpr} {ts : List CExpr} {incs : List String} {r : Row}
    (h : TrList c args ts incs) (hf : findKnown c.table c.env f = .ok (some r)) :
    Tr c (.call f args) ⟨.call r.cpp ts, r.ret, mergeIncs incs r.includes⟩ := by
  obtain ⟨rs, h1, h2⟩ := h
  exact ⟨.fcall r rs, by simp [resolve, h1, hf], by simp [emit, h2]⟩

/-- the value `visit_BinOp` builds -/
def binVal (op sym best : String) (lv rv : CVal) : CVal :=
  if op = "Div" then
    if best = "int" then ⟨.bin sym (.cast "double" lv.term) rv.term, "double", mergeIncs lv.incs rv.incs⟩
    else ⟨.bin sym lv.term rv.term, "double", mergeIncs lv.incs rv.incs⟩
  else ⟨.bin sym lv.term rv.term, best, mergeIncs lv.incs rv.incs⟩

theorem Tr.bin {c : Cfg} {op sym best : String} {l r : PExpr} {lv rv : CVal}
    (hl : Tr c l lv) (hr : Tr c r rv) (hs : assoc c.binOps op = some sym)
    (hb : bestType c.prio lv.ty rv.ty = .ok best) : Tr c (.bin op l r) (binVal op sym best lv rv) := by
  obtain ⟨l', h1, h2⟩ := hl
  obtain ⟨r', h3, h4⟩ := hr
  refine ⟨.bin op l' r', by simp [resolve, h1, h3], ?_⟩
  unfold emit
  simp only [hs, h2, h4, hb, binVal]
  by_cases hd : op = "Div"
  · by_cases hi : best = "int" <;> simp [hd, hi]
  · simp [hd]

theorem Tr.pow {c : Cfg} {l r : PExpr} {lv rv : CVal}
    (hl : Tr c l lv) (hr : Tr c r rv) (hs : assoc c.binOps "Pow" = none) :
    Tr c (.bin "Pow" l r) ⟨.pow lv.term rv.term, "double", mergeIncs (mergeIncs lv.incs rv.incs) ["cmath"]⟩ := by
  obtain ⟨l', h1, h2⟩ := hl
  obtain ⟨r', h3, h4⟩ := hr
  refine ⟨.bin "Pow" l' r', by simp [resolve, h1, h3], ?_⟩
  unfold emit
  simp only [hs, h2, h4, if_true]

theorem Tr.un {c : Cfg} {op sym : String} {e : PExpr} {v : CVal}
    (h : Tr c e v) (hs : assoc c.unOps op = some sym) : Tr c (.un op e) ⟨.un sym v.term, v.ty, v.incs⟩ := by
  obtain ⟨e', h1, h2⟩ := h
  refine ⟨.un op e', by simp [resolve, h1], ?_⟩
  unfold emit
  simp only [hs, h2]

/-- `argTy` of something that translates -/
theorem argTy_of_Tr {c : Cfg} {a : PExpr} {v : CVal} (h : Tr c a v) : argTy c a = CT.ofName v.ty := by
  unfold argTy
  rw [(tr_iff c a v).2 h]

/-! ### inversion: what a successful / failed translation of each form came from -/

theorem Tr.call_inv {c : Cfg} {f : String} {args : List PExpr} {v : CVal} (h : Tr c (.call f args) v) :
    ∃ r ts incs, findKnown c.table c.env f = .ok (some r) ∧ TrList c args ts incs ∧
      v = ⟨.call r.cpp ts, r.ret, mergeIncs incs r.includes⟩ := by
  obtain ⟨q, h1, h2⟩ := h
  unfold resolve at h1
  cases ha : resolveList c args with
  | error er => simp [ha] at h1
  | ok rs =>
    simp only [ha] at h1
    cases hf : findKnown c.table c.env f with
    | error er => simp [hf] at h1
    | ok o =>
      cases o with
      | none =>
        simp only [hf, Except.ok.injEq] at h1
        subst h1
        unfold emit at h2
        cases he : emitList c rs with
        | error er => simp [he] at h2
        | ok p => simp [he] at h2
      | some r =>
        simp only [hf, Except.ok.injEq] at h1
        subst h1
        unfold emit at h2
        cases he : emitList c rs with
        | error er => simp [he] at h2
        | ok p =>
          obtain ⟨ts, incs⟩ := p
          simp only [he, Except.ok.injEq] at h2
          exact ⟨r, ts, incs, rfl, ⟨rs, ha, he⟩, h2.symm⟩

theorem TrList.cons_inv {c : Cfg} {a : PExpr} {as : List PExpr} {ts : List CExpr} {incs : List String}
    (h : TrList c (a :: as) ts incs) :
    ∃ v ts' incs', Tr c a v ∧ TrList c as ts' incs' ∧ ts = v.term :: ts' ∧ incs = mergeIncs v.incs incs' := by
  obtain ⟨rs, h1, h2⟩ := h
  unfold resolveList at h1
  cases ha : resolve c a with
  | error er => simp [ha] at h1
  | ok a' =>
    simp only [ha] at h1
    cases hs : resolveList c as with
    | error er => simp [hs] at h1
    | ok as' =>
      simp only [hs, Except.ok.injEq] at h1
      subst h1
      unfold emitList at h2
      cases he : emit c a' with
      | error er => simp [he] at h2
      | ok v =>
        simp only [he] at h2
        cases hl : emitList c as' with
        | error er => simp [hl] at h2
        | ok p =>
          obtain ⟨ts', incs'⟩ := p
          simp only [hl, Except.ok.injEq, Prod.mk.injEq] at h2
          exact ⟨v, ts', incs', ⟨a', ha, he⟩, ⟨as', hs, hl⟩, h2.1.symm, h2.2.symm⟩

theorem Tr.bin_inv {c : Cfg} {op : String} {l r : PExpr} {v : CVal} (h : Tr c (.bin op l r) v) :
    ∃ lv rv, Tr c l lv ∧ Tr c r rv ∧ ∀ i, (i ∈ lv.incs ∨ i ∈ rv.incs) → i ∈ v.incs := by
  obtain ⟨q, h1, h2⟩ := h
  unfold resolve at h1
  cases hl : resolve c l with
  | error er => simp [hl] at h1
  | ok l' =>
    simp only [hl] at h1
    cases hr : resolve c r with
    | error er => simp [hr] at h1
    | ok r' =>
      simp only [hr, Except.ok.injEq] at h1
      subst h1
      unfold emit at h2
      cases hs : assoc c.binOps op with
      | none =>
        simp only [hs] at h2
        by_cases hp : op = "Pow"
        · simp only [hp, if_true] at h2
          cases h3 : emit c l' with
          | error er => simp [h3] at h2
          | ok lv =>
            simp only [h3] at h2
            cases h4 : emit c r' with
            | error er => simp [h4] at h2
            | ok rv =>
              simp only [h4, Except.ok.injEq] at h2
              subst h2
              refine ⟨lv, rv, ⟨l', hl, h3⟩, ⟨r', hr, h4⟩, ?_⟩
              intro i hi
              exact mem_mergeIncs.2 (Or.inl (mem_mergeIncs.2 hi))
        · simp [hp] at h2
      | some sym =>
        simp only [hs] at h2
        cases h3 : emit c l' with
        | error er => simp [h3] at h2
        | ok lv =>
          simp only [h3] at h2
          cases h4 : emit c r' with
          | error er => simp [h4] at h2
          | ok rv =>
            simp only [h4] at h2
            cases hb : bestType c.prio lv.ty rv.ty with
            | error er => simp [hb] at h2
            | ok best =>
              simp only [hb] at h2
              refine ⟨lv, rv, ⟨l', hl, h3⟩, ⟨r', hr, h4⟩, ?_⟩
              intro i hi
              have hm : i ∈ mergeIncs lv.incs rv.incs := mem_mergeIncs.2 hi
              split at h2
              · split at h2 <;> (simp only [Except.ok.injEq] at h2; subst h2; exact hm)
              · simp only [Except.ok.injEq] at h2; subst h2; exact hm

theorem Tr.un_inv {c : Cfg} {op : String} {e : PExpr} {v : CVal} (h : Tr c (.un op e) v) :
    ∃ ev, Tr c e ev ∧ v.incs = ev.incs := by
  obtain ⟨q, h1, h2⟩ := h
  unfold resolve at h1
  cases he : resolve c e with
  | error er => simp [he] at h1
  | ok e' =>
    simp only [he, Except.ok.injEq] at h1
    subst h1
    unfold emit at h2
    cases hs : assoc c.unOps op with
    | none => simp [hs] at h2
    | some sym =>
      simp only [hs] at h2
      cases h3 : emit c e' with
      | error er => simp [h3] at h2
      | ok ev =>
        simp only [h3, Except.ok.injEq] at h2
        subst h2
        exact ⟨ev, ⟨e', he, h3⟩, rfl⟩

end FaxVerif.C12
