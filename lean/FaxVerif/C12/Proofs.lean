/-
C12 — helper lemmas: the table lookup, the relational form `Tr` of the two-pass translation with
one introduction rule per syntactic form, small facts about `CT`, `mergeIncs`, `Sym.beq`.
-/
import FaxVerif.C12.Spec
namespace FaxVerif.C12

/-! ### lookup -/

theorem lookup_mem {t : List Row} {k : String} {r : Row} (h : lookup t k = some r) : r ∈ t ∧ r.py = k := by
  induction t with
  | nil => simp [lookup] at h
  | cons a t ih =>
    unfold lookup at h
    cases h' : lookup t k with
    | some r' =>
      simp only [h'] at h
      cases h
      exact ⟨List.mem_cons_of_mem _ (ih h').1, (ih h').2⟩
    | none =>
      simp only [h'] at h
      by_cases hk : a.py = k
      · simp only [hk, if_true] at h
        cases h
        exact ⟨List.mem_cons_self, hk⟩
      · simp [hk] at h

theorem lookup_none_iff (t : List Row) (k : String) : lookup t k = none ↔ k ∉ keys t := by
  induction t with
  | nil => simp [lookup, keys]
  | cons a t ih =>
    unfold lookup
    cases h' : lookup t k with
    | some r' =>
      have : k ∈ keys t := by
        have := (lookup_mem h')
        simp only [keys, List.mem_map]
        exact ⟨r', this.1, this.2⟩
      simp only [reduceCtorEq, false_iff, Decidable.not_not]
      simp only [keys, List.map_cons, List.mem_cons]
      exact Or.inr this
    | none =>
      have hn := ih.1 h'
      by_cases hk : a.py = k
      · simp [hk, keys]
      · simp only [hk, if_false, true_iff]
        simp only [keys, List.map_cons, List.mem_cons, not_or]
        exact ⟨fun h => hk h.symm, hn⟩

theorem lookup_isSome_iff (t : List Row) (k : String) : (lookup t k).isSome ↔ k ∈ keys t := by
  have := lookup_none_iff t k
  cases h : lookup t k with
  | none => simp [h] at this; simp [this]
  | some r => simp [h] at this; simp [this]

/-- when no key is assigned twice, every row is the one its key finds -/
theorem lookup_of_nodup {t : List Row} (hnd : (keys t).Nodup) {r : Row} (hr : r ∈ t) : lookup t r.py = some r := by
  induction t with
  | nil => simp at hr
  | cons a t ih =>
    simp only [keys, List.map_cons, List.nodup_cons] at hnd
    unfold lookup
    rcases List.mem_cons.1 hr with rfl | hr'
    · have : lookup t r.py = none := (lookup_none_iff t r.py).2 hnd.1
      simp [this]
    · have := ih hnd.2 hr'
      simp [this]

/-! ### C types -/

theorem CT.ofName_int {s : String} : CT.ofName s = .int ↔ s = "int" := by
  unfold CT.ofName; split <;> simp_all

theorem CT.ofName_dbl {s : String} : CT.ofName s = .dbl ↔ s = "double" := by
  unfold CT.ofName; split <;> simp_all

/-! ### include lists -/

theorem mem_foldl_inc (b : List String) : ∀ (a : List String) (i : String),
    i ∈ b.foldl (fun acc i => if i ∈ acc then acc else acc ++ [i]) a ↔ i ∈ a ∨ i ∈ b := by
  induction b with
  | nil => intro a i; simp
  | cons x b ih =>
    intro a i
    simp only [List.foldl_cons, ih, List.mem_cons]
    by_cases hx : x ∈ a
    · simp only [hx, if_true]
      constructor
      · rintro (h | h)
        · exact Or.inl h
        · exact Or.inr (Or.inr h)
      · rintro (h | h | h)
        · exact Or.inl h
        · exact Or.inl (h ▸ hx)
        · exact Or.inr h
    · simp only [hx, if_false, List.mem_append, List.mem_singleton]
      constructor
      · rintro ((h | h) | h)
        · exact Or.inl h
        · exact Or.inr (Or.inl h)
        · exact Or.inr (Or.inr h)
      · rintro (h | h | h)
        · exact Or.inl (Or.inl h)
        · exact Or.inl (Or.inr h)
        · exact Or.inr h

theorem mem_mergeIncs {a b : List String} {i : String} : i ∈ mergeIncs a b ↔ i ∈ a ∨ i ∈ b :=
  mem_foldl_inc b a i

/-! ### symbolic terms: `Sym.beq` decides equality -/

mutual
theorem Sym.beq_refl : ∀ a : Sym, Sym.beq a a = true
  | .leaf t => by simp [Sym.beq]
  | .app f as => by simp [Sym.beq, Sym.beqList_refl as]
  | .unk f as => by simp [Sym.beq, Sym.beqList_refl as]
  | .op f as => by simp [Sym.beq, Sym.beqList_refl as]
theorem Sym.beqList_refl : ∀ as : List Sym, Sym.beqList as as = true
  | [] => by simp [Sym.beqList]
  | a :: as => by simp [Sym.beqList, Sym.beq_refl a, Sym.beqList_refl as]
end

mutual
theorem Sym.eq_of_beq : ∀ a b : Sym, Sym.beq a b = true → a = b
  | .leaf t, .leaf u, h => by simp [Sym.beq] at h; simp [h]
  | .app f as, .app g bs, h => by
      simp [Sym.beq] at h; obtain ⟨h1, h2⟩ := h
      rw [h1, Sym.eqList_of_beq as bs h2]
  | .unk f as, .unk g bs, h => by
      simp [Sym.beq] at h; obtain ⟨h1, h2⟩ := h
      rw [h1, Sym.eqList_of_beq as bs h2]
  | .op f as, .op g bs, h => by
      simp [Sym.beq] at h; obtain ⟨h1, h2⟩ := h
      rw [h1, Sym.eqList_of_beq as bs h2]
  | .leaf _, .app _ _, h | .leaf _, .unk _ _, h | .leaf _, .op _ _, h
  | .app _ _, .leaf _, h | .app _ _, .unk _ _, h | .app _ _, .op _ _, h
  | .unk _ _, .leaf _, h | .unk _ _, .app _ _, h | .unk _ _, .op _ _, h
  | .op _ _, .leaf _, h | .op _ _, .app _ _, h | .op _ _, .unk _ _, h => by simp [Sym.beq] at h
theorem Sym.eqList_of_beq : ∀ as bs : List Sym, Sym.beqList as bs = true → as = bs
  | [], [], _ => rfl
  | a :: as, b :: bs, h => by
      simp [Sym.beqList] at h; obtain ⟨h1, h2⟩ := h
      rw [Sym.eq_of_beq a b h1, Sym.eqList_of_beq as bs h2]
  | [], _ :: _, h | _ :: _, [], h => by simp [Sym.beqList] at h
end

theorem Sym.beq_iff (a b : Sym) : Sym.beq a b = true ↔ a = b :=
  ⟨Sym.eq_of_beq a b, fun h => h ▸ Sym.beq_refl a⟩

/-! ### the translation as a relation, one rule per form -/

/-- the model translates `e` to `v`: pass 1 (`resolve`) then pass 2 (`emit`) succeed -/
def Tr (c : Cfg) (e : PExpr) (v : CVal) : Prop := ∃ r, resolve c e = .ok r ∧ emit c r = .ok v

def TrList (c : Cfg) (es : List PExpr) (ts : List CExpr) (incs : List String) : Prop :=
  ∃ rs, resolveList c es = .ok rs ∧ emitList c rs = .ok (ts, incs)

theorem tr_iff (c : Cfg) (e : PExpr) (v : CVal) : tr c e = .ok v ↔ Tr c e v := by
  unfold tr Tr
  cases h : resolve c e with
  | error er => simp
  | ok r => simp

theorem Tr.leaf (c : Cfg) (t ty : String) : Tr c (.leaf t ty) ⟨.leaf t ty, ty, []⟩ :=
  ⟨.leaf t ty, by simp [resolve], by simp [emit]⟩

theorem TrList.nil (c : Cfg) : TrList c [] [] [] := ⟨[], by simp [resolveList], by simp [emitList]⟩

theorem TrList.cons {c : Cfg} {a : PExpr} {as : List PExpr} {v : CVal} {ts : List CExpr} {incs : List String}
    (h : Tr c a v) (hs : TrList c as ts incs) : TrList c (a :: as) (v.term :: ts) (mergeIncs v.incs incs) := by
  obtain ⟨r, h1, h2⟩ := h
  obtain ⟨rs, h3, h4⟩ := hs
  exact ⟨r :: rs, by simp [resolveList, h1, h3], by simp [emitList, h2, h4]⟩

theorem Tr.call {c : Cfg} {f : String} {args : List PExpr} {ts : List CExpr} {incs : List String} {r : Row}
    (h : TrList c args ts incs) (hf : findKnown c.table c.env f = .ok (some r)) :
    Tr c (.call f args) ⟨.call r.cpp ts, r.ret, mergeIncs incs r.includes⟩ := by
  obtain ⟨rs, h1, h2⟩ := h
  exact ⟨.fcall r rs, by simp [resolve, h1, hf], by simp [emit, h2]⟩

/-- the value `visit_BinOp` builds -/
def binVal (op sym best : String) (lv rv : CVal) : CVal :=
  if op = "Div" then
    if best = "int" then ⟨.bin sym (.cast "double" lv.term) rv.term, "double", mergeIncs lv.incs rv.incs⟩
    else ⟨.bin sym lv.term rv.term, "double", mergeIncs lv.incs rv.incs⟩
  else ⟨.bin sym lv.term rv.term, best, mergeIncs lv.incs rv.incs⟩

theorem Tr.bin {c : Cfg} {op sym best : String} {l r : PExpr} {lv rv : CVal}
    (hl : Tr c l lv) (hr : Tr c r rv) (hs : assoc c.binOps op = some sym)
    (hb : bestType c.prio lv.ty rv.ty = .ok best) : Tr c (.bin op l r) (binVal op sym best lv rv) := by
  obtain ⟨l', h1, h2⟩ := hl
  obtain ⟨r', h3, h4⟩ := hr
  refine ⟨.bin op l' r', by simp [resolve, h1, h3], ?_⟩
  unfold emit
  simp only [hs, h2, h4, hb, binVal]
  by_cases hd : op = "Div"
  · by_cases hi : best = "int" <;> simp [hd, hi]
  · simp [hd]

theorem Tr.pow {c : Cfg} {l r : PExpr} {lv rv : CVal}
    (hl : Tr c l lv) (hr : Tr c r rv) (hs : assoc c.binOps "Pow" = none) :
    Tr c (.bin "Pow" l r) ⟨.pow lv.term rv.term, "double", mergeIncs (mergeIncs lv.incs rv.incs) ["cmath"]⟩ := by
  obtain ⟨l', h1, h2⟩ := hl
  obtain ⟨r', h3, h4⟩ := hr
  refine ⟨.bin "Pow" l' r', by simp [resolve, h1, h3], ?_⟩
  unfold emit
  simp only [hs, h2, h4, if_true]

theorem Tr.un {c : Cfg} {op sym : String} {e : PExpr} {v : CVal}
    (h : Tr c e v) (hs : assoc c.unOps op = some sym) : Tr c (.un op e) ⟨.un sym v.term, unTy op v.ty, v.incs⟩ := by
  obtain ⟨e', h1, h2⟩ := h
  refine ⟨.un op e', by simp [resolve, h1], ?_⟩
  unfold emit
  simp only [hs, h2]

/-- `argTy` of something that translates -/
theorem argTy_of_Tr {c : Cfg} {a : PExpr} {v : CVal} (h : Tr c a v) : argTy c a = CT.ofName v.ty := by
  unfold argTy
  rw [(tr_iff c a v).2 h]

/-! ### inversion: what a successful / failed translation of each form came from -/

theorem Tr.call_inv {c : Cfg} {f : String} {args : List PExpr} {v : CVal} (h : Tr c (.call f args) v) :
    ∃ r ts incs, findKnown c.table c.env f = .ok (some r) ∧ TrList c args ts incs ∧
      v = ⟨.call r.cpp ts, r.ret, mergeIncs incs r.includes⟩ := by
  obtain ⟨q, h1, h2⟩ := h
  unfold resolve at h1
  cases ha : resolveList c args with
  | error er => simp [ha] at h1
  | ok rs =>
    simp only [ha] at h1
    cases hf : findKnown c.table c.env f with
    | error er => simp [hf] at h1
    | ok o =>
      cases o with
      | none =>
        simp only [hf, Except.ok.injEq] at h1
        subst h1
        unfold emit at h2
        cases he : emitList c rs with
        | error er => simp [he] at h2
        | ok p => simp [he] at h2
      | some r =>
        simp only [hf, Except.ok.injEq] at h1
        subst h1
        unfold emit at h2
        cases he : emitList c rs with
        | error er => simp [he] at h2
        | ok p =>
          obtain ⟨ts, incs⟩ := p
          simp only [he, Except.ok.injEq] at h2
          exact ⟨r, ts, incs, rfl, ⟨rs, ha, he⟩, h2.symm⟩

theorem TrList.cons_inv {c : Cfg} {a : PExpr} {as : List PExpr} {ts : List CExpr} {incs : List String}
    (h : TrList c (a :: as) ts incs) :
    ∃ v ts' incs', Tr c a v ∧ TrList c as ts' incs' ∧ ts = v.term :: ts' ∧ incs = mergeIncs v.incs incs' := by
  obtain ⟨rs, h1, h2⟩ := h
  unfold resolveList at h1
  cases ha : resolve c a with
  | error er => simp [ha] at h1
  | ok a' =>
    simp only [ha] at h1
    cases hs : resolveList c as with
    | error er => simp [hs] at h1
    | ok as' =>
      simp only [hs, Except.ok.injEq] at h1
      subst h1
      unfold emitList at h2
      cases he : emit c a' with
      | error er => simp [he] at h2
      | ok v =>
        simp only [he] at h2
        cases hl : emitList c as' with
        | error er => simp [hl] at h2
        | ok p =>
          obtain ⟨ts', incs'⟩ := p
          simp only [hl, Except.ok.injEq, Prod.mk.injEq] at h2
          exact ⟨v, ts', incs', ⟨a', ha, he⟩, ⟨as', hs, hl⟩, h2.1.symm, h2.2.symm⟩

theorem Tr.bin_inv {c : Cfg} {op : String} {l r : PExpr} {v : CVal} (h : Tr c (.bin op l r) v) :
    ∃ lv rv, Tr c l lv ∧ Tr c r rv ∧ ∀ i, (i ∈ lv.incs ∨ i ∈ rv.incs) → i ∈ v.incs := by
  obtain ⟨q, h1, h2⟩ := h
  unfold resolve at h1
  cases hl : resolve c l with
  | error er => simp [hl] at h1
  | ok l' =>
    simp only [hl] at h1
    cases hr : resolve c r with
    | error er => simp [hr] at h1
    | ok r' =>
      simp only [hr, Except.ok.injEq] at h1
      subst h1
      unfold emit at h2
      cases hs : assoc c.binOps op with
      | none =>
        simp only [hs] at h2
        by_cases hp : op = "Pow"
        · simp only [hp, if_true] at h2
          cases h3 : emit c l' with
          | error er => simp [h3] at h2
          | ok lv =>
            simp only [h3] at h2
            cases h4 : emit c r' with
            | error er => simp [h4] at h2
            | ok rv =>
              simp only [h4, Except.ok.injEq] at h2
              subst h2
              refine ⟨lv, rv, ⟨l', hl, h3⟩, ⟨r', hr, h4⟩, ?_⟩
              intro i hi
              exact mem_mergeIncs.2 (Or.inl (mem_mergeIncs.2 hi))
        · simp [hp] at h2
      | some sym =>
        simp only [hs] at h2
        cases h3 : emit c l' with
        | error er => simp [h3] at h2
        | ok lv =>
          simp only [h3] at h2
          cases h4 : emit c r' with
          | error er => simp [h4] at h2
          | ok rv =>
            simp only [h4] at h2
            cases hb : bestType c.prio lv.ty rv.ty with
            | error er => simp [hb] at h2
            | ok best =>
              simp only [hb] at h2
              refine ⟨lv, rv, ⟨l', hl, h3⟩, ⟨r', hr, h4⟩, ?_⟩
              intro i hi
              have hm : i ∈ mergeIncs lv.incs rv.incs := mem_mergeIncs.2 hi
              split at h2
              · split at h2 <;> (simp only [Except.ok.injEq] at h2; subst h2; exact hm)
              · simp only [Except.ok.injEq] at h2; subst h2; exact hm

theorem Tr.un_inv {c : Cfg} {op : String} {e : PExpr} {v : CVal} (h : Tr c (.un op e) v) :
    ∃ ev, Tr c e ev ∧ v.incs = ev.incs := by
  obtain ⟨q, h1, h2⟩ := h
  unfold resolve at h1
  cases he : resolve c e with
  | error er => simp [he] at h1
  | ok e' =>
    simp only [he, Except.ok.injEq] at h1
    subst h1
    unfold emit at h2
    cases hs : assoc c.unOps op with
    | none => simp [hs] at h2
    | some sym =>
      simp only [hs] at h2
      cases h3 : emit c e' with
      | error er => simp [h3] at h2
      | ok ev =>
        simp only [h3, Except.ok.injEq] at h2
        subst h2
        exact ⟨ev, ⟨e', he, h3⟩, rfl⟩


/-! ### lemmas used by the property theorems (all generic in the configuration) -/

theorem findKnown_mem {t : List Row} {env : Env} {id : String} {r : Row}
    (h : findKnown t env id = .ok (some r)) : r ∈ t := by
  unfold findKnown at h
  cases hk : fncName (env.get id) id with
  | error e => simp [hk] at h
  | ok k =>
    simp only [hk, Except.ok.injEq] at h
    exact (lookup_mem h).1

theorem bestType_ok {prio : List (String × Nat)} {a b : String}
    (ha : (assoc prio a).isSome) (hb : (assoc prio b).isSome) :
    ∃ best, bestType prio a b = .ok best ∧ (best = a ∨ best = b) := by
  unfold bestType
  cases h1 : assoc prio a with
  | none => simp [h1] at ha
  | some pa =>
    cases h2 : assoc prio b with
    | none => simp [h2] at hb
    | some pb =>
      by_cases hlt : pa < pb
      · exact ⟨b, by simp [hlt], Or.inr rfl⟩
      · exact ⟨a, by simp [hlt], Or.inl rfl⟩

theorem scoped_leaf_ty {ty : String} (h : (ty == "int" || ty == "double") = true) : ty = "int" ∨ ty = "double" := by
  simpa using h

theorem bestType_int_double {c : Cfg} (hc : CfgOK c = true) {a b : String}
    (ha : a = "int" ∨ a = "double") (hb : b = "int" ∨ b = "double") :
    bestType c.prio a b = .ok (if a = "int" ∧ b = "int" then "int" else "double") := by
  simp only [CfgOK, Bool.and_eq_true] at hc
  obtain ⟨_, hp⟩ := hc
  cases hi : assoc c.prio "int" with
  | none => simp [hi] at hp
  | some pi =>
    cases hd : assoc c.prio "double" with
    | none => simp [hi, hd] at hp
    | some pd =>
      simp only [hi, hd, decide_eq_true_eq] at hp
      rcases ha with rfl | rfl <;> rcases hb with rfl | rfl <;> simp [bestType, hi, hd, hp] <;> omega

theorem cfgOK_ops {c : Cfg} (hc : CfgOK c = true) :
    assoc c.binOps "Add" = some "+" ∧ assoc c.binOps "Sub" = some "-" ∧ assoc c.binOps "Mult" = some "*" ∧
    assoc c.binOps "Div" = some "/" ∧ assoc c.binOps "Pow" = none ∧
    assoc c.unOps "USub" = some "-" ∧ assoc c.unOps "UAdd" = some "+" := by
  simp only [CfgOK, Bool.and_eq_true, beq_iff_eq] at hc
  obtain ⟨⟨⟨⟨⟨⟨⟨h1, h2⟩, h3⟩, h4⟩, h5⟩, h6⟩, h7⟩, _⟩ := hc
  exact ⟨h1, h2, h3, h4, h5, h6, h7⟩

theorem ctype_of_ty {ty : String} (h : ty = "int" ∨ ty = "double") :
    (ty = "int" → CT.ofName ty = .int) ∧ (ty = "double" → CT.ofName ty = .dbl) :=
  ⟨fun h => by subst h; rfl, fun h => by subst h; rfl⟩

theorem ctype_bin (s : String) (l r : CExpr) : (CExpr.bin s l r).ctype = CT.join l.ctype r.ctype := by
  simp [CExpr.ctype]

theorem ctype_cast (ty : String) (e : CExpr) : (CExpr.cast ty e).ctype = CT.ofName ty := by
  simp [CExpr.ctype]

/-- the statement proved of one expression -/
def Faithful (c : Cfg) (e : PExpr) (v : CVal) : Prop :=
  Tr c e v ∧ csym v.term = psym e ∧ CT.ofName v.ty = v.term.ctype ∧ (v.ty = "int" ∨ v.ty = "double")

/-- one non-division arithmetic operator -/
theorem faithful_bin_plain {c : Cfg} (hc : CfgOK c = true) {op sym : String} {l r : PExpr} {lv rv : CVal}
    (hs : assoc c.binOps op = some sym) (hnd : op ≠ "Div") (hnp : op ≠ "Pow")
    (hmean : ∀ a b : CT, cArith sym a b = pArith op)
    (hl : Faithful c l lv) (hr : Faithful c r rv) : ∃ v, Faithful c (.bin op l r) v := by
  obtain ⟨hl1, hl2, hl3, hl4⟩ := hl
  obtain ⟨hr1, hr2, hr3, hr4⟩ := hr
  have hb := bestType_int_double hc hl4 hr4
  refine ⟨_, Tr.bin hl1 hr1 hs hb, ?_, ?_, ?_⟩
  · simp only [binVal, hnd, if_false, csym, psym, hnp, hmean, hl2, hr2]
  · simp only [binVal, hnd, if_false, CExpr.ctype, ← hl3, ← hr3]
    rcases hl4 with h | h <;> rcases hr4 with h' | h' <;> simp [h, h', CT.ofName, CT.join]
  · simp only [binVal, hnd, if_false]
    by_cases h : lv.ty = "int" ∧ rv.ty = "int" <;> simp [h]

theorem findKnown_error {t : List Row} {env : Env} {f : String} {er : TrErr}
    (h : findKnown t env f = .error er) : er = .attributeError f ∧ env.get f = .noModuleAttr := by
  unfold findKnown fncName at h
  cases hb : env.get f with
  | unbound => simp [hb] at h
  | inModule m => simp [hb] at h
  | noModuleAttr => simp only [hb, Except.error.injEq] at h; exact ⟨h.symm, rfl⟩

mutual
/-- Pass 1 fails only with the `AttributeError` of a called name that python's `eval` binds to an
object without `__module__`. -/
theorem resolve_error (c : Cfg) : ∀ (e : PExpr) (er : TrErr), resolve c e = .error er →
    ∃ f ∈ calledNames e, er = .attributeError f ∧ c.env.get f = .noModuleAttr
  | .leaf _ _, er, h => by simp [resolve] at h
  | .call g args, er, h => by
    unfold resolve at h
    cases ha : resolveList c args with
    | error e' =>
      simp only [ha, Except.error.injEq] at h
      subst h
      obtain ⟨f, hf, h1, h2⟩ := resolveList_error c args _ ha
      exact ⟨f, by simp [calledNames, hf], h1, h2⟩
    | ok rs =>
      simp only [ha] at h
      cases hk : findKnown c.table c.env g with
      | error e' =>
        simp only [hk, Except.error.injEq] at h
        subst h
        obtain ⟨h1, h2⟩ := findKnown_error hk
        exact ⟨g, by simp [calledNames], h1, h2⟩
      | ok o => cases o <;> simp [hk] at h
  | .bin op l r, er, h => by
    unfold resolve at h
    cases hl : resolve c l with
    | error e' =>
      simp only [hl, Except.error.injEq] at h
      subst h
      obtain ⟨f, hf, h1, h2⟩ := resolve_error c l _ hl
      exact ⟨f, by simp [calledNames, hf], h1, h2⟩
    | ok l' =>
      simp only [hl] at h
      cases hr : resolve c r with
      | error e' =>
        simp only [hr, Except.error.injEq] at h
        subst h
        obtain ⟨f, hf, h1, h2⟩ := resolve_error c r _ hr
        exact ⟨f, by simp [calledNames, hf], h1, h2⟩
      | ok r' => simp [hr] at h
  | .un op e, er, h => by
    unfold resolve at h
    cases he : resolve c e with
    | error e' =>
      simp only [he, Except.error.injEq] at h
      subst h
      obtain ⟨f, hf, h1, h2⟩ := resolve_error c e _ he
      exact ⟨f, by simp [calledNames, hf], h1, h2⟩
    | ok e' => simp [he] at h
theorem resolveList_error (c : Cfg) : ∀ (es : List PExpr) (er : TrErr), resolveList c es = .error er →
    ∃ f ∈ calledNamesList es, er = .attributeError f ∧ c.env.get f = .noModuleAttr
  | [], er, h => by simp [resolveList] at h
  | a :: as, er, h => by
    unfold resolveList at h
    cases ha : resolve c a with
    | error e' =>
      simp only [ha, Except.error.injEq] at h
      subst h
      obtain ⟨f, hf, h1, h2⟩ := resolve_error c a _ ha
      exact ⟨f, by simp [calledNamesList, hf], h1, h2⟩
    | ok a' =>
      simp only [ha] at h
      cases hs : resolveList c as with
      | error e' =>
        simp only [hs, Except.error.injEq] at h
        subst h
        obtain ⟨f, hf, h1, h2⟩ := resolveList_error c as _ hs
        exact ⟨f, by simp [calledNamesList, hf], h1, h2⟩
      | ok as' => simp [hs] at h
end

mutual
/-- Pass 2 says "Do not know how to call `f`" only for a call of `f` that pass 1 left alone. -/
theorem unknownCall_src (c : Cfg) : ∀ (e : PExpr) (q : RExpr) (f : String), resolve c e = .ok q →
    emit c q = .error (.unknownCall f) → f ∈ calledNames e ∧ findKnown c.table c.env f = .ok none
  | .leaf _ _, q, f, h1, h2 => by
    simp only [resolve, Except.ok.injEq] at h1
    subst h1
    simp [emit] at h2
  | .call g args, q, f, h1, h2 => by
    unfold resolve at h1
    cases ha : resolveList c args with
    | error e' => simp [ha] at h1
    | ok rs =>
      simp only [ha] at h1
      cases hk : findKnown c.table c.env g with
      | error e' => simp [hk] at h1
      | ok o =>
        cases o with
        | some r =>
          simp only [hk, Except.ok.injEq] at h1
          subst h1
          unfold emit at h2
          cases he : emitList c rs with
          | error e' =>
            simp only [he, Except.error.injEq] at h2
            subst h2
            obtain ⟨hf, hn⟩ := unknownCall_srcList c args rs f ha he
            exact ⟨by simp [calledNames, hf], hn⟩
          | ok p => simp [he] at h2
        | none =>
          simp only [hk, Except.ok.injEq] at h1
          subst h1
          unfold emit at h2
          cases he : emitList c rs with
          | error e' =>
            simp only [he, Except.error.injEq] at h2
            subst h2
            obtain ⟨hf, hn⟩ := unknownCall_srcList c args rs f ha he
            exact ⟨by simp [calledNames, hf], hn⟩
          | ok p =>
            simp only [he, Except.error.injEq, TrErr.unknownCall.injEq] at h2
            subst h2
            exact ⟨by simp [calledNames], hk⟩
  | .bin op l r, q, f, h1, h2 => by
    unfold resolve at h1
    cases hl : resolve c l with
    | error e' => simp [hl] at h1
    | ok l' =>
      simp only [hl] at h1
      cases hr : resolve c r with
      | error e' => simp [hr] at h1
      | ok r' =>
        simp only [hr, Except.ok.injEq] at h1
        subst h1
        have left : ∀ {x}, emit c l' = .error x → x = .unknownCall f → f ∈ calledNames (.bin op l r) ∧ findKnown c.table c.env f = .ok none := by
          intro x hx hxe
          subst hxe
          obtain ⟨hf, hn⟩ := unknownCall_src c l l' f hl hx
          exact ⟨by simp [calledNames, hf], hn⟩
        have right : ∀ {x}, emit c r' = .error x → x = .unknownCall f → f ∈ calledNames (.bin op l r) ∧ findKnown c.table c.env f = .ok none := by
          intro x hx hxe
          subst hxe
          obtain ⟨hf, hn⟩ := unknownCall_src c r r' f hr hx
          exact ⟨by simp [calledNames, hf], hn⟩
        unfold emit at h2
        cases hs : assoc c.binOps op with
        | none =>
          simp only [hs] at h2
          by_cases hp : op = "Pow"
          · simp only [hp, if_true] at h2
            cases h3 : emit c l' with
            | error x => simp only [h3, Except.error.injEq] at h2; exact left h3 h2
            | ok lv =>
              simp only [h3] at h2
              cases h4 : emit c r' with
              | error x => simp only [h4, Except.error.injEq] at h2; exact right h4 h2
              | ok rv => simp [h4] at h2
          · simp [hp] at h2
        | some sym =>
          simp only [hs] at h2
          cases h3 : emit c l' with
          | error x => simp only [h3, Except.error.injEq] at h2; exact left h3 h2
          | ok lv =>
            simp only [h3] at h2
            cases h4 : emit c r' with
            | error x => simp only [h4, Except.error.injEq] at h2; exact right h4 h2
            | ok rv =>
              simp only [h4] at h2
              unfold bestType at h2
              cases hpl : assoc c.prio lv.ty with
              | none => simp [hpl] at h2
              | some pl =>
                cases hpr : assoc c.prio rv.ty with
                | none => simp [hpl, hpr] at h2
                | some pr =>
                  simp only [hpl, hpr] at h2
                  by_cases hd : op = "Div"
                  · by_cases hi : (if pl < pr then rv.ty else lv.ty) = "int" <;> simp [hd, hi] at h2
                  · simp [hd] at h2
  | .un op e, q, f, h1, h2 => by
    unfold resolve at h1
    cases he : resolve c e with
    | error e' => simp [he] at h1
    | ok e' =>
      simp only [he, Except.ok.injEq] at h1
      subst h1
      unfold emit at h2
      cases hs : assoc c.unOps op with
      | none => simp [hs] at h2
      | some sym =>
        simp only [hs] at h2
        cases h3 : emit c e' with
        | error x =>
          simp only [h3, Except.error.injEq] at h2
          subst h2
          obtain ⟨hf, hn⟩ := unknownCall_src c e e' f he h3
          exact ⟨by simp [calledNames, hf], hn⟩
        | ok v => simp [h3] at h2
theorem unknownCall_srcList (c : Cfg) : ∀ (es : List PExpr) (rs : List RExpr) (f : String), resolveList c es = .ok rs →
    emitList c rs = .error (.unknownCall f) → f ∈ calledNamesList es ∧ findKnown c.table c.env f = .ok none
  | [], rs, f, h1, h2 => by
    simp only [resolveList, Except.ok.injEq] at h1
    subst h1
    simp [emitList] at h2
  | a :: as, rs, f, h1, h2 => by
    unfold resolveList at h1
    cases ha : resolve c a with
    | error e' => simp [ha] at h1
    | ok a' =>
      simp only [ha] at h1
      cases hs : resolveList c as with
      | error e' => simp [hs] at h1
      | ok as' =>
        simp only [hs, Except.ok.injEq] at h1
        subst h1
        unfold emitList at h2
        cases h3 : emit c a' with
        | error x =>
          simp only [h3, Except.error.injEq] at h2
          subst h2
          obtain ⟨hf, hn⟩ := unknownCall_src c a a' f ha h3
          exact ⟨by simp [calledNamesList, hf], hn⟩
        | ok v =>
          simp only [h3] at h2
          cases h4 : emitList c as' with
          | error x =>
            simp only [h4, Except.error.injEq] at h2
            subst h2
            obtain ⟨hf, hn⟩ := unknownCall_srcList c as as' f hs h4
            exact ⟨by simp [calledNamesList, hf], hn⟩
          | ok p => simp [h4] at h2
end

def TrErr.isAttr : TrErr → Bool
  | .attributeError _ => true
  | _ => false

mutual
/-- pass 2 never raises `AttributeError` -/
theorem emit_noattr (c : Cfg) : ∀ (q : RExpr) (er : TrErr), emit c q = .error er → er.isAttr = false
  | .leaf _ _, er, h => by simp [emit] at h
  | .fcall r args, er, h => by
    unfold emit at h
    cases he : emitList c args with
    | error x => simp only [he, Except.error.injEq] at h; subst h; exact emitList_noattr c args x he
    | ok p => simp [he] at h
  | .ucall g args, er, h => by
    unfold emit at h
    cases he : emitList c args with
    | error x => simp only [he, Except.error.injEq] at h; subst h; exact emitList_noattr c args x he
    | ok p => simp only [he, Except.error.injEq] at h; subst h; rfl
  | .bin op l r, er, h => by
    unfold emit at h
    cases hs : assoc c.binOps op with
    | none =>
      simp only [hs] at h
      by_cases hp : op = "Pow"
      · simp only [hp, if_true] at h
        cases h3 : emit c l with
        | error x => simp only [h3, Except.error.injEq] at h; subst h; exact emit_noattr c l x h3
        | ok lv =>
          simp only [h3] at h
          cases h4 : emit c r with
          | error x => simp only [h4, Except.error.injEq] at h; subst h; exact emit_noattr c r x h4
          | ok rv => simp [h4] at h
      · simp only [hp, if_false, Except.error.injEq] at h; subst h; rfl
    | some sym =>
      simp only [hs] at h
      cases h3 : emit c l with
      | error x => simp only [h3, Except.error.injEq] at h; subst h; exact emit_noattr c l x h3
      | ok lv =>
        simp only [h3] at h
        cases h4 : emit c r with
        | error x => simp only [h4, Except.error.injEq] at h; subst h; exact emit_noattr c r x h4
        | ok rv =>
          simp only [h4] at h
          unfold bestType at h
          cases hpl : assoc c.prio lv.ty with
          | none => simp only [hpl, Except.error.injEq] at h; subst h; rfl
          | some pl =>
            cases hpr : assoc c.prio rv.ty with
            | none => simp only [hpl, hpr, Except.error.injEq] at h; subst h; rfl
            | some pr =>
              simp only [hpl, hpr] at h
              by_cases hd : op = "Div"
              · by_cases hi : (if pl < pr then rv.ty else lv.ty) = "int" <;> simp [hd, hi] at h
              · simp [hd] at h
  | .un op e, er, h => by
    unfold emit at h
    cases hs : assoc c.unOps op with
    | none => simp only [hs, Except.error.injEq] at h; subst h; rfl
    | some sym =>
      simp only [hs] at h
      cases h3 : emit c e with
      | error x => simp only [h3, Except.error.injEq] at h; subst h; exact emit_noattr c e x h3
      | ok v => simp [h3] at h
theorem emitList_noattr (c : Cfg) : ∀ (qs : List RExpr) (er : TrErr), emitList c qs = .error er → er.isAttr = false
  | [], er, h => by simp [emitList] at h
  | a :: as, er, h => by
    unfold emitList at h
    cases h3 : emit c a with
    | error x => simp only [h3, Except.error.injEq] at h; subst h; exact emit_noattr c a x h3
    | ok v =>
      simp only [h3] at h
      cases h4 : emitList c as with
      | error x => simp only [h4, Except.error.injEq] at h; subst h; exact emitList_noattr c as x h4
      | ok p => simp [h4] at h
end

mutual
theorem scoped_calls (c : Cfg) : ∀ e : PExpr, Scoped c e = true → ∀ f ∈ calledNames e,
    ∃ r, findKnown c.table c.env f = .ok (some r) ∧ (meaningPy f).isSome ∧ meaningCpp r.cpp = meaningPy f ∧ byValue f = true
  | .leaf _ _, _, f, hf => by simp [calledNames] at hf
  | .call g args, h, f, hf => by
    simp only [Scoped, Bool.and_eq_true] at h
    obtain ⟨hargs, hcall⟩ := h
    simp only [calledNames, List.mem_cons] at hf
    rcases hf with rfl | hf
    · unfold callOk at hcall
      cases hk : findKnown c.table c.env f with
      | error e => simp [hk] at hcall
      | ok o =>
        cases o with
        | none => simp [hk] at hcall
        | some r =>
          simp only [hk, Bool.and_eq_true, beq_iff_eq] at hcall
          exact ⟨r, rfl, hcall.1.1.1.1, hcall.1.1.1.2, hcall.2⟩
    · exact scoped_callsList c args hargs f hf
  | .bin _ l r, h, f, hf => by
    simp only [Scoped, Bool.and_eq_true] at h
    simp only [calledNames, List.mem_append] at hf
    rcases hf with hf | hf
    · exact scoped_calls c l h.1.2 f hf
    · exact scoped_calls c r h.2 f hf
  | .un _ e, h, f, hf => by
    simp only [Scoped, Bool.and_eq_true] at h
    simp only [calledNames] at hf
    exact scoped_calls c e h.2 f hf
theorem scoped_callsList (c : Cfg) : ∀ es : List PExpr, ScopedArgs c es = true → ∀ f ∈ calledNamesList es,
    ∃ r, findKnown c.table c.env f = .ok (some r) ∧ (meaningPy f).isSome ∧ meaningCpp r.cpp = meaningPy f ∧ byValue f = true
  | [], _, f, hf => by simp [calledNamesList] at hf
  | a :: as, h, f, hf => by
    simp only [ScopedArgs, Bool.and_eq_true] at h
    simp only [calledNamesList, List.mem_append] at hf
    rcases hf with hf | hf
    · cases a with
      | leaf t ty => simp [calledNames] at hf
      | call g args => exact scoped_calls c (.call g args) h.1 f hf
      | bin op l r => exact scoped_calls c (.bin op l r) h.1 f hf
      | un op e => exact scoped_calls c (.un op e) h.1 f hf
    · exact scoped_callsList c as h.2 f hf
end

/-- a row that is the namesake of `f` and whose declared type is the C++ result type whatever the
argument types are: `double` for every function but `std::abs` (overloaded on integers) and
`std::ilogb`; `int` for `std::ilogb` -/
def plainRow (c : Cfg) (f : String) : Bool :=
  match findKnown c.table c.env f with
  | .ok (some r) =>
    (meaningPy f).isSome && meaningCpp r.cpp == meaningPy f &&
      ((r.ret == "double" && r.cpp != "std::abs" && r.cpp != "std::ilogb") ||
       (r.ret == "int" && r.cpp == "std::ilogb")) && byValue f
  | _ => false

theorem callOk_of_plainRow {c : Cfg} {f : String} (h : plainRow c f = true) (tys : List CT) :
    callOk c f tys = true := by
  unfold plainRow at h
  unfold callOk
  cases hk : findKnown c.table c.env f with
  | error e => simp [hk] at h
  | ok o =>
    cases o with
    | none => simp [hk] at h
    | some r =>
      simp only [hk, Bool.and_eq_true, Bool.or_eq_true, beq_iff_eq, bne_iff_ne, ne_eq] at h
      obtain ⟨⟨⟨h1, h2⟩, h3⟩, h6⟩ := h
      rcases h3 with ⟨⟨h3, h4⟩, h5⟩ | ⟨h3, h4⟩
      · simp [h1, h2, h3, cppRet, h4, h5, h6, CT.ofName]
      · have h2' : meaningCpp "std::ilogb" = meaningPy f := h4 ▸ h2
        simp [h1, h2', h3, cppRet, h4, h6, CT.ofName]

end FaxVerif.C12
