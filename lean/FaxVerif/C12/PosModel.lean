/-
C12 — the POSITIONS: the expression language of the model extended by everything a math call can
stand in or next to, as far as the pre-pass `find_known_functions` (common/cpp_functions.py) and
the call visitor (`query_ast_visitor.visit_Call` / `visit_function_ast` / `visit_Call_Member` /
`cpp_ast.process_ast_node` / `call_*`, `visit_Subscript`, `visit_Tuple` / `visit_List` /
`visit_Dict`, `visit_IfExp`, `visit_Compare`, `visit_BoolOp`; common/ast_to_cpp_translator.py)
treat them.

* `QExpr`: the query expression as `find_known_functions` receives it (after func_adl's
  `change_extension_functions_to_calls`, so `X.Where(f)` is the Name-call `Where(X, f)`).  A call
  whose `func` is an `ast.Name` is `call`; *everything else* an `ast.NodeTransformer.generic_visit`
  walks through is a `node` with a `Kind` (method call — `func` an `ast.Attribute` —, operators,
  comparison, `and`/`or`, conditional, tuple / list / dict, subscript, lambda).
* pass 1 `resolveX`: `generic_visit` first (all children, left to right), then — for a `call` only —
  the lookup of `findKnown` (Model.lean).  Lambda parameters, method names, user functions are not
  looked at: the pre-pass knows python's `eval` scope and the table, nothing else.
* pass 2 `emitX`: the value each construct leaves as its `rep` (C++ term, declared type), the include
  files requested and the *statements* it emits in order (`stmts`, without declarations, braces and
  loop headers, generated names without their counter).
* meanings: `psymX` (query, every function by its documented name) and `csymX` (emitted term under the
  C++ typing rules) in the free term algebra `Sym` of Model.lean; the constructs around the call are
  uninterpreted constructors (`.unk "<ite>"`, `.unk "<.mD>"`, …): equal terms denote equal values
  under EVERY interpretation of them.

What is NOT modelled here (other properties' business, tied there): the binding of a lambda parameter
to its loop variable (the harness supplies the C++ text and type of every variable: `XCfg.vars`), loop
headers / declarations / braces, the text substitution inside a user function's code lines.

No Mathlib; computable; this is what the driver runs (op `trx`).
-/
import FaxVerif.C12.Model
namespace FaxVerif.C12

/-- what a non-Name-call node of the python ast is (the children are the `kids` of `QExpr.node`) -/
inductive Kind where
  | bin (op : String)                       -- BinOp, kids [l, r]
  | un (op : String)                        -- UnaryOp, kids [e]
  | cmp (op : String)                       -- Compare with one operator, kids [l, r]
  | boolop (op : String)                    -- BoolOp `And` / `Or`, kids = values
  | ite                                     -- IfExp, kids [test, body, orelse]
  | tuple | list                            -- kids = elements
  | dict (keys : List String)               -- kids = values
  | index                                   -- Subscript, kids [value, index]
  | meth (name ret : String) (coll : Bool)  -- Call with `func = Attribute(recv, name)`: kids = recv :: args;
                                            -- `ret`/`coll`: the declared return type (add_method_type_info; `double` when undeclared)
  | lam (params : List String)              -- Lambda, kids [body]
deriving Repr, DecidableEq, Inhabited

inductive QExpr where
  | leaf (text ty : String)                 -- an already translated scalar operand (constant, accessor on a loop variable)
  | var (name : String)                     -- a Name that is not called (lambda parameter)
  | call (f : String) (args : List QExpr)   -- `f(args)`, `func` an `ast.Name`
  | node (k : Kind) (kids : List QExpr)
deriving Repr, Inhabited

/-- after the pre-pass: every Name-call carries what the lookup gave -/
inductive RX where
  | leaf (text ty : String)
  | var (name : String)
  | fcall (f : String) (r : Row) (args : List RX)   -- `node.func = FunctionAST(row)`
  | ucall (f : String) (args : List RX)             -- left alone
  | node (k : Kind) (kids : List RX)
deriving Repr, Inhabited

/- pass 1 -/
mutual
def resolveX (c : Cfg) : QExpr → Except TrErr RX
  | .leaf t ty => .ok (.leaf t ty)
  | .var x => .ok (.var x)
  | .call f args =>
    match resolveListX c args with
    | .error e => .error e
    | .ok as =>
      match findKnown c.table c.env f with
      | .error e => .error e
      | .ok (some r) => .ok (.fcall f r as)
      | .ok none => .ok (.ucall f as)
  | .node k kids =>
    match resolveListX c kids with
    | .error e => .error e
    | .ok ks => .ok (.node k ks)
def resolveListX (c : Cfg) : List QExpr → Except TrErr (List RX)
  | [] => .ok []
  | a :: as =>
    match resolveX c a with
    | .error e => .error e
    | .ok a' =>
      match resolveListX c as with
      | .error e => .error e
      | .ok as' => .ok (a' :: as')
end

/- forget what the pre-pass wrote -/
mutual
def RX.erase : RX → QExpr
  | .leaf t ty => .leaf t ty
  | .var x => .var x
  | .fcall f _ args => .call f (RX.eraseList args)
  | .ucall f args => .call f (RX.eraseList args)
  | .node k kids => .node k (RX.eraseList kids)
def RX.eraseList : List RX → List QExpr
  | [] => []
  | a :: as => a.erase :: RX.eraseList as
end

/- every annotation is what `findKnown` says of that very name -/
mutual
def RX.rowsRight (c : Cfg) : RX → Prop
  | .leaf _ _ => True
  | .var _ => True
  | .fcall f r args => findKnown c.table c.env f = .ok (some r) ∧ RX.rowsRightList c args
  | .ucall f args => findKnown c.table c.env f = .ok none ∧ RX.rowsRightList c args
  | .node _ kids => RX.rowsRightList c kids
def RX.rowsRightList (c : Cfg) : List RX → Prop
  | [] => True
  | a :: as => a.rowsRight c ∧ RX.rowsRightList c as
end

/- the Name-calls of an expression, wherever they stand -/
mutual
def QExpr.called : QExpr → List String
  | .leaf _ _ => []
  | .var _ => []
  | .call f args => f :: QExpr.calledList args
  | .node _ kids => QExpr.calledList kids
def QExpr.calledList : List QExpr → List String
  | [] => []
  | a :: as => a.called ++ QExpr.calledList as
end

/- the replaced calls with their rows / the calls left alone -/
mutual
def RX.replaced : RX → List (String × Row)
  | .leaf _ _ => []
  | .var _ => []
  | .fcall f r args => (f, r) :: RX.replacedList args
  | .ucall _ args => RX.replacedList args
  | .node _ kids => RX.replacedList kids
def RX.replacedList : List RX → List (String × Row)
  | [] => []
  | a :: as => a.replaced ++ RX.replacedList as
end

mutual
def RX.leftAlone : RX → List String
  | .leaf _ _ => []
  | .var _ => []
  | .fcall _ _ args => RX.leftAloneList args
  | .ucall f args => f :: RX.leftAloneList args
  | .node _ kids => RX.leftAloneList kids
def RX.leftAloneList : List RX → List String
  | [] => []
  | a :: as => a.leftAlone ++ RX.leftAloneList as
end

/-! ### the emitted side -/

inductive CKind where
  | call (name : String)            -- `name(a,b)`
  | pow                             -- `std::pow(l, r)`
  | bin (sym : String)              -- `(l+r)`
  | cast (ty : String)              -- `static_cast<ty>(e)`
  | un (sym : String)               -- `(-(e))`
  | cmp (sym : String)              -- `(l<r)`
  | meth (acc name : String)        -- `recv->name(a,b)`, parts = recv :: args
  | idx (acc : String)              -- `recv.at(i)`
  | bound (name tag : String)       -- a generated variable `name` that holds the construct `tag` of the parts
  | struct (tag : String)           -- tuple / dict: no single C++ expression
deriving Repr, DecidableEq, Inhabited

inductive CX where
  | leaf (text ty : String)
  | node (k : CKind) (ty : String) (parts : List CX)
deriving Repr, Inhabited

def joinWith (sep : String) : List String → String
  | [] => ""
  | [a] => a
  | a :: b :: rest => a ++ sep ++ joinWith sep (b :: rest)

def renderNode (k : CKind) (ts : List String) : String :=
  match k, ts with
  | .call n, ts => n ++ "(" ++ joinWith "," ts ++ ")"
  | .pow, [l, r] => "std::pow(" ++ l ++ ", " ++ r ++ ")"
  | .bin s, [l, r] => "(" ++ l ++ s ++ r ++ ")"
  | .cast ty, [e] => "static_cast<" ++ ty ++ ">(" ++ e ++ ")"
  | .un s, [e] => "(" ++ s ++ "(" ++ e ++ "))"
  | .cmp s, [l, r] => "(" ++ l ++ s ++ r ++ ")"
  | .meth acc n, r :: as => r ++ acc ++ n ++ "(" ++ joinWith "," as ++ ")"
  | .idx acc, [r, i] => r ++ acc ++ "at(" ++ i ++ ")"
  | .bound n _, _ => n
  | .struct tag, _ => "<" ++ tag ++ ">"
  | _, _ => "<?>"

mutual
def renderX : CX → String
  | .leaf t _ => t
  | .node k _ ps => renderNode k (renderListX ps)
def renderListX : List CX → List String
  | [] => []
  | a :: as => renderX a :: renderListX as
end

/-- the type the C++ compiler gives the term (`bool`, objects, tuples are `.other`) -/
def ctypeNode (k : CKind) (ty : String) (tys : List CT) : CT :=
  match k, tys with
  | .call n, tys => cppRet n tys
  | .pow, _ => .dbl
  | .bin _, [a, b] => CT.join a b
  | .cast t, _ => CT.ofName t
  | .un s, [a] => if s = "!" then .other else a
  | .cmp _, _ => .other
  | .meth _ _, _ => CT.ofName ty
  | .idx _, _ => CT.ofName ty
  | .bound _ _, _ => CT.ofName ty
  | _, _ => .other

mutual
def ctypeX : CX → CT
  | .leaf _ ty => CT.ofName ty
  | .node k ty ps => ctypeNode k ty (ctypesX ps)
def ctypesX : List CX → List CT
  | [] => []
  | a :: as => ctypeX a :: ctypesX as
end

/-- python ast class of the comparison a C++ symbol denotes -/
def cmpName (sym : String) : String :=
  if sym = "<" then "Lt" else if sym = "<=" then "LtE" else if sym = ">" then "Gt" else if sym = ">=" then "GtE"
  else if sym = "==" then "Eq" else if sym = "!=" then "NotEq" else "?" ++ sym

/-- name of an uninterpreted construct in the term algebra (not a python identifier) -/
def tagName (tag : String) : String := "<" ++ tag ++ ">"

def symNode (k : CKind) (tys : List CT) (ss : List Sym) : Sym :=
  match k, tys, ss with
  | .call n, _, ss =>
    (match meaningCpp n with
      | some m => .app m ss
      | none => .unk n ss)
  | .pow, _, ss => .app .pow ss
  | .bin s, [a, b], ss => .op (cArith s a b) ss
  | .cast _, _, [e] => e
  | .un s, _, ss => .op (cUn s) ss
  | .cmp s, _, ss => .unk ("<" ++ cmpName s ++ ">") ss
  | .meth _ n, _, ss => .unk ("<." ++ n ++ ">") ss
  | .idx _, _, ss => .unk "<index>" ss
  | .bound _ tag, _, ss => .unk (tagName tag) ss
  | .struct tag, _, ss => .unk (tagName tag) ss
  | _, _, ss => .unk "<?>" ss

mutual
def csymX : CX → Sym
  | .leaf t _ => .leaf t
  | .node k _ ps => symNode k (ctypesX ps) (csymsX ps)
def csymsX : List CX → List Sym
  | [] => []
  | a :: as => csymX a :: csymsX as
end

/-- the value a visitor leaves as `rep`, the include requests so far, the statements emitted so far -/
structure XVal where
  term : CX
  ty : String
  incs : List String
  stmts : List String
deriving Repr, Inhabited

/-- `add_cpp_function` metadata as far as the call visitor needs it -/
structure UserFn where
  name : String
  nargs : Nat
  incs : List String
  ret : String
deriving Repr, DecidableEq

structure XCfg where
  base : Cfg
  cmpOps : List (String × String)            -- `compare_operations`
  seqOps : List String                       -- the `call_<name>` methods of the translator
  userFns : List UserFn
  vars : List (String × String × String)     -- a variable ↦ the C++ text and type it stands for
  ifName : String                            -- base names `unique_name` is given for the result of a conditional,
  boolName : String                          -- of `and` / `or`,
  accName : String                           -- and for an accumulator (generated names are compared without their counter)

inductive XErr where
  | base (e : TrErr)
  | noRep (x : String)          -- RuntimeError: Internal Error: attempted to get C++ representation
  | arity (what : String)       -- malformed node (cannot come out of python's parser)
  | valueError (what : String)  -- ValueError
  | notCollection               -- RuntimeError: Do not know how to take the index of type
  | notValue                    -- RuntimeError: Expected a cpp value
deriving Repr, DecidableEq

def termsOf (vs : List XVal) : List CX := vs.map (·.term)
def stmtsOf (vs : List XVal) : List String := vs.flatMap (·.stmts)
def incsOf (vs : List XVal) : List String := vs.foldl (fun acc v => mergeIncs acc v.incs) []

def structTys : List String := ["tuple", "dict", "sequence"]
def XVal.isValue (v : XVal) : Bool := !(v.ty ∈ structTys)

/-- `statement.set_var`: a cast when the declared types differ -/
def setVar (name ty : String) (v : XVal) : String :=
  if v.ty = ty then name ++ "=" ++ renderX v.term ++ ";"
  else name ++ "=static_cast<" ++ ty ++ ">(" ++ renderX v.term ++ ");"

/-- member access on a value of that type -/
def accOf (ty : String) : String := if ty.toList.getLast? = some '*' then "->" else "."

def dropPrefix? : List Char → List Char → Option (List Char)
  | [], s => some s
  | _ :: _, [] => none
  | a :: p, b :: s => if a = b then dropPrefix? p s else none

/-- `vector<T>` ↦ `T` (how the model writes the type of a collection value) -/
def elemOf (ty : String) : Option String :=
  match dropPrefix? "vector<".toList ty.toList with
  | some rest => some (String.ofList rest.dropLast)
  | none => none

def lookupVar (vars : List (String × String × String)) (x : String) : Option (String × String) :=
  match vars.find? (·.1 == x) with
  | some p => some p.2
  | none => none

def lookupFn (fns : List UserFn) (f : String) : Option UserFn := fns.find? (·.name == f)

/-- statements of `visit_BoolOp` after the first operand: `if (check) { <operand's own>; res = operand; }` -/
def boolRest (res check : String) : List XVal → List String
  | [] => []
  | v :: vs => ("if(" ++ check ++ ")") :: (v.stmts ++ [setVar res "bool" v]) ++ boolRest res check vs

/-- `visit_function_ast`: the arguments must be values; text `cpp_name(a,b)`, declared type of the row.
(`incs` is filled in by `emitX`.) -/
def buildCall (r : Row) (vs : List XVal) : Except XErr XVal :=
  if vs.all XVal.isValue then .ok ⟨.node (.call r.cpp) r.ret (termsOf vs), r.ret, [], stmtsOf vs⟩
  else .error .notValue

/-- a Name-call the pre-pass left alone: a user C++ function (`cpp_ast.process_ast_node`), a sequence
operator (`call_<name>`), otherwise "Do not know how to call". -/
def buildUCall (c : XCfg) (f : String) (vs : List XVal) : Except XErr XVal :=
  match lookupFn c.userFns f with
  | some fn =>
    if fn.nargs = vs.length then
      -- the argument texts are substituted into the code lines, then `res = result;`
      .ok ⟨.node (.bound f ("call:" ++ f)) fn.ret (termsOf vs), fn.ret, [],
           stmtsOf vs ++ (termsOf vs).map renderX ++ [f ++ "=result;"]⟩
    else .error (.valueError f)
  | none =>
    if f ∈ c.seqOps then
      match f, vs with
      | "Where", [src, p] =>
        .ok ⟨.node (.struct ("call:" ++ f)) "sequence" (termsOf vs), "sequence", [], src.stmts ++ p.stmts ++ ["if(" ++ renderX p.term ++ ")"]⟩
      | "Aggregate", [src, seed, body] =>
        -- the seed initialises the accumulator in its declaration (top of the block), the update is assigned in the loop;
        -- an update of another type widens the accumulator (`most_accurate_type`)
        (match (if body.ty = seed.ty then Except.ok seed.ty else bestType c.base.prio seed.ty body.ty) with
          | .error e => .error (.base e)
          | .ok accTy =>
            .ok ⟨.node (.bound c.accName ("call:" ++ f)) accTy (termsOf vs), accTy, [],
                 [c.accName ++ "(" ++ renderX seed.term ++ ");"] ++ seed.stmts ++ src.stmts ++ body.stmts ++ [setVar c.accName accTy body]⟩)
      | _, _ => .ok ⟨.node (.struct ("call:" ++ f)) "sequence" (termsOf vs), "sequence", [], stmtsOf vs⟩
    else .error (.base (.unknownCall f))

def buildBin (c : Cfg) (op : String) (l r : XVal) : Except XErr XVal :=
  match assoc c.binOps op with
  | none =>
    if op = "Pow" then .ok ⟨.node .pow "double" [l.term, r.term], "double", [], l.stmts ++ r.stmts⟩
    else .error (.base (.unknownOp op))
  | some sym =>
    match bestType c.prio l.ty r.ty with
    | .error e => .error (.base e)
    | .ok best =>
      if op = "Div" then
        if best = "int" then .ok ⟨.node (.bin sym) "double" [.node (.cast "double") "double" [l.term], r.term], "double", [], l.stmts ++ r.stmts⟩
        else .ok ⟨.node (.bin sym) "double" [l.term, r.term], "double", [], l.stmts ++ r.stmts⟩
      else .ok ⟨.node (.bin sym) best [l.term, r.term], best, [], l.stmts ++ r.stmts⟩

def buildNode (c : XCfg) (k : Kind) (vs : List XVal) : Except XErr XVal :=
  match k, vs with
  | .bin op, [l, r] => buildBin c.base op l r
  | .un op, [e] =>
    (match assoc c.base.unOps op with
      | none => .error (.base (.unknownOp op))
      | some sym => .ok ⟨.node (.un sym) (unTy op e.ty) [e.term], unTy op e.ty, [], e.stmts⟩)
  | .cmp op, [l, r] =>
    (match assoc c.cmpOps op with
      | none => .error (.base (.unknownOp op))
      | some sym => .ok ⟨.node (.cmp sym) "bool" [l.term, r.term], "bool", [], l.stmts ++ r.stmts⟩)
  | .boolop op, v :: rest =>
    let check := if op = "And" then c.boolName else "!" ++ c.boolName
    .ok ⟨.node (.bound c.boolName op) "bool" (termsOf (v :: rest)), "bool", [],
         v.stmts ++ [setVar c.boolName "bool" v] ++ boolRest c.boolName check rest⟩
  | .ite, [t, a, b] =>
    if a.ty = "string" ∨ b.ty = "string" then .error (.valueError "conditional")
    else .ok ⟨.node (.bound c.ifName "ite") "double" [t.term, a.term, b.term], "double", [],
              t.stmts ++ ["if(" ++ renderX t.term ++ ")"] ++ a.stmts ++ [setVar c.ifName "double" a] ++
              ["else"] ++ b.stmts ++ [setVar c.ifName "double" b]⟩
  | .tuple, vs => .ok ⟨.node (.struct "tuple") "tuple" (termsOf vs), "tuple", [], stmtsOf vs⟩
  | .list, vs => .ok ⟨.node (.struct "tuple") "tuple" (termsOf vs), "tuple", [], stmtsOf vs⟩
  | .dict keys, vs => .ok ⟨.node (.struct ("dict:" ++ joinWith "," keys)) "dict" (termsOf vs), "dict", [], stmtsOf vs⟩
  | .index, [v, i] =>
    (match elemOf v.ty with
      | some el => .ok ⟨.node (.idx (accOf v.ty)) el [v.term, i.term], el, [], v.stmts ++ i.stmts⟩
      | none => .error .notCollection)
  | .meth name ret coll, recv :: args =>
    if recv.isValue then
      let ty := if coll then "vector<" ++ ret ++ ">" else ret
      .ok ⟨.node (.meth (accOf recv.ty) name) ty (termsOf (recv :: args)), ty, [], stmtsOf (recv :: args)⟩
    else .error (.valueError name)
  | .lam _, [b] => .ok b
  | _, _ => .error (.arity "node")

/-- the include requests a node makes itself, after those of its operands (`**` asks for `cmath`) -/
def postIncs (c : XCfg) : Kind → List String
  | .bin op => if assoc c.base.binOps op = none ∧ op = "Pow" then ["cmath"] else []
  | _ => []

/-- `visit_BinOp` / `visit_UnaryOp` look at the operator *before* they translate the operands: an
operator that is in neither table is refused at once -/
def preCheck (c : XCfg) : Kind → Option XErr
  | .bin op => if assoc c.base.binOps op = none ∧ op ≠ "Pow" then some (.base (.unknownOp op)) else none
  | .un op => if assoc c.base.unOps op = none then some (.base (.unknownOp op)) else none
  | _ => none

/-- the include requests of a user function come before those of its arguments -/
def preIncs (c : XCfg) (f : String) : List String :=
  match lookupFn c.userFns f with
  | some fn => fn.incs
  | none => []

/- pass 2 -/
mutual
def emitX (c : XCfg) : RX → Except XErr XVal
  | .leaf t ty => .ok ⟨.leaf t ty, ty, [], []⟩
  | .var x =>
    match lookupVar c.vars x with
    | some (t, ty) => .ok ⟨.leaf t ty, ty, [], []⟩
    | none => .error (.noRep x)
  | .fcall _ r args =>
    match emitListX c args with
    | .error e => .error e
    | .ok vs =>
      match buildCall r vs with
      | .error e => .error e
      | .ok v => .ok { v with incs := mergeIncs (incsOf vs) r.includes }
  | .ucall f args =>
    match emitListX c args with
    | .error e => .error e
    | .ok vs =>
      match buildUCall c f vs with
      | .error e => .error e
      | .ok v => .ok { v with incs := mergeIncs (preIncs c f) (incsOf vs) }
  | .node k kids =>
    match preCheck c k with
    | some e => .error e
    | none =>
      match emitListX c kids with
      | .error e => .error e
      | .ok vs =>
        match buildNode c k vs with
        | .error e => .error e
        | .ok v => .ok { v with incs := mergeIncs (incsOf vs) (postIncs c k) }
def emitListX (c : XCfg) : List RX → Except XErr (List XVal)
  | [] => .ok []
  | a :: as =>
    match emitX c a with
    | .error e => .error e
    | .ok v =>
      match emitListX c as with
      | .error e => .error e
      | .ok vs => .ok (v :: vs)
end

/-- the whole pipeline on a position -/
def trX (c : XCfg) (e : QExpr) : Except XErr XVal :=
  match resolveX c.base e with
  | .error er => .error (.base er)
  | .ok r => emitX c r

/-! ### meaning of the query -/

def psymNode (k : Kind) (ss : List Sym) : Sym :=
  match k, ss with
  | .bin op, ss => if op = "Pow" then .app .pow ss else .op (pArith op) ss
  | .un op, ss => .op (pUn op) ss
  | .cmp op, ss => .unk ("<" ++ op ++ ">") ss
  | .boolop op, ss => .unk (tagName op) ss
  | .ite, ss => .unk (tagName "ite") ss
  | .tuple, ss => .unk (tagName "tuple") ss
  | .list, ss => .unk (tagName "tuple") ss
  | .dict keys, ss => .unk (tagName ("dict:" ++ joinWith "," keys)) ss
  | .index, ss => .unk "<index>" ss
  | .meth n _ _, ss => .unk ("<." ++ n ++ ">") ss
  | .lam _, [b] => b
  | .lam _, ss => .unk "<lam>" ss

/- every function *by its documented name*, wherever it stands; a name that means nothing is an
uninterpreted call -/
mutual
def psymX (vars : List (String × String × String)) : QExpr → Sym
  | .leaf t _ => .leaf t
  | .var x =>
    match lookupVar vars x with
    | some (t, _) => .leaf t
    | none => .unk ("<var:" ++ x ++ ">") []
  | .call f args =>
    match meaningPy f with
    | some m => .app m (psymsX vars args)
    | none => .unk (tagName ("call:" ++ f)) (psymsX vars args)
  | .node k kids => psymNode k (psymsX vars kids)
def psymsX (vars : List (String × String × String)) : List QExpr → List Sym
  | [] => []
  | a :: as => psymX vars a :: psymsX vars as
end

/-! ### the scalar fragment of Model.lean inside the extended language -/

mutual
def QExpr.ofP : PExpr → QExpr
  | .leaf t ty => .leaf t ty
  | .call f args => .call f (QExpr.ofPList args)
  | .bin op l r => .node (.bin op) [QExpr.ofP l, QExpr.ofP r]
  | .un op e => .node (.un op) [QExpr.ofP e]
def QExpr.ofPList : List PExpr → List QExpr
  | [] => []
  | a :: as => QExpr.ofP a :: QExpr.ofPList as
end


end FaxVerif.C12
