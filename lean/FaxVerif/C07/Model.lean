/-
C07 — model of the state a long-lived func_adl_xAOD process carries from one query to the next.

What is modelled (read off `/repo`, see DESIGN Appendix A, last paragraph):

* process globals
  - `cpp_types.g_method_type_dict`  → `HState.reg`   (insertion-ordered dict, `ainsert` = `d[k] = v`)
  - `cpp_types.g_toplevel_ns`       → `HState.ns`    (namespaces + enums, *first* enum definition wins,
                                                      never reset by the library)
  - (the constructor default of `executor.__init__` is `extended_md=None` since fix cfca57a: every
    executor gets a dict of its own — there is no shared dict any more)
  - `cpp_vars.unique_var_index`     → `HState.counter` (only advanced; never read by `view`)
* per executor (`Exec`): `_job_option_blocks`, `_inject_blocks`, `_extended_md` (its own dict),
  `_found_extended_md` (never reset).
* `executor.__init__` of the three backends (`new`), `add_extended_md` (`addXmd`),
  `apply_ast_transformations` + `write_cpp_files` (`translateWith`), `reset` — including *where* a
  failure leaves the state: metadata already applied, reset skipped.

The translator proper is NOT modelled: it is an uninterpreted function `T` of the query, its
metadata and an explicit `View` (what the translator can read from the state: the registry at the
(type, method) pairs the query looks up, the namespace registry below the free names the query
resolves, the executor's accumulated job-script blocks and the specifications produced from the
query's own metadata).  The defaults tables of the three backends are a parameter `D`; the driver
instantiates it with the tables regenerated from the source (`Generated/C07Defaults.lean`), the
theorems hold for every `D`.

No Mathlib; everything here is computable and is what the driver runs.
-/
namespace FaxVerif.C07

inductive Backend where
  | atlas | cmsAod | cmsMiniaod
deriving DecidableEq, Repr, Inhabited

/-- the `backend_name` string carried by an `EventCollectionSpecification` -/
def Backend.tag : Backend → String
  | .atlas => "atlas" | .cmsAod => "cms_aod" | .cmsMiniaod => "cms_miniaod"

/-- (type string, method name) -/
abbrev Key := String × String

/-! ### insertion-ordered dicts -/
section AList
variable {κ ν : Type} [DecidableEq κ]

def alookup : List (κ × ν) → κ → Option ν
  | [], _ => none
  | (k', v) :: t, k => if k' = k then some v else alookup t k

/-- `d[k] = v` : replace in place, or append -/
def ainsert : List (κ × ν) → κ → ν → List (κ × ν)
  | [], k, v => [(k, v)]
  | (k', v') :: t, k, v => if k' = k then (k, v) :: t else (k', v') :: ainsert t k v

/-- `for k, v in l: d[k] = v` (`dict.update`) -/
def ainsertAll (r : List (κ × ν)) : List (κ × ν) → List (κ × ν)
  | [] => r
  | (k, v) :: t => ainsertAll (ainsert r k v) t

def akeys (l : List (κ × ν)) : List κ := l.map Prod.fst
end AList

abbrev Reg := List (Key × String)
abbrev Xmd := List (String × String)

/-- defaults table of each backend: what `define_default_*_types()` registers -/
abbrev Defaults := Backend → List (Key × String)

def defaultsReg (D : Defaults) (b : Backend) : Reg := ainsertAll [] (D b)
def dkeys (D : Defaults) (b : Backend) : List Key := akeys (D b)

/-! ### namespaces and enums (`define_ns`, `define_enum`) -/

structure NsReg where
  /-- full paths of all known namespaces, every prefix present -/
  spaces : List (List String)
  /-- (namespace path, enum name) ↦ values -/
  enums : List ((List String × String) × List String)
deriving DecidableEq, Repr

def NsReg.empty : NsReg := ⟨[], []⟩

def nonEmptyInits : List String → List (List String)
  | [] => []
  | a :: t => [a] :: (nonEmptyInits t).map (a :: ·)

def addSpaces (sp : List (List String)) : List (List String) → List (List String)
  | [] => sp
  | p :: ps => addSpaces (if p ∈ sp then sp else sp ++ [p]) ps

/-- `define_enum(ns, name, values)`: creates the chain of namespaces, keeps an existing enum -/
def NsReg.define (n : NsReg) (ns : List String) (name : String) (vals : List String) : NsReg :=
  { spaces := addSpaces n.spaces (nonEmptyInits ns),
    enums := match alookup n.enums (ns, name) with
      | some _ => n.enums
      | none => n.enums ++ [((ns, name), vals)] }

/-- everything reachable from the top-level name `t` (`get_toplevel_ns(t)` and below) -/
def NsReg.restrict (n : NsReg) (t : String) : NsReg :=
  { spaces := n.spaces.filter (fun p => p.head? == some t),
    enums := n.enums.filter (fun e => e.1.1.head? == some t) }

/-! ### metadata -/

structure JobBlock where
  name : String
  script : List String
  deps : List String
deriving DecidableEq, Repr

/-- one `MetaData` dictionary, in the order `process_metadata` sees them -/
inductive MdItem where
  | methodType (ty m info : String)                 -- add_method_type_info
  | defineEnum (ns : List String) (name : String) (vals : List String)
  | inject (name body : String)                     -- inject_code (non-empty)
  | jobScript (name : String) (script deps : List String)
  | cppFunction (name body : String)                -- add_cpp_function
  | collection (backend name body : String)         -- add_*_event_collection_info
  | extended (kind fields : String)                 -- a metadata_type registered through add_extended_md
  | bad                                             -- anything process_metadata raises on by itself
deriving DecidableEq, Repr

/-- what `process_metadata` returns (its list `cpp_funcs`) -/
inductive Spec where
  | inject (name body : String)
  | job (b : JobBlock)
  | func (name body : String)
  | coll (backend name body : String)
  | ext (kind proto fields : String)
deriving DecidableEq, Repr

abbrev Found := String × String × String

def findInject : List Spec → String → Option String
  | [], _ => none
  | .inject n b :: t, name => if n = name then some b else findInject t name
  | _ :: t, name => findInject t name

def jobsOf : List Spec → List JobBlock
  | [] => []
  | .job b :: t => b :: jobsOf t
  | _ :: t => jobsOf t

def injectsOf : List Spec → List (String × String)
  | [] => []
  | .inject n b :: t => (n, b) :: injectsOf t
  | _ :: t => injectsOf t

def xitemsOf : List Spec → List Found
  | [] => []
  | .ext k p f :: t => (k, p, f) :: xitemsOf t
  | _ :: t => xitemsOf t

/-- the dict comprehension building the collection callbacks raises on the first collection
declared for another backend -/
def wrongBackend (b : Backend) : List Spec → Bool
  | [] => false
  | .coll bk _ _ :: t => bk != b.tag || wrongBackend b t
  | _ :: t => wrongBackend b t

structure MdAcc where
  reg : Reg
  ns : NsReg
  specs : List Spec
deriving DecidableEq, Repr

/-- one iteration of the loop of `process_metadata`; `none` = it raises -/
def mdStep (xmd : Xmd) (a : MdAcc) : MdItem → Option MdAcc
  | .methodType ty m info => some { a with reg := ainsert a.reg (ty, m) info }
  | .defineEnum ns name vals => some { a with ns := a.ns.define ns name vals }
  | .inject name body =>
    match findInject a.specs name with
    | none => some { a with specs := a.specs ++ [.inject name body] }
    | some body' => if body' = body then some a else none
  | .jobScript name script deps => some { a with specs := a.specs ++ [.job ⟨name, script, deps⟩] }
  | .cppFunction name body => some { a with specs := a.specs ++ [.func name body] }
  | .collection bk name body => some { a with specs := a.specs ++ [.coll bk name body] }
  | .extended kind fields =>
    match alookup xmd kind with
    | none => none
    | some proto => some { a with specs := a.specs ++ [.ext kind proto fields] }
  | .bad => none

/-- `process_metadata`: the state reached and the index of the item that raised, if any.
Effects of the items before the raising one persist (they are writes to module globals). -/
def mdRun (xmd : Xmd) : MdAcc → List MdItem → Nat → MdAcc × Option Nat
  | a, [], _ => (a, none)
  | a, it :: rest, i =>
    match mdStep xmd a it with
    | none => (a, some i)
    | some a' => mdRun xmd a' rest (i + 1)

/-! ### state -/

structure Exec where
  backend : Backend
  job : List JobBlock
  inject : List (String × String)
  /-- `_extended_md`: a dict of the executor's own from the constructor on -/
  xmd : Xmd
  found : List Found
deriving DecidableEq, Repr

structure HState where
  reg : Reg
  ns : NsReg
  execs : List Exec
  counter : Nat
deriving DecidableEq, Repr

/-- a fresh interpreter -/
def s₀ : HState := ⟨[], NsReg.empty, [], 0⟩

/-- the extended-metadata dict a translation on `ex` consults (the state argument is kept from the
time when never-reset executors shared the constructor's default dict) -/
def effXmd (_s : HState) (ex : Exec) : Xmd := ex.xmd

/-- `cpp_vars.unique_name(name, is_class_var)`: the ONLY use of the name counter.  The model's `View`
does not contain the counter: results are compared up to renumbering of generated names, which is
sound as long as distinct (name, index) pairs give distinct identifiers — they do not
(`leak_counterexample_name_counter`). -/
def uniqueName (name : String) (idx : Nat) (isClassVar : Bool := false) : String :=
  (if isClassVar then "_" else "") ++ name ++ toString idx

/-! ### the translator as an uninterpreted function of an explicit view -/

structure Query where
  /-- identity of the query text -/
  id : String
  /-- (type, method) pairs the translation looks up in the registry -/
  keys : List Key
  /-- free names the translation resolves through `get_toplevel_ns` -/
  names : List String
deriving DecidableEq, Repr

structure View where
  backend : Backend
  regAt : List (Key × Option String)
  nsAt : List (String × NsReg)
  job : List JobBlock
  specs : List Spec
deriving DecidableEq, Repr

inductive TTag where
  | ok | failTransform | failFinder | failWrite
deriving DecidableEq, Repr

/-- what the translator did: how far it got, the rendered package (or the error), and how many
fresh names it drew -/
structure TRes where
  tag : TTag
  payload : String
  ticks : Nat
deriving DecidableEq, Repr

abbrev Translator := Query → List MdItem → View → TRes

inductive Outcome where
  | noExec
  | mdError (idx : Nat)
  | transformError (err : String)
  | wrongBackend
  | finderError (err : String)
  | writeError (err : String)
  | ok (files : String)
deriving DecidableEq, Repr

/-- how far a translation got inside `apply_ast_transformations` / `write_cpp_files` -/
inductive Stage where
  | transform   -- raised in the func_adl rewrites: nothing of the executor touched
  | finder      -- raised after `_found_extended_md` was updated
  | write       -- raised in `write_cpp_files`: inject blocks replaced, job blocks appended, NO reset
  | done        -- `reset()` ran
deriving DecidableEq, Repr

def stageOf (t : TTag) (wrong : Bool) : Stage :=
  match t with
  | .failTransform => .transform
  | .failFinder => .finder
  | .failWrite => if wrong then .finder else .write
  | .ok => if wrong then .finder else .done

def outcomeOf (r : TRes) (wrong : Bool) : Outcome :=
  match r.tag with
  | .failTransform => .transformError r.payload
  | .failFinder => if wrong then .wrongBackend else .finderError r.payload
  | .failWrite => if wrong then .wrongBackend else .writeError r.payload
  | .ok => if wrong then .wrongBackend else .ok r.payload

def execAfter (ex : Exec) (st : Stage) (specs : List Spec) : Exec :=
  match st with
  | .transform => ex
  | .finder => { ex with found := ex.found ++ xitemsOf specs }
  | .write => { ex with found := ex.found ++ xitemsOf specs, inject := injectsOf specs,
                        job := ex.job ++ jobsOf specs }
  | .done => { ex with found := ex.found ++ xitemsOf specs, inject := [], job := [], xmd := [] }

def mkView (b : Backend) (q : Query) (a : MdAcc) (job : List JobBlock) : View :=
  { backend := b,
    regAt := q.keys.map (fun k => (k, alookup a.reg k)),
    nsAt := q.names.map (fun t => (t, a.ns.restrict t)),
    job := job,
    specs := a.specs }

/-- `exe.write_cpp_files(exe.apply_ast_transformations(query), dir)` on executor number `e`;
`o` answers for the translator proper. -/
def translateWith (D : Defaults) (o : View → TRes) (s : HState) (e : Nat) (q : Query)
    (md : List MdItem) : HState × Outcome :=
  match s.execs[e]? with
  | none => (s, .noExec)
  | some ex =>
    let m := mdRun (effXmd s ex) ⟨s.reg, s.ns, []⟩ md 0
    match m.2 with
    | some i => ({ s with reg := m.1.reg, ns := m.1.ns }, .mdError i)
    | none =>
      let r := o (mkView ex.backend q m.1 (ex.job ++ jobsOf m.1.specs))
      let wrong := wrongBackend ex.backend m.1.specs
      let st := stageOf r.tag wrong
      ({ s with
          reg := if st = .done then defaultsReg D ex.backend else m.1.reg,
          ns := m.1.ns,
          execs := s.execs.set e (execAfter ex st m.1.specs),
          counter := s.counter + r.ticks },
       outcomeOf r wrong)

/-- `backend_executor()` : the constructor registers the backend's default method types on top of
whatever the registry holds -/
def newExec (D : Defaults) (s : HState) (b : Backend) : HState :=
  { s with reg := ainsertAll s.reg (D b), execs := s.execs ++ [⟨b, [], [], [], []⟩] }

/-- `exe.add_extended_md(x)` : `self._extended_md.update(x)` on the executor's own dict -/
def addXmd (s : HState) (e : Nat) (x : Xmd) : HState :=
  match s.execs[e]? with
  | none => s
  | some ex => { s with execs := s.execs.set e { ex with xmd := ainsertAll ex.xmd x } }

/-! ### histories -/

/-- one thing the process did earlier, with what the translator proper answered -/
inductive OpO where
  | new (b : Backend)
  | addXmd (e : Nat) (x : Xmd)
  | translate (e : Nat) (q : Query) (md : List MdItem) (r : TRes)
deriving DecidableEq, Repr

def stepO (D : Defaults) (s : HState) : OpO → HState
  | .new b => newExec D s b
  | .addXmd e x => addXmd s e x
  | .translate e q md r => (translateWith D (fun _ => r) s e q md).1

def runO (D : Defaults) : List OpO → HState → HState
  | [], s => s
  | o :: h, s => runO D h (stepO D s o)

/-- the same with the translator's answers computed by `T` instead of recorded -/
inductive Op where
  | new (b : Backend)
  | addXmd (e : Nat) (x : Xmd)
  | translate (e : Nat) (q : Query) (md : List MdItem)
deriving DecidableEq, Repr

def step (D : Defaults) (T : Translator) (s : HState) : Op → HState
  | .new b => newExec D s b
  | .addXmd e x => addXmd s e x
  | .translate e q md => (translateWith D (T q md) s e q md).1

def run (D : Defaults) (T : Translator) : List Op → HState → HState
  | [], s => s
  | o :: h, s => run D T h (step D T s o)

/-! ### the query under test -/

structure Probe where
  b : Backend
  /-- what the caller registers with `add_extended_md` right before translating (as
  `LocalDataset.execute_result_async` does) and asks for with `extended_md(k)` afterwards -/
  xadd : Xmd
  q : Query
  md : List MdItem
deriving DecidableEq, Repr

/-- **The same AST object handed to an executor again.**  Since fix 1c4553a
`apply_ast_transformations` works on a deep copy of the object it is given: the caller's object is
never changed (before, `extract_metadata` removed its `MetaData` calls in place and this function
was `{ p with md := [] }`).  A second translation of the same object — or of a query that contains
it as a sub-tree — is the translation of the same query text with the same metadata. -/
def reuseProbe (p : Probe) : Probe := p

abbrev Result := Outcome × List Found

def foundFor (p : Probe) (s : HState) (e : Nat) : List Found :=
  match s.execs[e]? with
  | none => []
  | some ex => ex.found.filter (fun f => f.1 ∈ akeys p.xadd)

/-- translate the probe on the existing executor `e` -/
def runProbeOn (D : Defaults) (T : Translator) (s : HState) (p : Probe) (e : Nat) : Result :=
  let s2 := addXmd s e p.xadd
  let t := translateWith D (T p.q p.md) s2 e p.q p.md
  (t.2, foundFor p t.1 e)

/-- translate the probe on a newly created executor of its backend -/
def runProbeNew (D : Defaults) (T : Translator) (s : HState) (p : Probe) : Result :=
  runProbeOn D T (newExec D s p.b) p s.execs.length

/-- the first query of a fresh process -/
def freshResult (D : Defaults) (T : Translator) (p : Probe) : Result := runProbeNew D T s₀ p

end FaxVerif.C07
