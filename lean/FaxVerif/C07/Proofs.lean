/-
C07 — helper lemmas: insertion-ordered dicts, the namespace registry, `process_metadata` run from
two states that agree on a footprint, unfolding lemmas for `translateWith`.
-/
import FaxVerif.C07.Spec
namespace FaxVerif.C07

/-! ### insertion-ordered dicts -/
section AList
variable {κ ν : Type} [DecidableEq κ]

theorem alookup_ainsert (r : List (κ × ν)) (k k' : κ) (v : ν) :
    alookup (ainsert r k v) k' = if k = k' then some v else alookup r k' := by
  induction r with
  | nil => simp [ainsert, alookup]
  | cons h t ih =>
    obtain ⟨k₀, v₀⟩ := h
    unfold ainsert
    by_cases h1 : k₀ = k
    · subst h1
      simp only [if_true, alookup]
      by_cases h2 : k₀ = k' <;> simp [h2]
    · simp only [h1, if_false, alookup, ih]
      by_cases h2 : k₀ = k'
      · subst h2
        have : ¬ k = k₀ := fun h => h1 h.symm
        simp [this]
      · simp [h2]

theorem alookup_ainsertAll_of_not_mem (l : List (κ × ν)) (r : List (κ × ν)) (k : κ)
    (h : k ∉ akeys l) : alookup (ainsertAll r l) k = alookup r k := by
  induction l generalizing r with
  | nil => rfl
  | cons hd t ih =>
    obtain ⟨k₀, v₀⟩ := hd
    simp only [akeys, List.map_cons, List.mem_cons, not_or] at h
    unfold ainsertAll
    rw [ih _ (by simpa [akeys] using h.2), alookup_ainsert]
    have : ¬ k₀ = k := fun e => h.1 e.symm
    simp [this]

theorem alookup_ainsertAll_of_mem (l : List (κ × ν)) (r r' : List (κ × ν)) (k : κ)
    (h : k ∈ akeys l) : alookup (ainsertAll r l) k = alookup (ainsertAll r' l) k := by
  induction l generalizing r r' with
  | nil => simp [akeys] at h
  | cons hd t ih =>
    obtain ⟨k₀, v₀⟩ := hd
    unfold ainsertAll
    by_cases ht : k ∈ akeys t
    · exact ih _ _ ht
    · rw [alookup_ainsertAll_of_not_mem t _ k ht, alookup_ainsertAll_of_not_mem t _ k ht]
      have : k = k₀ := by
        simp only [akeys, List.map_cons, List.mem_cons] at h
        rcases h with h | h
        · exact h
        · exact absurd (by simpa [akeys] using h) ht
      subst this
      simp [alookup_ainsert]

theorem alookup_nil (k : κ) : alookup ([] : List (κ × ν)) k = none := rfl

/-- looking a key up in a dict filtered by a predicate on keys -/
theorem alookup_filter (l : List (κ × ν)) (g : κ → Bool) (k : κ) :
    alookup (l.filter (fun e => g e.1)) k = if g k then alookup l k else none := by
  induction l with
  | nil => simp [alookup]
  | cons hd t ih =>
    obtain ⟨k₀, v₀⟩ := hd
    by_cases hg : g k₀ = true
    · rw [List.filter_cons_of_pos (by simpa using hg)]
      simp only [alookup, ih]
      by_cases hk : k₀ = k
      · subst hk; simp [hg]
      · simp [hk]
    · rw [List.filter_cons_of_neg (by simpa using hg)]
      simp only [alookup, ih]
      by_cases hk : k₀ = k
      · subst hk; simp [hg]
      · simp [hk]

end AList
/-! ### namespaces and enums -/

theorem head_of_mem_nonEmptyInits (ns p : List String) (h : p ∈ nonEmptyInits ns) : p.head? = ns.head? := by
  cases ns with
  | nil => simp [nonEmptyInits] at h
  | cons a t =>
    simp only [nonEmptyInits, List.mem_cons, List.mem_map] at h
    rcases h with h | ⟨q, _, h⟩
    · subst h; rfl
    · subst h; rfl

theorem filter_addSpaces_pos (f : List String → Bool) (ps sp : List (List String))
    (h : ∀ p ∈ ps, f p = true) : (addSpaces sp ps).filter f = addSpaces (sp.filter f) ps := by
  induction ps generalizing sp with
  | nil => rfl
  | cons p t ih =>
    have hp : f p = true := h p (by simp)
    unfold addSpaces
    rw [ih _ (fun q hq => h q (by simp [hq]))]
    congr 1
    by_cases hm : p ∈ sp
    · have : p ∈ sp.filter f := List.mem_filter.2 ⟨hm, hp⟩
      simp [hm, this]
    · have : p ∉ sp.filter f := fun hc => hm (List.mem_filter.1 hc).1
      simp [hm, this, List.filter_append, hp]

theorem filter_addSpaces_neg (f : List String → Bool) (ps sp : List (List String))
    (h : ∀ p ∈ ps, f p = false) : (addSpaces sp ps).filter f = sp.filter f := by
  induction ps generalizing sp with
  | nil => rfl
  | cons p t ih =>
    have hp : f p = false := h p (by simp)
    unfold addSpaces
    rw [ih _ (fun q hq => h q (by simp [hq]))]
    by_cases hm : p ∈ sp
    · simp [hm]
    · simp [hm, List.filter_append, hp]

theorem restrict_empty (t : String) : NsReg.empty.restrict t = NsReg.empty := rfl

/-- `define_enum` below another top-level name is invisible below `t`; below `t` it acts on the
restriction exactly as on the whole registry -/
theorem restrict_define (n : NsReg) (ns : List String) (name : String) (vals : List String) (t : String) :
    (n.define ns name vals).restrict t =
      if ns.head? = some t then (n.restrict t).define ns name vals else n.restrict t := by
  by_cases hh : ns.head? = some t
  · simp only [hh, if_true]
    unfold NsReg.define NsReg.restrict
    simp only
    congr 1
    · apply filter_addSpaces_pos
      intro p hp
      rw [head_of_mem_nonEmptyInits ns p hp, hh]; simp
    · have hl := alookup_filter n.enums (fun k => k.1.head? == some t) (ns, name)
      simp only [hh, beq_self_eq_true, if_true] at hl
      rw [hl]
      cases hc : alookup n.enums (ns, name) with
      | some v => rfl
      | none => simp [List.filter_append, hh]
  · simp only [hh, if_false]
    unfold NsReg.define NsReg.restrict
    simp only
    congr 1
    · apply filter_addSpaces_neg
      intro p hp
      rw [head_of_mem_nonEmptyInits ns p hp]
      simpa using hh
    · cases hc : alookup n.enums (ns, name) with
      | some v => rfl
      | none => simp [List.filter_append, hh]

/-! ### `process_metadata` from two states that agree on a footprint -/

/-- the two accumulators look the same through the footprint `(K, N)` -/
structure AccRel (K : List Key) (N : List String) (a₁ a₂ : MdAcc) : Prop where
  specs : a₁.specs = a₂.specs
  reg : ∀ k ∈ K, alookup a₁.reg k = alookup a₂.reg k
  ns : ∀ t ∈ N, a₁.ns.restrict t = a₂.ns.restrict t

theorem mdStep_rel (K : List Key) (N : List String) (x₁ x₂ : Xmd) (a₁ a₂ : MdAcc) (it : MdItem)
    (hx : ∀ kind ∈ mdKinds [it], alookup x₁ kind = alookup x₂ kind) (h : AccRel K N a₁ a₂) :
    (mdStep x₁ a₁ it = none ∧ mdStep x₂ a₂ it = none) ∨
    ∃ b₁ b₂, mdStep x₁ a₁ it = some b₁ ∧ mdStep x₂ a₂ it = some b₂ ∧ AccRel K N b₁ b₂ := by
  cases it with
  | methodType ty m info =>
    refine Or.inr ⟨_, _, rfl, rfl, ⟨h.specs, ?_, h.ns⟩⟩
    intro k hk
    simp only [alookup_ainsert, h.reg k hk]
  | defineEnum ns name vals =>
    refine Or.inr ⟨_, _, rfl, rfl, ⟨h.specs, h.reg, ?_⟩⟩
    intro t ht
    simp only [restrict_define, h.ns t ht]
  | inject name body =>
    simp only [mdStep, ← h.specs]
    cases hf : findInject a₁.specs name with
    | none => exact Or.inr ⟨_, _, rfl, rfl, ⟨by simp [h.specs], h.reg, h.ns⟩⟩
    | some b' =>
      by_cases hb : b' = body
      · simp only [hb, if_true]; exact Or.inr ⟨_, _, rfl, rfl, h⟩
      · simp [hb]
  | jobScript name script deps => exact Or.inr ⟨_, _, rfl, rfl, ⟨by simp [h.specs], h.reg, h.ns⟩⟩
  | cppFunction name body => exact Or.inr ⟨_, _, rfl, rfl, ⟨by simp [h.specs], h.reg, h.ns⟩⟩
  | collection bk name body => exact Or.inr ⟨_, _, rfl, rfl, ⟨by simp [h.specs], h.reg, h.ns⟩⟩
  | extended kind fields =>
    have hk : alookup x₁ kind = alookup x₂ kind := hx kind (by simp [mdKinds])
    simp only [mdStep, ← hk]
    cases hf : alookup x₁ kind with
    | none => exact Or.inl ⟨rfl, rfl⟩
    | some proto => exact Or.inr ⟨_, _, rfl, rfl, ⟨by simp [h.specs], h.reg, h.ns⟩⟩
  | bad => exact Or.inl ⟨rfl, rfl⟩

theorem mdKinds_cons_sub (it : MdItem) (rest : List MdItem) (k : String) :
    (k ∈ mdKinds [it] → k ∈ mdKinds (it :: rest)) ∧ (k ∈ mdKinds rest → k ∈ mdKinds (it :: rest)) := by
  cases it <;> simp [mdKinds] <;> exact ⟨Or.inl, Or.inr⟩

theorem mdRun_rel (K : List Key) (N : List String) (x₁ x₂ : Xmd) (md : List MdItem) :
    ∀ (a₁ a₂ : MdAcc) (i : Nat), (∀ kind ∈ mdKinds md, alookup x₁ kind = alookup x₂ kind) → AccRel K N a₁ a₂ →
      (mdRun x₁ a₁ md i).2 = (mdRun x₂ a₂ md i).2 ∧ AccRel K N (mdRun x₁ a₁ md i).1 (mdRun x₂ a₂ md i).1 := by
  induction md with
  | nil => intro a₁ a₂ i _ h; exact ⟨rfl, h⟩
  | cons it rest ih =>
    intro a₁ a₂ i hx h
    have h1 := mdStep_rel K N x₁ x₂ a₁ a₂ it (fun k hk => hx k ((mdKinds_cons_sub it rest k).1 hk)) h
    unfold mdRun
    rcases h1 with ⟨e1, e2⟩ | ⟨b₁, b₂, e1, e2, hr⟩
    · rw [e1, e2]; exact ⟨rfl, h⟩
    · rw [e1, e2]
      exact ih b₁ b₂ (i + 1) (fun k hk => hx k ((mdKinds_cons_sub it rest k).2 hk)) hr

/-! ### what one run of `process_metadata` can change -/

theorem mdStep_reg (x : Xmd) (a b : MdAcc) (it : MdItem) (k : Key) (h : mdStep x a it = some b)
    (hk : k ∉ declKeys [it]) : alookup b.reg k = alookup a.reg k := by
  cases it with
  | methodType ty m info =>
    simp only [mdStep, Option.some.injEq] at h
    subst h
    simp only [declKeys, List.mem_cons, List.not_mem_nil, or_false] at hk
    simp only [alookup_ainsert]
    have : ¬ (ty, m) = k := fun e => hk e.symm
    simp [this]
  | inject name body =>
    unfold mdStep at h
    cases hf : findInject a.specs name with
    | none => simp only [hf, Option.some.injEq] at h; subst h; rfl
    | some b' =>
      simp only [hf] at h
      by_cases hb : b' = body
      · simp only [hb, if_true, Option.some.injEq] at h; subst h; rfl
      · simp [hb] at h
  | extended kind fields =>
    unfold mdStep at h
    cases hf : alookup x kind with
    | none => simp [hf] at h
    | some p => simp only [hf, Option.some.injEq] at h; subst h; rfl
  | bad => simp [mdStep] at h
  | _ => simp only [mdStep, Option.some.injEq] at h; subst h; rfl

theorem mdStep_ns (x : Xmd) (a b : MdAcc) (it : MdItem) (t : String) (h : mdStep x a it = some b)
    (ht : some t ∉ enumTops [it]) : b.ns.restrict t = a.ns.restrict t := by
  cases it with
  | defineEnum ns name vals =>
    simp only [mdStep, Option.some.injEq] at h
    subst h
    simp only [enumTops, List.mem_cons, List.not_mem_nil, or_false] at ht
    simp only [restrict_define]
    have : ¬ ns.head? = some t := fun e => ht e.symm
    simp [this]
  | inject name body =>
    unfold mdStep at h
    cases hf : findInject a.specs name with
    | none => simp only [hf, Option.some.injEq] at h; subst h; rfl
    | some b' =>
      simp only [hf] at h
      by_cases hb : b' = body
      · simp only [hb, if_true, Option.some.injEq] at h; subst h; rfl
      · simp [hb] at h
  | extended kind fields =>
    unfold mdStep at h
    cases hf : alookup x kind with
    | none => simp [hf] at h
    | some p => simp only [hf, Option.some.injEq] at h; subst h; rfl
  | bad => simp [mdStep] at h
  | _ => simp only [mdStep, Option.some.injEq] at h; subst h; rfl

theorem declKeys_cons_sub (it : MdItem) (rest : List MdItem) (k : Key) :
    (k ∈ declKeys [it] → k ∈ declKeys (it :: rest)) ∧ (k ∈ declKeys rest → k ∈ declKeys (it :: rest)) := by
  cases it <;> simp [declKeys] <;> exact ⟨Or.inl, Or.inr⟩

theorem enumTops_cons_sub (it : MdItem) (rest : List MdItem) (k : Option String) :
    (k ∈ enumTops [it] → k ∈ enumTops (it :: rest)) ∧ (k ∈ enumTops rest → k ∈ enumTops (it :: rest)) := by
  cases it <;> simp [enumTops] <;> exact ⟨Or.inl, Or.inr⟩

/-- the registry changes only at the keys the metadata declares (whether or not it raises) -/
theorem mdRun_reg (x : Xmd) (md : List MdItem) (k : Key) :
    ∀ (a : MdAcc) (i : Nat), k ∉ declKeys md → alookup (mdRun x a md i).1.reg k = alookup a.reg k := by
  induction md with
  | nil => intro a i _; rfl
  | cons it rest ih =>
    intro a i hk
    unfold mdRun
    cases hs : mdStep x a it with
    | none => rfl
    | some b =>
      simp only
      rw [ih b (i + 1) (fun hc => hk ((declKeys_cons_sub it rest k).2 hc))]
      exact mdStep_reg x a b it k hs (fun hc => hk ((declKeys_cons_sub it rest k).1 hc))

/-- the namespace registry changes only below the top-level names the metadata defines enums under -/
theorem mdRun_ns (x : Xmd) (md : List MdItem) (t : String) :
    ∀ (a : MdAcc) (i : Nat), some t ∉ enumTops md → (mdRun x a md i).1.ns.restrict t = a.ns.restrict t := by
  induction md with
  | nil => intro a i _; rfl
  | cons it rest ih =>
    intro a i hk
    unfold mdRun
    cases hs : mdStep x a it with
    | none => rfl
    | some b =>
      simp only
      rw [ih b (i + 1) (fun hc => hk ((enumTops_cons_sub it rest (some t)).2 hc))]
      exact mdStep_ns x a b it t hs (fun hc => hk ((enumTops_cons_sub it rest (some t)).1 hc))

/-! ### unfolding `translateWith` -/

/-- the run of `process_metadata` a translation on executor `ex` performs in state `s` -/
def mdOf (s : HState) (ex : Exec) (md : List MdItem) : MdAcc × Option Nat :=
  mdRun (effXmd s ex) ⟨s.reg, s.ns, []⟩ md 0

theorem translateWith_noExec (D : Defaults) (o : View → TRes) (s : HState) (e : Nat) (q : Query)
    (md : List MdItem) (h : s.execs[e]? = none) : translateWith D o s e q md = (s, .noExec) := by
  unfold translateWith; simp only [h]

theorem translateWith_mdFail (D : Defaults) (o : View → TRes) (s : HState) (e : Nat) (q : Query)
    (md : List MdItem) (ex : Exec) (i : Nat) (h : s.execs[e]? = some ex) (hm : (mdOf s ex md).2 = some i) :
    translateWith D o s e q md =
      ({ s with reg := (mdOf s ex md).1.reg, ns := (mdOf s ex md).1.ns }, .mdError i) := by
  unfold translateWith; unfold mdOf at hm; simp only [h, hm]; rfl

theorem translateWith_run (D : Defaults) (o : View → TRes) (s : HState) (e : Nat) (q : Query)
    (md : List MdItem) (ex : Exec) (h : s.execs[e]? = some ex) (hm : (mdOf s ex md).2 = none) :
    translateWith D o s e q md =
      ({ s with
          reg := if stageOf (o (mkView ex.backend q (mdOf s ex md).1 (ex.job ++ jobsOf (mdOf s ex md).1.specs))).tag
                      (wrongBackend ex.backend (mdOf s ex md).1.specs) = .done
                 then defaultsReg D ex.backend else (mdOf s ex md).1.reg,
          ns := (mdOf s ex md).1.ns,
          execs := s.execs.set e (execAfter ex
            (stageOf (o (mkView ex.backend q (mdOf s ex md).1 (ex.job ++ jobsOf (mdOf s ex md).1.specs))).tag
              (wrongBackend ex.backend (mdOf s ex md).1.specs)) (mdOf s ex md).1.specs),
          counter := s.counter + (o (mkView ex.backend q (mdOf s ex md).1 (ex.job ++ jobsOf (mdOf s ex md).1.specs))).ticks },
       outcomeOf (o (mkView ex.backend q (mdOf s ex md).1 (ex.job ++ jobsOf (mdOf s ex md).1.specs)))
         (wrongBackend ex.backend (mdOf s ex md).1.specs)) := by
  unfold translateWith; unfold mdOf at hm; simp only [h, hm]; rfl

theorem getElem?_set_self' {α} (l : List α) (e : Nat) (x y : α) (h : l[e]? = some x) : (l.set e y)[e]? = some y := by
  have hl : e < l.length := by
    rcases Nat.lt_or_ge e l.length with h' | h'
    · exact h'
    · rw [List.getElem?_eq_none h'] at h; cases h
  simp [List.getElem?_set, hl]

theorem getElem?_set_ne' {α} (l : List α) (e e' : Nat) (y : α) (h : e ≠ e') : (l.set e y)[e']? = l[e']? := by
  simp [List.getElem?_set, h]

theorem execAfter_backend (ex : Exec) (st : Stage) (sp : List Spec) : (execAfter ex st sp).backend = ex.backend := by
  cases st <;> rfl

theorem execAfter_found (ex : Exec) (st : Stage) (sp : List Spec) :
    (execAfter ex st sp).found = if st = .transform then ex.found else ex.found ++ xitemsOf sp := by
  cases st <;> simp [execAfter]

/-! ### the result of a translation depends on the state only through the footprint -/

/-- everything `translateWith` reads, seen through the footprint of `(q, md)` and the kinds `X` the
caller asks for afterwards -/
structure SeesSame (q : Query) (md : List MdItem) (X : List String)
    (s₁ : HState) (ex₁ : Exec) (s₂ : HState) (ex₂ : Exec) : Prop where
  backend : ex₁.backend = ex₂.backend
  job : ex₁.job = ex₂.job
  reg : ∀ k ∈ q.keys, alookup s₁.reg k = alookup s₂.reg k
  ns : ∀ t ∈ q.names, s₁.ns.restrict t = s₂.ns.restrict t
  xmd : ∀ kind ∈ mdKinds md, alookup (effXmd s₁ ex₁) kind = alookup (effXmd s₂ ex₂) kind
  found : ex₁.found.filter (fun f => decide (f.1 ∈ X)) = ex₂.found.filter (fun f => decide (f.1 ∈ X))

theorem translate_congr (D : Defaults) (o : View → TRes) (q : Query) (md : List MdItem) (X : List String)
    (s₁ s₂ : HState) (e₁ e₂ : Nat) (ex₁ ex₂ : Exec)
    (h₁ : s₁.execs[e₁]? = some ex₁) (h₂ : s₂.execs[e₂]? = some ex₂) (h : SeesSame q md X s₁ ex₁ s₂ ex₂) :
    (translateWith D o s₁ e₁ q md).2 = (translateWith D o s₂ e₂ q md).2 ∧
    ∃ ex₁' ex₂', (translateWith D o s₁ e₁ q md).1.execs[e₁]? = some ex₁' ∧
      (translateWith D o s₂ e₂ q md).1.execs[e₂]? = some ex₂' ∧
      ex₁'.found.filter (fun f => decide (f.1 ∈ X)) = ex₂'.found.filter (fun f => decide (f.1 ∈ X)) := by
  have hrel := mdRun_rel q.keys q.names (effXmd s₁ ex₁) (effXmd s₂ ex₂) md ⟨s₁.reg, s₁.ns, []⟩ ⟨s₂.reg, s₂.ns, []⟩ 0
    h.xmd ⟨rfl, h.reg, h.ns⟩
  change (mdOf s₁ ex₁ md).2 = (mdOf s₂ ex₂ md).2 ∧ AccRel q.keys q.names (mdOf s₁ ex₁ md).1 (mdOf s₂ ex₂ md).1 at hrel
  obtain ⟨hfail, hacc⟩ := hrel
  cases hm : (mdOf s₁ ex₁ md).2 with
  | some i =>
    have hm2 : (mdOf s₂ ex₂ md).2 = some i := by rw [← hfail, hm]
    rw [translateWith_mdFail D o s₁ e₁ q md ex₁ i h₁ hm, translateWith_mdFail D o s₂ e₂ q md ex₂ i h₂ hm2]
    exact ⟨rfl, ex₁, ex₂, h₁, h₂, h.found⟩
  | none =>
    have hm2 : (mdOf s₂ ex₂ md).2 = none := by rw [← hfail, hm]
    rw [translateWith_run D o s₁ e₁ q md ex₁ h₁ hm, translateWith_run D o s₂ e₂ q md ex₂ h₂ hm2]
    have hview : mkView ex₁.backend q (mdOf s₁ ex₁ md).1 (ex₁.job ++ jobsOf (mdOf s₁ ex₁ md).1.specs)
        = mkView ex₂.backend q (mdOf s₂ ex₂ md).1 (ex₂.job ++ jobsOf (mdOf s₂ ex₂ md).1.specs) := by
      unfold mkView
      rw [h.backend, h.job, hacc.specs]
      congr 1
      · apply List.map_congr_left
        intro k hk; rw [hacc.reg k hk]
      · apply List.map_congr_left
        intro t ht; rw [hacc.ns t ht]
    rw [hview]
    simp only [h.backend, hacc.specs]
    refine ⟨trivial, _, _, getElem?_set_self' _ _ _ _ h₁, getElem?_set_self' _ _ _ _ h₂, ?_⟩
    simp only [execAfter_found]
    split
    · exact h.found
    · simp only [List.filter_append, h.found]

/-! ### `add_extended_md` -/

theorem addXmd_spec (s : HState) (e : Nat) (x : Xmd) (ex : Exec) (h : s.execs[e]? = some ex) :
    ∃ ex', (addXmd s e x).execs[e]? = some ex' ∧ ex'.backend = ex.backend ∧ ex'.job = ex.job ∧
      ex'.found = ex.found ∧ effXmd (addXmd s e x) ex' = ainsertAll (effXmd s ex) x ∧
      (addXmd s e x).reg = s.reg ∧ (addXmd s e x).ns = s.ns := by
  have e1 : addXmd s e x = { s with execs := s.execs.set e { ex with xmd := ainsertAll ex.xmd x } } := by
    unfold addXmd; simp only [h]
  rw [e1]
  exact ⟨_, getElem?_set_self' _ _ _ _ h, rfl, rfl, rfl, rfl, rfl, rfl⟩

theorem alookup_xadd_congr (x₁ x₂ xadd : Xmd) (kind : String)
    (h : kind ∉ akeys xadd → alookup x₁ kind = alookup x₂ kind) :
    alookup (ainsertAll x₁ xadd) kind = alookup (ainsertAll x₂ xadd) kind := by
  by_cases hk : kind ∈ akeys xadd
  · exact alookup_ainsertAll_of_mem xadd x₁ x₂ kind hk
  · rw [alookup_ainsertAll_of_not_mem xadd x₁ kind hk, alookup_ainsertAll_of_not_mem xadd x₂ kind hk]
    exact h hk

/-- Two (state, executor) pairs that look the same through the probe's footprint give the same
result — for every translator. -/
theorem probe_congr (D : Defaults) (T : Translator) (p : Probe) (s₁ s₂ : HState) (e₁ e₂ : Nat) (ex₁ ex₂ : Exec)
    (h₁ : s₁.execs[e₁]? = some ex₁) (h₂ : s₂.execs[e₂]? = some ex₂)
    (hb : ex₁.backend = ex₂.backend) (hj : ex₁.job = ex₂.job)
    (hreg : ∀ k ∈ p.q.keys, alookup s₁.reg k = alookup s₂.reg k)
    (hns : ∀ t ∈ p.q.names, s₁.ns.restrict t = s₂.ns.restrict t)
    (hx : ∀ kind ∈ mdKinds p.md, kind ∉ akeys p.xadd → alookup (effXmd s₁ ex₁) kind = alookup (effXmd s₂ ex₂) kind)
    (hf : ex₁.found.filter (fun f => decide (f.1 ∈ akeys p.xadd)) = ex₂.found.filter (fun f => decide (f.1 ∈ akeys p.xadd))) :
    runProbeOn D T s₁ p e₁ = runProbeOn D T s₂ p e₂ := by
  obtain ⟨a₁, ha₁, hb₁, hj₁, hf₁, hx₁, hr₁, hn₁⟩ := addXmd_spec s₁ e₁ p.xadd ex₁ h₁
  obtain ⟨a₂, ha₂, hb₂, hj₂, hf₂, hx₂, hr₂, hn₂⟩ := addXmd_spec s₂ e₂ p.xadd ex₂ h₂
  have hsee : SeesSame p.q p.md (akeys p.xadd) (addXmd s₁ e₁ p.xadd) a₁ (addXmd s₂ e₂ p.xadd) a₂ := by
    refine ⟨by rw [hb₁, hb₂, hb], by rw [hj₁, hj₂, hj], ?_, ?_, ?_, by rw [hf₁, hf₂, hf]⟩
    · intro k hk; rw [hr₁, hr₂]; exact hreg k hk
    · intro t ht; rw [hn₁, hn₂]; exact hns t ht
    · intro kind hk; rw [hx₁, hx₂]; exact alookup_xadd_congr _ _ _ _ (hx kind hk)
  obtain ⟨ho, b₁, b₂, hb1, hb2, hfound⟩ := translate_congr D (T p.q p.md) p.q p.md (akeys p.xadd) _ _ e₁ e₂ a₁ a₂ ha₁ ha₂ hsee
  unfold runProbeOn foundFor
  simp only [ho, hb1, hb2, hfound]

/-! ### the Boolean invariants as propositions -/

theorem regCleanNew_iff (D : Defaults) (p : Probe) (s : HState) :
    regCleanNew D p s = true ↔ ∀ k ∈ p.q.keys, k ∈ dkeys D p.b ∨ alookup s.reg k = none := by
  simp [regCleanNew, List.all_eq_true, Option.isNone_iff_eq_none]

theorem regCleanOn_iff (D : Defaults) (p : Probe) (s : HState) :
    regCleanOn D p s = true ↔ ∀ k ∈ p.q.keys, alookup s.reg k = alookup (defaultsReg D p.b) k := by
  simp [regCleanOn, List.all_eq_true]

theorem nsClean_iff (p : Probe) (s : HState) :
    nsClean p s = true ↔ ∀ t ∈ p.q.names, s.ns.restrict t = NsReg.empty := by
  simp [nsClean, List.all_eq_true]

theorem xmdClean_iff (p : Probe) (x : Xmd) :
    xmdClean p x = true ↔ ∀ k ∈ mdKinds p.md, k ∈ akeys p.xadd ∨ alookup x k = none := by
  simp [xmdClean, List.all_eq_true, Option.isNone_iff_eq_none]

theorem cleanNew_iff (D : Defaults) (p : Probe) (s : HState) :
    cleanNew D p s = true ↔ regCleanNew D p s = true ∧ nsClean p s = true := by
  simp [cleanNew, Bool.and_eq_true]

theorem alookup_defaultsReg_of_not_mem (D : Defaults) (b : Backend) (k : Key) (h : k ∉ dkeys D b) :
    alookup (defaultsReg D b) k = none := by
  unfold defaultsReg
  rw [alookup_ainsertAll_of_not_mem (D b) [] k h]; rfl

/-! ### the state after a recorded translation -/

theorem stepO_translate_noExec (D : Defaults) (s : HState) (e : Nat) (q : Query) (md : List MdItem) (r : TRes)
    (h : s.execs[e]? = none) : stepO D s (.translate e q md r) = s := by
  simp only [stepO, translateWith_noExec D _ s e q md h]

theorem reachedStage_none (s : HState) (ex : Exec) (md : List MdItem) (r : TRes) (i : Nat)
    (hm : (mdOf s ex md).2 = some i) : reachedStage s ex md r = none := by
  unfold reachedStage; unfold mdOf at hm; simp only [hm]

theorem reachedStage_some (s : HState) (ex : Exec) (md : List MdItem) (r : TRes)
    (hm : (mdOf s ex md).2 = none) :
    reachedStage s ex md r = some (stageOf r.tag (wrongBackend ex.backend (mdOf s ex md).1.specs)) := by
  unfold reachedStage; unfold mdOf at hm; simp only [hm]; rfl

theorem stepO_translate_fields (D : Defaults) (s : HState) (e : Nat) (q : Query) (md : List MdItem) (r : TRes)
    (ex : Exec) (h : s.execs[e]? = some ex) :
    (stepO D s (.translate e q md r)).ns = (mdOf s ex md).1.ns ∧
    (stepO D s (.translate e q md r)).reg =
      (if reachedStage s ex md r = some .done then defaultsReg D ex.backend else (mdOf s ex md).1.reg) ∧
    (stepO D s (.translate e q md r)).execs =
      (match reachedStage s ex md r with
       | none => s.execs
       | some st => s.execs.set e (execAfter ex st (specsOfRun s ex md))) := by
  cases hm : (mdOf s ex md).2 with
  | some i =>
    simp only [stepO, translateWith_mdFail D _ s e q md ex i h hm, reachedStage_none s ex md r i hm]
    simp
  | none =>
    rw [reachedStage_some s ex md r hm]
    simp only [stepO, translateWith_run D _ s e q md ex h hm]
    simp [specsOfRun, mdOf]
    split <;> rename_i h1 <;> simp [h1]

theorem lt_length_of_getElem? {α} (l : List α) (e : Nat) (x : α) (h : l[e]? = some x) : e < l.length := by
  rcases Nat.lt_or_ge e l.length with h' | h'
  · exact h'
  · rw [List.getElem?_eq_none h'] at h; cases h

theorem effXmd_congr (s s' : HState) (ex ex' : Exec) (h3 : ex'.xmd = ex.xmd) : effXmd s' ex' = effXmd s ex := by
  unfold effXmd; rw [h3]

theorem execAfter_xmd (ex : Exec) (st : Stage) (sp : List Spec) (h : st ≠ .done) :
    (execAfter ex st sp).xmd = ex.xmd := by
  cases st <;> first | rfl | exact absurd rfl h

theorem execAfter_job (ex : Exec) (st : Stage) (sp : List Spec) :
    (execAfter ex st sp).job = match st with
      | .transform => ex.job | .finder => ex.job | .write => ex.job ++ jobsOf sp | .done => [] := by
  cases st <;> rfl

theorem stepO_length (D : Defaults) (s : HState) (o : OpO) :
    (stepO D s o).execs.length = s.execs.length + (match o with | .new _ => 1 | _ => 0) := by
  cases o with
  | new b => simp [stepO, newExec]
  | addXmd e x =>
    simp only [stepO, addXmd]
    cases he : s.execs[e]? with
    | none => simp
    | some ex => simp
  | translate e q md r =>
    cases he : s.execs[e]? with
    | none => rw [stepO_translate_noExec D s e q md r he]; simp
    | some ex =>
      obtain ⟨_, _, fe⟩ := stepO_translate_fields D s e q md r ex he
      rw [fe]
      cases reachedStage s ex md r <;> simp

/-! ### the oracle accepts identical observations -/

/-- a renaming that renames nothing -/
def IdMap (m : List (String × String)) : Prop := ∀ e ∈ m, e.1 = e.2

theorem stepMap_refl (m : List (String × String)) (a : String) (h : IdMap m) :
    ∃ m', stepMap m a a = some m' ∧ IdMap m' := by
  unfold stepMap
  by_cases hn : (numbered a && numbered a) = true
  · simp only [hn, if_true]
    cases hf : m.find? (fun e => e.1 == a) with
    | some e =>
      have hmem : e ∈ m := List.mem_of_find?_eq_some hf
      have h1 : e.1 = a := by simpa using List.find?_some hf
      have h2 : e.2 = a := by rw [← h e hmem]; exact h1
      simp only [h2, beq_self_eq_true, if_true]
      exact ⟨m, rfl, h⟩
    | none =>
      cases hg : m.find? (fun e => e.2 == a) with
      | some e' =>
        have hmem : e' ∈ m := List.mem_of_find?_eq_some hg
        have h2 : e'.2 = a := by simpa using List.find?_some hg
        have h1 : e'.1 = a := by rw [h e' hmem]; exact h2
        have := List.find?_eq_none.1 hf e' hmem
        simp [h1] at this
      | none =>
        simp only [beq_self_eq_true, if_true]
        refine ⟨_, rfl, ?_⟩
        intro e he
        rcases List.mem_cons.1 he with h' | h'
        · rw [h']
        · exact h e h'
  · simp only [hn, beq_self_eq_true, if_true]
    exact ⟨m, by simp, h⟩

theorem agreeTokens_refl (ts : List String) : ∀ m, IdMap m → ∃ m', agreeTokens ts ts m = some m' ∧ IdMap m' := by
  induction ts with
  | nil => intro m h; exact ⟨m, rfl, h⟩
  | cons a t ih =>
    intro m h
    obtain ⟨m1, e1, h1⟩ := stepMap_refl m a h
    obtain ⟨m2, e2, h2⟩ := ih m1 h1
    exact ⟨m2, by simp only [agreeTokens, e1, e2], h2⟩

theorem agreeLines_refl (ls : List String) : ∀ m, IdMap m → ∃ m', agreeLines ls ls m = some m' ∧ IdMap m' := by
  induction ls with
  | nil => intro m h; exact ⟨m, rfl, h⟩
  | cons a t ih =>
    intro m h
    unfold agreeLines
    by_cases hd : (a == a && !hasDigit a) = true
    · simp only [hd, if_true]; exact ih m h
    · simp only [hd]
      obtain ⟨m1, e1, h1⟩ := agreeTokens_refl (tokens a) m h
      obtain ⟨m2, e2, h2⟩ := ih m1 h1
      exact ⟨m2, by simp only [e1, e2]; simp, h2⟩

theorem agreeFiles_refl (fs : List FileObs) : ∀ m, IdMap m → ∃ m', agreeFiles fs fs m = some m' ∧ IdMap m' := by
  induction fs with
  | nil => intro m h; exact ⟨m, rfl, h⟩
  | cons f t ih =>
    intro m h
    obtain ⟨n, l⟩ := f
    obtain ⟨m1, e1, h1⟩ := agreeLines_refl l m h
    obtain ⟨m2, e2, h2⟩ := ih m1 h1
    exact ⟨m2, by simp only [agreeFiles, beq_self_eq_true, if_true, e1, e2], h2⟩

end FaxVerif.C07
