/-
C07 — the property and its decidable hypotheses.

* `HistoryIndependentNew / On` : the statement itself for one history and one probe (on the model).
* `benignNew`, `benignOn`, `benignRunNew`, `benignRunOn` : which earlier operations the proved
  part of the statement covers (decidable, evaluated by the driver to keep the main stream of the
  correspondence harness inside the hypotheses).  Every clause that is *excluded* corresponds to a
  `leak_counterexample_*` theorem and a listed finding.
* `cleanNew`, `cleanOn` : the state invariant ("nothing the probe can see has been left behind").
* `agreeObs` : equality of two observed translation results up to a bijective renumbering of
  generated names — the oracle evaluated on the IMPLEMENTATION's output (fresh interpreter vs after
  the history), and the relation the theorems establish for the model.
* `Witness.*` : the literal histories of the counterexample theorems (the driver checks that the
  histories replayed against the real code have the same shape).
-/
import FaxVerif.C07.Model
namespace FaxVerif.C07

/-! ### the statement -/

/-- the probe on a newly created executor, after the history `h`, gives what a fresh process gives -/
def HistoryIndependentNew (D : Defaults) (T : Translator) (h : List OpO) (p : Probe) : Prop :=
  runProbeNew D T (runO D h s₀) p = freshResult D T p

/-- the probe on the existing executor `e`, after the history `h`, gives what a fresh process gives -/
def HistoryIndependentOn (D : Defaults) (T : Translator) (h : List OpO) (p : Probe) (e : Nat) : Prop :=
  runProbeOn D T (runO D h s₀) p e = freshResult D T p

/-! ### histories whose translations are answered by `T` itself -/

/-- what the translator proper answers for this translation in state `s` (irrelevant when
`process_metadata` raises first) -/
def answerOf (T : Translator) (s : HState) (e : Nat) (q : Query) (md : List MdItem) : TRes :=
  match s.execs[e]? with
  | none => ⟨.ok, "", 0⟩
  | some ex =>
    let m := mdRun (effXmd s ex) ⟨s.reg, s.ns, []⟩ md 0
    T q md (mkView ex.backend q m.1 (ex.job ++ jobsOf m.1.specs))

/-- the history with the answers `T` gives along the way written down -/
def record (D : Defaults) (T : Translator) : List Op → HState → List OpO
  | [], _ => []
  | .new b :: h, s => .new b :: record D T h (newExec D s b)
  | .addXmd e x :: h, s => .addXmd e x :: record D T h (addXmd s e x)
  | .translate e q md :: h, s =>
    .translate e q md (answerOf T s e q md) :: record D T h (step D T s (.translate e q md))

/-! ### footprints of metadata -/

/-- kinds of the extended-metadata items (what `process_metadata` looks up in `_extended_md`) -/
def mdKinds : List MdItem → List String
  | [] => []
  | .extended k _ :: t => k :: mdKinds t
  | _ :: t => mdKinds t

/-- registry keys the metadata declares -/
def declKeys : List MdItem → List Key
  | [] => []
  | .methodType ty m _ :: t => (ty, m) :: declKeys t
  | _ :: t => declKeys t

/-- top-level namespace names the metadata defines enums under -/
def enumTops : List MdItem → List (Option String)
  | [] => []
  | .defineEnum ns _ _ :: t => ns.head? :: enumTops t
  | _ :: t => enumTops t

/-! ### the state invariant -/

def regCleanNew (D : Defaults) (p : Probe) (s : HState) : Bool :=
  p.q.keys.all fun k => decide (k ∈ dkeys D p.b) || (alookup s.reg k).isNone

def regCleanOn (D : Defaults) (p : Probe) (s : HState) : Bool :=
  p.q.keys.all fun k => decide (alookup s.reg k = alookup (defaultsReg D p.b) k)

def nsClean (p : Probe) (s : HState) : Bool :=
  p.q.names.all fun t => decide (s.ns.restrict t = NsReg.empty)

def xmdClean (p : Probe) (x : Xmd) : Bool :=
  (mdKinds p.md).all fun k => decide (k ∈ akeys p.xadd) || (alookup x k).isNone

/-- nothing a probe on a NEW executor can see has been left behind -/
def cleanNew (D : Defaults) (p : Probe) (s : HState) : Bool :=
  regCleanNew D p s && nsClean p s

/-- nothing a probe on the EXISTING executor `e` can see has been left behind -/
def cleanOn (D : Defaults) (p : Probe) (s : HState) (e : Nat) : Bool :=
  match s.execs[e]? with
  | none => false
  | some ex =>
    decide (ex.backend = p.b) && regCleanOn D p s && nsClean p s && xmdClean p (effXmd s ex)
      && ex.job.isEmpty && ex.found.all (fun f => decide (f.1 ∉ akeys p.xadd))

/-! ### benign operations -/

/-- did this recorded translation get as far as `reset()` -/
def reachedStage (s : HState) (ex : Exec) (md : List MdItem) (r : TRes) : Option Stage :=
  let m := mdRun (effXmd s ex) ⟨s.reg, s.ns, []⟩ md 0
  match m.2 with
  | some _ => none
  | none => some (stageOf r.tag (wrongBackend ex.backend m.1.specs))

def specsOfRun (s : HState) (ex : Exec) (md : List MdItem) : List Spec :=
  (mdRun (effXmd s ex) ⟨s.reg, s.ns, []⟩ md 0).1.specs

/-- Operations after which a probe on a NEW executor is provably unaffected.  Excluded (each with a
counterexample theorem and a finding):
 * creating an executor of another backend whose defaults the probe looks up;
   (`add_extended_md` on ANY executor is benign since fix cfca57a: `addXmd_invisible_to_new_executors`)
 * a translation defining an enum below a name the probe resolves (never reset);
 * a translation that does NOT reach `reset()` and declared a method type the probe looks up;
 * a translation reaching `reset()` on another backend whose defaults the probe looks up. -/
def benignNew (D : Defaults) (p : Probe) (s : HState) : OpO → Bool
  | .new b' => decide (b' = p.b) || p.q.keys.all (fun k => decide (k ∉ dkeys D b'))
  | .addXmd _ _ => true
  | .translate e _ md r =>
    match s.execs[e]? with
    | none => true
    | some ex =>
      (enumTops md).all (fun t => decide (t ∉ p.q.names.map some)) &&
      (if reachedStage s ex md r = some .done then
         decide (ex.backend = p.b) || p.q.keys.all (fun k => decide (k ∉ dkeys D ex.backend))
       else p.q.keys.all (fun k => decide (k ∉ declKeys md)))

/-- What is needed in addition for a probe on the EXISTING executor `e₀`.  Excluded:
 * a successful translation on another backend when the probe looks up its own backend's defaults
   (the reset installs the other backend's defaults);
 * `add_extended_md` on `e₀` itself with a kind the probe's metadata uses;
 * a translation on `e₀` that found extended metadata of a kind the probe asks for (never reset);
 * a translation on `e₀` that failed in `write_cpp_files` after appending job-script blocks. -/
def benignOn (D : Defaults) (p : Probe) (e₀ : Nat) (s : HState) : OpO → Bool
  | .new b' => decide (s.execs.length ≠ e₀) || decide (b' = p.b)   -- `e₀` is an executor of the probe's backend
  | .addXmd e x => decide (e ≠ e₀) || (mdKinds p.md).all (fun k => decide (k ∉ akeys x))
  | .translate e _ md r =>
    match s.execs[e]? with
    | none => true
    | some ex =>
      match reachedStage s ex md r with
      | none => true
      | some st =>
        (decide (st ≠ .done) || decide (ex.backend = p.b) || p.q.keys.all (fun k => decide (k ∉ dkeys D p.b))) &&
        (decide (e ≠ e₀) ||
          ((decide (st = .transform) || (xitemsOf (specsOfRun s ex md)).all (fun f => decide (f.1 ∉ akeys p.xadd))) &&
           (decide (st ≠ .write) || (jobsOf (specsOfRun s ex md)).isEmpty)))

def benignRunNew (D : Defaults) (p : Probe) : HState → List OpO → Bool
  | _, [] => true
  | s, o :: h => benignNew D p s o && benignRunNew D p (stepO D s o) h

def benignRunOn (D : Defaults) (p : Probe) (e₀ : Nat) : HState → List OpO → Bool
  | _, [] => true
  | s, o :: h => benignNew D p s o && benignOn D p e₀ s o && benignRunOn D p e₀ (stepO D s o) h

/-! ### observed results: equality up to renumbering of generated names -/

def isIdChar (c : Char) : Bool := c.isAlphanum || c == '_'

/-- maximal runs of identifier characters; every other non-blank character is its own token -/
def tokensAux : List Char → List Char → List String → List String
  | [], cur, acc => (if cur.isEmpty then acc else String.ofList cur.reverse :: acc).reverse
  | c :: cs, cur, acc =>
    if isIdChar c then tokensAux cs (c :: cur) acc
    else
      let acc := if cur.isEmpty then acc else String.ofList cur.reverse :: acc
      if c.isWhitespace then tokensAux cs [] acc else tokensAux cs [] (String.singleton c :: acc)

def tokens (s : String) : List String := tokensAux s.toList [] []

/-- the token without its trailing digits -/
def stem (t : String) : String := String.ofList (t.toList.reverse.dropWhile Char.isDigit).reverse

/-- an identifier that ends in a number: the only shape `unique_name` produces -/
def numbered (t : String) : Bool :=
  match t.toList with
  | [] => false
  | c :: _ => (c.isAlpha || c == '_') && (t.toList.getLast?.map Char.isDigit).getD false

/-- extend the renaming `m` (fresh ↦ after) by the pair `(a, b)`; `none` = no bijection exists -/
def stepMap (m : List (String × String)) (a b : String) : Option (List (String × String)) :=
  if numbered a && numbered b then
    match m.find? (fun e => e.1 == a) with
    | some e => if e.2 == b then some m else none
    | none =>
      match m.find? (fun e => e.2 == b) with
      | some _ => none
      | none => if stem a == stem b then some ((a, b) :: m) else none
  else if a == b then some m else none

def agreeTokens : List String → List String → List (String × String) → Option (List (String × String))
  | [], [], m => some m
  | a :: as, b :: bs, m =>
    match stepMap m a b with
    | none => none
    | some m' => agreeTokens as bs m'
  | _, _, _ => none

def hasDigit (s : String) : Bool := s.any Char.isDigit

def agreeLines : List String → List String → List (String × String) → Option (List (String × String))
  | [], [], m => some m
  | a :: as, b :: bs, m =>
    if a == b && !hasDigit a then agreeLines as bs m
    else
      match agreeTokens (tokens a) (tokens b) m with
      | none => none
      | some m' => agreeLines as bs m'
  | _, _, _ => none

/-- one rendered file: name and lines -/
abbrev FileObs := String × List String

def agreeFiles : List FileObs → List FileObs → List (String × String) → Option (List (String × String))
  | [], [], m => some m
  | (n₁, l₁) :: fs, (n₂, l₂) :: gs, m =>
    if n₁ == n₂ then
      match agreeLines l₁ l₂ m with
      | none => none
      | some m' => agreeFiles fs gs m'
    else none
  | _, _, _ => none

/-- what one translation shows to its caller: how it ended (`"ok"` or stage + exception class),
the rendered files, and what `extended_md(k)` reports for the kinds the caller registered -/
structure Obs where
  kind : String
  files : List FileObs
  found : List String
deriving DecidableEq, Repr

/-- THE oracle: same ending, same files up to ONE bijective renumbering of generated names across
all files, same extended metadata found -/
def agreeObs (fresh after : Obs) : Bool :=
  fresh.kind == after.kind && fresh.found == after.found && (agreeFiles fresh.files after.files []).isSome

/-- first line that cannot be matched (for the report) -/
def firstDiff : List FileObs → List FileObs → List (String × String) → String
  | [], [], _ => ""
  | (n₁, l₁) :: fs, (n₂, l₂) :: gs, m =>
    if n₁ != n₂ then s!"file {n₁} vs {n₂}"
    else
      let rec go : List String → List String → List (String × String) → Nat → String ⊕ List (String × String)
        | [], [], m, _ => .inr m
        | a :: as, b :: bs, m, i =>
          match agreeLines [a] [b] m with
          | none => .inl s!"{n₁}:{i + 1}: fresh `{a.trimAscii}` / after `{b.trimAscii}`"
          | some m' => go as bs m' (i + 1)
        | _, _, _, i => .inl s!"{n₁}: different number of lines (from line {i + 1})"
      match go l₁ l₂ m 0 with
      | .inl d => d
      | .inr m' => firstDiff fs gs m'
  | _, _, _ => "different number of files"

/-- the model's result as an observation (the package is one opaque text) -/
def obsOfResult (r : Result) : Obs :=
  { kind := match r.1 with
      | .ok _ => "ok" | .noExec => "noExec" | .mdError i => s!"md:{i}" | .transformError e => "transform:" ++ e
      | .wrongBackend => "wrong-backend" | .finderError e => "finder:" ++ e | .writeError e => "write:" ++ e,
    files := match r.1 with | .ok f => [("package", [f])] | _ => [],
    found := r.2.map fun f => f.1 ++ "|" ++ f.2.1 ++ "|" ++ f.2.2 }

/-! ### witnesses of the counterexample theorems -/
namespace Witness

/-- toy defaults tables (the counterexamples do not depend on the real ones) -/
def D₀ : Defaults
  | .atlas => [(("xAOD::TruthParticle", "prodVtx"), "terminal|xAODTruth::TruthVertex*")]
  | .cmsAod => [(("reco::Muon", "globalTrack"), "terminal|reco::Track*")]
  | .cmsMiniaod => [(("pat::Muon", "globalTrack"), "terminal|reco::TrackRef*")]

/-- a translator whose output column has the type the registry gives for `k` (`double` if none) -/
def Tkey (k : Key) : Translator := fun _ _ v =>
  match alookup v.regAt k with
  | some (some info) => ⟨.ok, info, 0⟩
  | _ => ⟨.ok, "double", 0⟩

/-- a translator that can render `<t>.….<value>` only if some enum below `t` has that value -/
def Tenum (t value : String) : Translator := fun _ _ v =>
  match alookup v.nsAt t with
  | some n => if n.enums.any (fun e => decide (value ∈ e.2)) then ⟨.ok, "enum value rendered", 0⟩ else ⟨.failWrite, "RuntimeError", 0⟩
  | none => ⟨.failWrite, "RuntimeError", 0⟩

/-- a translator that copies the accumulated job-script blocks into the package -/
def Tjob : Translator := fun _ _ v =>
  if v.job.isEmpty then ⟨.ok, "no job-script lines", 0⟩ else ⟨.ok, "job-script lines", 0⟩

/-- a translator that ignores everything -/
def Tconst : Translator := fun _ _ _ => ⟨.ok, "", 0⟩

def okRes : TRes := ⟨.ok, "", 0⟩
def failWriteRes : TRes := ⟨.failWrite, "AssertionError", 0⟩

def jetPt : Query := ⟨"atlas.jets_pt", [("xAOD::Jet", "pt")], []⟩
def badWrite : Query := ⟨"atlas.bad_write", [], []⟩
def enumQ : Query := ⟨"atlas.enum_red", [("xAOD::Jet", "color")], ["xAOD"]⟩
def enumBlueQ : Query := ⟨"atlas.enum_blue", [("xAOD::Jet", "color")], ["xAOD"]⟩
def customMuQ : Query := ⟨"atlas.custom_muon_track", [("reco::Muon", "globalTrack"), ("reco::Track", "pt")], []⟩
def recoMuColl : MdItem := .collection "atlas" "RecoMuons" ""
def truthQ : Query := ⟨"atlas.truth_vtx", [("xAOD::TruthParticle", "prodVtx"), ("xAODTruth::TruthVertex", "x")], []⟩
def muonPt : Query := ⟨"cms_aod.muons_pt", [("reco::Muon", "pt")], []⟩

def ptInt : MdItem := .methodType "xAOD::Jet" "pt" "terminal|int"
def colorEnum : MdItem := .defineEnum ["xAOD", "Jet"] "Color" ["Red", "Blue"]
def colorEnumRedOnly : MdItem := .defineEnum ["xAOD", "Jet"] "Color" ["Red"]
def jobBlk : MdItem := .jobScript "blk" ["LEAKED_LINE = 1"] []
def dockerMd : MdItem := .extended "docker" "{\"image\": \"evil\"}"

/-- (a) a translation that declared `xAOD::Jet::pt -> int` fails in `write_cpp_files`; the next,
unrelated query on a new executor sees the declaration -/
def failedDecl : List OpO × Probe :=
  ([.new .atlas, .translate 0 badWrite [ptInt] failWriteRes], ⟨.atlas, [], jetPt, []⟩)

/-- (a') the same when the failure is raised by `process_metadata` itself, after the declaration -/
def failedDeclMd : List OpO × Probe :=
  ([.new .atlas, .translate 0 jetPt [ptInt, .bad] okRes], ⟨.atlas, [], jetPt, []⟩)

/-- (b) an enum defined by an earlier (successful) query is visible to every later query -/
def enumStays : List OpO × Probe :=
  ([.new .atlas, .translate 0 jetPt [colorEnum] okRes], ⟨.atlas, [], enumQ, []⟩)

/-- (b') and the first definition wins: the later query's own definition is ignored -/
def enumFirstWins : List OpO × Probe :=
  ([.new .atlas, .translate 0 jetPt [colorEnumRedOnly] okRes], ⟨.atlas, [], enumBlueQ, [colorEnum]⟩)

/-- (c) a successful translation on a CMS executor installs the CMS defaults; the live ATLAS
executor has lost its own -/
def crossBackendReset : (List OpO × Probe) × Nat :=
  (([.new .atlas, .new .cmsAod, .translate 1 muonPt [] okRes], ⟨.atlas, [], truthQ, []⟩), 0)

/-- (c') creating a CMS executor leaves the CMS defaults in the registry an ATLAS query reads -/
def crossBackendNew : List OpO × Probe :=
  ([.new .cmsAod], ⟨.atlas, [], customMuQ, [recoMuColl]⟩)

/-- (d) REPAIRED (fix cfca57a): `add_extended_md` on a never-reset executor used to write into the
constructor's default dict, so that every executor created later accepted that metadata kind; the
history is kept as the literal of `shared_default_repaired` -/
def sharedDefault : List OpO × Probe :=
  ([.new .atlas, .addXmd 0 [("docker", "[\"docker\", \"img\"]")]], ⟨.atlas, [], jetPt, [dockerMd]⟩)

/-- (e) `_found_extended_md` is never reset: the executor reports the previous query's image -/
def foundStays : (List OpO × Probe) × Nat :=
  (([.new .atlas, .addXmd 0 [("docker", "[\"docker\", \"img\"]")], .translate 0 jetPt [dockerMd] okRes],
    ⟨.atlas, [("docker", "[\"docker\", \"img\"]")], jetPt, []⟩), 0)

/-- (f) job-script blocks appended by a translation that then fails in `write_cpp_files` are
emitted with the next query of the same executor -/
def jobBlocksStay : (List OpO × Probe) × Nat :=
  (([.new .atlas, .translate 0 badWrite [jobBlk] failWriteRes], ⟨.atlas, [], jetPt, []⟩), 0)

/-- (a'') extended metadata registered on an (already reset) executor survives a failed translation -/
def xmdStays : (List OpO × Probe) × Nat :=
  (([.new .atlas, .translate 0 jetPt [] okRes, .addXmd 0 [("docker", "[\"docker\", \"img\"]")],
     .translate 0 badWrite [] failWriteRes], ⟨.atlas, [], jetPt, [dockerMd]⟩), 0)

/-- (h) REPAIRED (fix 1c4553a): the caller's AST object translated a second time used to have lost
its `MetaData` nodes (the declaration `xAOD::Jet::pt → int` was not seen again); the history is kept
as the literal of `reused_ast_repaired` -/
def reusedAst : (List OpO × Probe) × Nat :=
  (([.new .atlas, .translate 0 jetPt [ptInt] okRes], ⟨.atlas, [], jetPt, [ptInt]⟩), 0)

end Witness

/-- shape of a history + probe: everything except opaque payload strings (used by the driver to
check that a replayed finding is the witness of the theorem of the same name) -/
def shapeOfMd : MdItem → String
  | .methodType ty m _ => s!"mt({ty},{m})"
  | .defineEnum ns n vs => s!"enum({ns},{n},{vs})"
  | .inject n _ => s!"inject({n})"
  | .jobScript n _ _ => s!"job({n})"
  | .cppFunction n _ => s!"func({n})"
  | .collection b n _ => s!"coll({b},{n})"
  | .extended k _ => s!"ext({k})"
  | .bad => "bad"

def tagName : TTag → String
  | .ok => "ok" | .failTransform => "failTransform" | .failFinder => "failFinder" | .failWrite => "failWrite"

def shapeOfOp : OpO → String
  | .new b => s!"new({b.tag})"
  | .addXmd e x => s!"addx({e},{akeys x})"
  | .translate e q md r => s!"tr({e},{q.id},{md.map shapeOfMd},{tagName r.tag})"

def shapeOf (h : List OpO) (p : Probe) (on : Option Nat) : List String :=
  h.map shapeOfOp ++ [s!"probe({p.b.tag},{on},{akeys p.xadd},{p.q.id},{p.md.map shapeOfMd})"]

end FaxVerif.C07
