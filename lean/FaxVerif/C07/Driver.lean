/-
C07 driver: one JSON request per line on stdin, one JSON answer per line on stdout.

  {"op":"run","history":[OP..],"probe":PROBE,"on":null|n}
      OP    = {"o":"new","b":B} | {"o":"addx","e":n,"x":[[kind,proto]..]}
            | {"o":"tr","e":n,"q":{"id":..,"keys":[[ty,m]..],"names":[..]},"md":[MD..],"r":{"tag":..,"payload":..,"ticks":n}}
      MD    = {"k":"mt","ty","m","info"} | {"k":"enum","ns":[..],"name","vals":[..]} | {"k":"inject","name","body"}
            | {"k":"job","name","script":[..],"deps":[..]} | {"k":"func","name","body"} | {"k":"coll","backend","name","body"}
            | {"k":"ext","kind","fields"} | {"k":"bad"}
      PROBE = {"b":B,"x":[[kind,proto]..],"q":{..},"md":[..],"r":{..}}        (r = what the translator proper answered)
              optional "reused":true — the probe's AST object (or a sub-tree of it) was translated before: the model
              translates `reuseProbe` of it (the identity since fix 1c4553a)
      optional "states":[STATE ..]  — the IMPLEMENTATION's observed state after each operation.  When given, operation k
      is simulated from the observed state before it (one-step simulation), otherwise from the model's own previous state.
      -> {"steps":[{"asis":STATE,"ideal":STATE,"outcome":..,"benignNew":bool,"benignOn":bool}..],"allBenign":bool,
          "clean":bool,"probe":{"outcome":..,"found":[[kind,proto,fields]..],"asis":STATE,"ideal":STATE}}
      "asis" = the model of the code as it is; "ideal" = the same operation if every translation ended with a full reset
      (registry, namespaces, executor lists, extended-metadata dict, found metadata of this translation only):
      the harness accepts either, component by component, so that a repair of a listed leak is not an alarm.
  {"op":"agree","fresh":OBS,"after":OBS}   OBS = {"kind":..,"files":[[name,[lines]]..],"found":[..]}
      -> {"holds":bool,"why":..}
  {"op":"witness","name":..,"history":[..],"probe":..,"on":..} -> {"match":bool,"expected":[..],"got":[..]}
  {"op":"uname","name":..,"idx":n,"cls":bool} -> {"name": model of cpp_vars.unique_name}

The defaults tables are the ones regenerated from /repo (Generated/C07Defaults.lean).
Run: lake env lean --run FaxVerif/C07/Driver.lean
-/
import Lean.Data.Json
import FaxVerif.C07.Spec
import FaxVerif.Generated.C07Defaults
open Lean FaxVerif.C07

def Dreal : Defaults
  | .atlas => FaxVerif.Generated.C07.defaultsAtlas
  | .cmsAod => FaxVerif.Generated.C07.defaultsCmsAod
  | .cmsMiniaod => FaxVerif.Generated.C07.defaultsCmsMiniaod

def strList (j : Json) : Except String (List String) := do
  (← j.getArr?).toList.mapM (·.getStr?)

def getS (j : Json) (k : String) : Except String String := do (← j.getObjVal? k).getStr?
def getN (j : Json) (k : String) : Except String Nat := do (← j.getObjVal? k).getNat?
def getL (j : Json) (k : String) : Except String (List Json) := do pure (← (← j.getObjVal? k).getArr?).toList

def pairList (j : Json) : Except String (List (String × String)) := do
  (← j.getArr?).toList.mapM fun p => do
    let a ← p.getArr?
    if a.size != 2 then throw "pair expected"
    pure (← a[0]!.getStr?, ← a[1]!.getStr?)

def parseBackend (s : String) : Except String Backend :=
  if s == "atlas" then pure .atlas else if s == "cms_aod" then pure .cmsAod
  else if s == "cms_miniaod" then pure .cmsMiniaod else throw s!"backend {s}"

def parseMd (j : Json) : Except String MdItem := do
  let k ← getS j "k"
  if k == "mt" then pure (.methodType (← getS j "ty") (← getS j "m") (← getS j "info"))
  else if k == "enum" then pure (.defineEnum (← strList (← j.getObjVal? "ns")) (← getS j "name") (← strList (← j.getObjVal? "vals")))
  else if k == "inject" then pure (.inject (← getS j "name") (← getS j "body"))
  else if k == "job" then pure (.jobScript (← getS j "name") (← strList (← j.getObjVal? "script")) (← strList (← j.getObjVal? "deps")))
  else if k == "func" then pure (.cppFunction (← getS j "name") (← getS j "body"))
  else if k == "coll" then pure (.collection (← getS j "backend") (← getS j "name") (← getS j "body"))
  else if k == "ext" then pure (.extended (← getS j "kind") (← getS j "fields"))
  else if k == "bad" then pure .bad
  else throw s!"md kind {k}"

def parseQuery (j : Json) : Except String Query := do
  pure ⟨← getS j "id", ← pairList (← j.getObjVal? "keys"), ← strList (← j.getObjVal? "names")⟩

def parseTag (s : String) : Except String TTag :=
  if s == "ok" then pure .ok else if s == "failTransform" then pure .failTransform
  else if s == "failFinder" then pure .failFinder else if s == "failWrite" then pure .failWrite else throw s!"tag {s}"

def parseRes (j : Json) : Except String TRes := do
  pure ⟨← parseTag (← getS j "tag"), ← getS j "payload", ← getN j "ticks"⟩

def parseOp (j : Json) : Except String OpO := do
  let o ← getS j "o"
  if o == "new" then pure (.new (← parseBackend (← getS j "b")))
  else if o == "addx" then pure (.addXmd (← getN j "e") (← pairList (← j.getObjVal? "x")))
  else if o == "tr" then
    pure (.translate (← getN j "e") (← parseQuery (← j.getObjVal? "q")) (← (← getL j "md").mapM parseMd) (← parseRes (← j.getObjVal? "r")))
  else throw s!"op {o}"

def parseProbe (j : Json) : Except String (Probe × TRes) := do
  let p : Probe := ⟨← parseBackend (← getS j "b"), ← pairList (← j.getObjVal? "x"), ← parseQuery (← j.getObjVal? "q"),
    ← (← getL j "md").mapM parseMd⟩
  pure (p, ← parseRes (← j.getObjVal? "r"))

def parseOn (j : Json) : Option Nat :=
  match j.getObjVal? "on" with
  | .ok v => v.getNat?.toOption
  | .error _ => none

def jstrs (l : List String) : Json := Json.arr (l.map Json.str).toArray
def jpairs (l : List (String × String)) : Json := Json.arr (l.map fun p => jstrs [p.1, p.2]).toArray

def execJson (ex : Exec) : Json :=
  Json.mkObj [("b", ex.backend.tag),
    ("job", Json.arr (ex.job.map fun b => Json.arr #[Json.str b.name, jstrs b.script, jstrs b.deps]).toArray),
    ("inject", jpairs ex.inject), ("xmd", jpairs ex.xmd),
    ("found", Json.arr (ex.found.map fun f => jstrs [f.1, f.2.1, f.2.2]).toArray)]

def stateJson (s : HState) : Json :=
  Json.mkObj [("reg", Json.arr (s.reg.map fun e => jstrs [e.1.1, e.1.2, e.2]).toArray),
    ("spaces", Json.arr (s.ns.spaces.map jstrs).toArray),
    ("enums", Json.arr (s.ns.enums.map fun e => Json.arr #[jstrs e.1.1, Json.str e.1.2, jstrs e.2]).toArray),
    ("execs", Json.arr (s.execs.map execJson).toArray),
    ("counter", s.counter)]

def outcomeName : Outcome → String
  | .noExec => "noExec" | .mdError i => s!"md:{i}" | .transformError _ => "transform" | .wrongBackend => "wrong-backend"
  | .finderError _ => "finder" | .writeError _ => "write" | .ok _ => "ok"

def opOutcome (s : HState) : OpO → String
  | .new _ => "new"
  | .addXmd _ _ => "addx"
  | .translate e q md r => outcomeName (translateWith Dreal (fun _ => r) s e q md).2

def tripleList (j : Json) : Except String (List (String × String × String)) := do
  (← j.getArr?).toList.mapM fun p => do
    let a ← p.getArr?
    if a.size != 3 then throw "triple expected"
    pure (← a[0]!.getStr?, ← a[1]!.getStr?, ← a[2]!.getStr?)

def parseExec (j : Json) : Except String Exec := do
  let job ← (← getL j "job").mapM fun b => do
    let a ← b.getArr?
    if a.size != 3 then throw "job = [name, script, deps]"
    pure (⟨← a[0]!.getStr?, ← strList a[1]!, ← strList a[2]!⟩ : JobBlock)
  pure ⟨← parseBackend (← getS j "b"), job, ← pairList (← j.getObjVal? "inject"),
    ← pairList (← j.getObjVal? "xmd"), ← tripleList (← j.getObjVal? "found")⟩

def parseState (j : Json) : Except String HState := do
  let reg ← (← tripleList (← j.getObjVal? "reg")).mapM fun t => pure ((t.1, t.2.1), t.2.2)
  let spaces ← (← getL j "spaces").mapM strList
  let enums ← (← getL j "enums").mapM fun e => do
    let a ← e.getArr?
    if a.size != 3 then throw "enum = [path, name, values]"
    pure ((← strList a[0]!, ← a[1]!.getStr?), ← strList a[2]!)
  pure ⟨reg, ⟨spaces, enums⟩, ← (← getL j "execs").mapM parseExec, ← getN j "counter"⟩

/-- the operation as a fully repaired library would perform it (see the header) -/
def idealStep (s : HState) : OpO → HState
  | .new b => newExec Dreal s b
  | .addXmd e x => addXmd s e x
  | .translate e q md r =>
    match s.execs[e]? with
    | none => s
    | some ex =>
      let t := translateWith Dreal (fun _ => r) s e q md
      let m := mdRun (effXmd s ex) ⟨s.reg, s.ns, []⟩ md 0
      let reached : Bool := match m.2 with
        | some _ => false
        | none => stageOf r.tag (wrongBackend ex.backend m.1.specs) != .transform
      let nf := if reached then xitemsOf m.1.specs else []
      { t.1 with reg := defaultsReg Dreal ex.backend, ns := NsReg.empty,
                 execs := s.execs.set e { ex with job := [], inject := [], xmd := [], found := nf } }

structure RunAcc where
  s : HState
  steps : List Json := []
  bNew : List Bool := []
  bOn : List Bool := []

def runAll (p : Probe) (on : Option Nat) : List OpO → List HState → RunAcc → RunAcc
  | [], _, a => a
  | o :: h, obs, a =>
    let s' := stepO Dreal a.s o
    let bn : Bool := benignNew Dreal p a.s o
    let bo : Bool := match on with | some e => benignOn Dreal p e a.s o | none => true
    let step := Json.mkObj [("asis", stateJson s'), ("ideal", stateJson (idealStep a.s o)), ("outcome", opOutcome a.s o),
      ("benignNew", Json.bool bn), ("benignOn", Json.bool bo)]
    -- continue from the implementation's observed state when there is one
    let (next, rest) := match obs with | x :: xs => (x, xs) | [] => (s', [])
    runAll p on h rest { s := next, steps := a.steps ++ [step], bNew := a.bNew ++ [bn], bOn := a.bOn ++ [bo] }

def doRun (j : Json) : Except String Json := do
  let h ← (← getL j "history").mapM parseOp
  let (p₀, r) ← parseProbe (← j.getObjVal? "probe")
  -- "reused": the probe hands over an AST object an earlier operation of the history already translated
  let reused := match (← j.getObjVal? "probe").getObjVal? "reused" with
    | .ok v => v.getBool?.toOption.getD false
    | .error _ => false
  let p := if reused then reuseProbe p₀ else p₀
  let on := parseOn j
  let obs ← match j.getObjVal? "states" with
    | .ok v => (← v.getArr?).toList.mapM parseState
    | .error _ => pure []
  let a := runAll p on h obs { s := s₀ }
  let s := a.s
  -- the probe, with the translator's recorded answer
  let e := match on with | some e => e | none => s.execs.length
  let run (stp : HState → OpO → HState) : HState :=
    let s1 := match on with | some _ => s | none => stp s (.new p.b)
    let s2 := stp s1 (.addXmd e p.xadd)
    stp s2 (.translate e p.q p.md r)
  let s1 := match on with | some _ => s | none => newExec Dreal s p.b
  let s2 := addXmd s1 e p.xadd
  let t := translateWith Dreal (fun _ => r) s2 e p.q p.md
  let clean := match on with | some e => cleanOn Dreal p s e | none => cleanNew Dreal p s
  pure (Json.mkObj [("steps", Json.arr a.steps.toArray),
    ("allBenign", a.bNew.all id && a.bOn.all id), ("clean", clean),
    ("probe", Json.mkObj [("outcome", outcomeName t.2),
       ("found", Json.arr ((foundFor p t.1 e).map fun f => jstrs [f.1, f.2.1, f.2.2]).toArray),
       ("asis", stateJson (run (stepO Dreal))), ("ideal", stateJson (run idealStep))])])

def parseObs (j : Json) : Except String Obs := do
  let files ← (← getL j "files").mapM fun f => do
    let a ← f.getArr?
    if a.size != 2 then throw "file = [name, lines]"
    pure (← a[0]!.getStr?, ← strList a[1]!)
  pure ⟨← getS j "kind", files, ← strList (← j.getObjVal? "found")⟩

def doAgree (j : Json) : Except String Json := do
  let f ← parseObs (← j.getObjVal? "fresh")
  let a ← parseObs (← j.getObjVal? "after")
  if agreeObs f a then pure (Json.mkObj [("holds", true), ("why", "")])
  else
    let why :=
      if f.kind != a.kind then s!"ending differs: fresh `{f.kind}` / after the history `{a.kind}`"
      else if f.found != a.found then s!"extended metadata found differs: fresh {f.found} / after the history {a.found}"
      else firstDiff f.files a.files []
    pure (Json.mkObj [("holds", false), ("why", why)])

def witnessByName (n : String) : Option (List OpO × Probe × Option Nat) :=
  let w2 (x : List OpO × Probe) := some (x.1, x.2, none)
  let w3 (x : (List OpO × Probe) × Nat) := some (x.1.1, x.1.2, some x.2)
  if n == "failedDecl" then w2 Witness.failedDecl
  else if n == "failedDeclMd" then w2 Witness.failedDeclMd
  else if n == "enumStays" then w2 Witness.enumStays
  else if n == "enumFirstWins" then w2 Witness.enumFirstWins
  else if n == "crossBackendReset" then w3 Witness.crossBackendReset
  else if n == "crossBackendNew" then w2 Witness.crossBackendNew
  else if n == "sharedDefault" then w2 Witness.sharedDefault
  else if n == "foundStays" then w3 Witness.foundStays
  else if n == "jobBlocksStay" then w3 Witness.jobBlocksStay
  else if n == "xmdStays" then w3 Witness.xmdStays
  else if n == "reusedAst" then w3 Witness.reusedAst
  else none

def doWitness (j : Json) : Except String Json := do
  let h ← (← getL j "history").mapM parseOp
  let (p, _) ← parseProbe (← j.getObjVal? "probe")
  let on := parseOn j
  let got := shapeOf h p on
  match witnessByName (← getS j "name") with
  | none => pure (Json.mkObj [("match", false), ("expected", jstrs ["<no such witness>"]), ("got", jstrs got)])
  | some (wh, wp, won) =>
    let exp := shapeOf wh wp won
    pure (Json.mkObj [("match", exp == got), ("expected", jstrs exp), ("got", jstrs got)])

def handle (line : String) : String :=
  match Json.parse line with
  | .error e => (Json.mkObj [("bad", e)]).compress
  | .ok j =>
    let r : Except String Json := do
      let op ← getS j "op"
      if op == "run" then doRun j
      else if op == "agree" then doAgree j
      else if op == "witness" then doWitness j
      else if op == "uname" then
        pure (Json.mkObj [("name", uniqueName (← getS j "name") (← getN j "idx") (← (← j.getObjVal? "cls").getBool?))])
      else throw s!"unknown op {op}"
    match r with
    | .ok j => j.compress
    | .error e => (Json.mkObj [("bad", e)]).compress

partial def loopIO (h : IO.FS.Stream) (out : IO.FS.Stream) : IO Unit := do
  let line ← h.getLine
  if line.isEmpty then return ()
  let t := line.trimAscii.toString
  if !t.isEmpty then out.putStrLn (handle t)
  loopIO h out

def main : IO Unit := do
  let out ← IO.getStdout
  loopIO (← IO.getStdin) out
  out.flush
