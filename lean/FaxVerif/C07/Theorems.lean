/-
C07 — property theorems.

Statement of the property (full strength):
    ∀ D T (h : List OpO) (p : Probe), runProbeNew D T (runO D h s₀) p = freshResult D T p
    ∀ D T h p e, (runO D h s₀).execs[e]? has backend p.b → runProbeOn D T (runO D h s₀) p e = freshResult D T p
It is FALSE of the code as it stands (ten `leak_counterexample_*` theorems below, each replayed on
the real code and listed in known_findings.jsonl).  What is proved is the statement for every
history all of whose operations are benign for the probe (`benignNew`, `benignOn`: decidable, the
excluded clauses are exactly the counterexample classes), for every translator function `T` and
every defaults table `D`; plus the repair theorems (`reset_restores`, `success_heals_partial`).
Helper lemmas live in `Proofs.lean`.
-/
import FaxVerif.C07.Proofs
namespace FaxVerif.C07

/-- **What the translator can see.**  Two situations (state, executor) in which the registry agrees
on the (type, method) pairs the probe looks up, the namespace registry agrees below the names it
resolves, the effective extended-metadata dict agrees on the kinds its metadata uses (and the caller
does not register itself), the executors have the same backend and the same accumulated job-script
blocks and have found the same extended metadata of the kinds asked for, give the same result —
whatever else differs (other registry entries, other executors, inject blocks, name counter) and
whatever the translator function is. -/
theorem result_depends_on_view_only (D : Defaults) (T : Translator) (p : Probe) (s₁ s₂ : HState)
    (e₁ e₂ : Nat) (ex₁ ex₂ : Exec)
    (h₁ : s₁.execs[e₁]? = some ex₁) (h₂ : s₂.execs[e₂]? = some ex₂)
    (hb : ex₁.backend = ex₂.backend) (hj : ex₁.job = ex₂.job)
    (hreg : ∀ k ∈ p.q.keys, alookup s₁.reg k = alookup s₂.reg k)
    (hns : ∀ t ∈ p.q.names, s₁.ns.restrict t = s₂.ns.restrict t)
    (hx : ∀ kind ∈ mdKinds p.md, kind ∉ akeys p.xadd → alookup (effXmd s₁ ex₁) kind = alookup (effXmd s₂ ex₂) kind)
    (hf : ex₁.found.filter (fun f => decide (f.1 ∈ akeys p.xadd)) = ex₂.found.filter (fun f => decide (f.1 ∈ akeys p.xadd))) :
    runProbeOn D T s₁ p e₁ = runProbeOn D T s₂ p e₂ :=
  probe_congr D T p s₁ s₂ e₁ e₂ ex₁ ex₂ h₁ h₂ hb hj hreg hns hx hf

/-- **Clean state ⇒ fresh result (new executor).**  If nothing the probe can see has been left
behind (`cleanNew`: decidable), translating it on a newly created executor gives exactly what the
first query of a fresh process gives. -/
theorem clean_new_indep (D : Defaults) (T : Translator) (p : Probe) (s : HState)
    (hc : cleanNew D p s = true) : runProbeNew D T s p = freshResult D T p := by
  obtain ⟨hr, hn⟩ := (cleanNew_iff D p s).1 hc
  rw [regCleanNew_iff] at hr; rw [nsClean_iff] at hn
  unfold freshResult runProbeNew
  apply probe_congr D T p (newExec D s p.b) (newExec D s₀ p.b) s.execs.length s₀.execs.length
    ⟨p.b, [], [], [], []⟩ ⟨p.b, [], [], [], []⟩
  · simp [newExec]
  · simp [newExec, s₀]
  · rfl
  · rfl
  · intro k hk
    show alookup (ainsertAll s.reg (D p.b)) k = alookup (ainsertAll s₀.reg (D p.b)) k
    by_cases hd : k ∈ dkeys D p.b
    · exact alookup_ainsertAll_of_mem (D p.b) _ _ k hd
    · rw [alookup_ainsertAll_of_not_mem (D p.b) _ k hd, alookup_ainsertAll_of_not_mem (D p.b) _ k hd]
      rcases hr k hk with h | h
      · exact absurd h hd
      · rw [h]; rfl
  · intro t ht
    show s.ns.restrict t = s₀.ns.restrict t
    rw [hn t ht]; rfl
  · intro kind _ _; rfl
  · rfl

theorem cleanOn_iff (D : Defaults) (p : Probe) (s : HState) (e : Nat) :
    cleanOn D p s e = true ↔ ∃ ex, s.execs[e]? = some ex ∧ ex.backend = p.b ∧ regCleanOn D p s = true ∧
      nsClean p s = true ∧ xmdClean p (effXmd s ex) = true ∧ ex.job = [] ∧ ∀ f ∈ ex.found, f.1 ∉ akeys p.xadd := by
  unfold cleanOn
  cases h : s.execs[e]? with
  | none => simp
  | some ex => simp [Bool.and_eq_true, List.all_eq_true, and_assoc, List.isEmpty_iff]

/-- **Clean state ⇒ fresh result (existing executor).** -/
theorem clean_on_indep (D : Defaults) (T : Translator) (p : Probe) (s : HState) (e : Nat)
    (hc : cleanOn D p s e = true) : runProbeOn D T s p e = freshResult D T p := by
  obtain ⟨ex, he, hb, hr, hn, hx, hj, hf⟩ := (cleanOn_iff D p s e).1 hc
  rw [regCleanOn_iff] at hr; rw [nsClean_iff] at hn; rw [xmdClean_iff] at hx
  unfold freshResult runProbeNew
  apply probe_congr D T p s (newExec D s₀ p.b) e s₀.execs.length ex ⟨p.b, [], [], [], []⟩ he
  · simp [newExec, s₀]
  · exact hb
  · exact hj
  · intro k hk
    rw [hr k hk]; rfl
  · intro t ht
    rw [hn t ht]; rfl
  · intro kind hk hnk
    rcases hx kind hk with h | h
    · exact absurd h hnk
    · rw [h]; rfl
  · have : ex.found.filter (fun f => decide (f.1 ∈ akeys p.xadd)) = [] := by
      apply List.filter_eq_nil_iff.2
      intro f hf'; simpa using hf f hf'
    rw [this]; rfl

/-- **Benign operations keep the state clean (new-executor probe).** -/
theorem benign_preserves_new (D : Defaults) (p : Probe) (s : HState) (o : OpO)
    (hc : cleanNew D p s = true) (hb : benignNew D p s o = true) : cleanNew D p (stepO D s o) = true := by
  obtain ⟨hr, hn⟩ := (cleanNew_iff D p s).1 hc
  rw [regCleanNew_iff] at hr; rw [nsClean_iff] at hn
  rw [cleanNew_iff, regCleanNew_iff, nsClean_iff]
  cases o with
  | new b' =>
    have hb' : b' = p.b ∨ ∀ k ∈ p.q.keys, k ∉ dkeys D b' := by
      simpa [benignNew, List.all_eq_true] using hb
    refine ⟨?_, hn⟩
    intro k hk
    by_cases hd : k ∈ dkeys D p.b
    · exact Or.inl hd
    · right
      have hnb : k ∉ dkeys D b' := by
        rcases hb' with h | h
        · rw [h]; exact hd
        · exact h k hk
      show alookup (ainsertAll s.reg (D b')) k = none
      rw [alookup_ainsertAll_of_not_mem (D b') _ k hnb]
      rcases hr k hk with h | h
      · exact absurd h hd
      · exact h
  | addXmd e x =>
    cases he : s.execs[e]? with
    | none => simp only [stepO, addXmd, he]; exact ⟨hr, hn⟩
    | some ex =>
      have e1 : stepO D s (.addXmd e x) = { s with execs := s.execs.set e { ex with xmd := ainsertAll ex.xmd x } } := by
        simp only [stepO, addXmd, he]
      rw [e1]; exact ⟨hr, hn⟩
  | translate e q md r =>
    cases he : s.execs[e]? with
    | none => rw [stepO_translate_noExec D s e q md r he]; exact ⟨hr, hn⟩
    | some ex =>
      obtain ⟨fn, fr, _⟩ := stepO_translate_fields D s e q md r ex he
      have hb' : (∀ t ∈ enumTops md, t ∉ p.q.names.map some) ∧
          (if reachedStage s ex md r = some .done then
             (ex.backend = p.b ∨ ∀ k ∈ p.q.keys, k ∉ dkeys D ex.backend)
           else ∀ k ∈ p.q.keys, k ∉ declKeys md) := by
        have := hb
        simp only [benignNew, he, Bool.and_eq_true, List.all_eq_true, decide_eq_true_eq] at this
        refine ⟨this.1, ?_⟩
        have h2 := this.2
        split at h2
        · rename_i hd; simp only [hd, if_true]
          simpa [List.all_eq_true] using h2
        · rename_i hd; simp only [hd, if_false]
          simpa [List.all_eq_true] using h2
      obtain ⟨hen, hreg⟩ := hb'
      rw [fn, fr]
      refine ⟨?_, ?_⟩
      · intro k hk
        by_cases hd : k ∈ dkeys D p.b
        · exact Or.inl hd
        · right
          have hsk : alookup s.reg k = none := by
            rcases hr k hk with h | h
            · exact absurd h hd
            · exact h
          by_cases hdone : reachedStage s ex md r = some .done
          · simp only [hdone, if_true] at hreg ⊢
            apply alookup_defaultsReg_of_not_mem
            rcases hreg with h | h
            · rw [h]; exact hd
            · exact h k hk
          · simp only [hdone, if_false] at hreg ⊢
            unfold mdOf
            rw [mdRun_reg _ md k _ 0 (hreg k hk)]; exact hsk
      · intro t ht
        unfold mdOf
        rw [mdRun_ns _ md t _ 0 ?_]
        · exact hn t ht
        · intro hc
          exact hen _ hc (List.mem_map.2 ⟨t, ht, rfl⟩)

/-- **Benign operations keep the state clean (probe on the existing executor `e₀`).** -/
theorem benign_preserves_on (D : Defaults) (p : Probe) (e₀ : Nat) (s : HState) (o : OpO)
    (hc : cleanOn D p s e₀ = true) (hb : benignNew D p s o = true) (hb2 : benignOn D p e₀ s o = true) :
    cleanOn D p (stepO D s o) e₀ = true := by
  obtain ⟨ex₀, he₀, hbk, hr, hn, hx, hj, hf⟩ := (cleanOn_iff D p s e₀).1 hc
  rw [regCleanOn_iff] at hr; rw [nsClean_iff] at hn; rw [xmdClean_iff] at hx
  rw [cleanOn_iff]
  cases o with
  | new b' =>
    have hb' : b' = p.b ∨ ∀ k ∈ p.q.keys, k ∉ dkeys D b' := by
      simpa [benignNew, List.all_eq_true] using hb
    refine ⟨ex₀, ?_, hbk, ?_, ?_, ?_, hj, hf⟩
    · show (s.execs ++ [_])[e₀]? = some ex₀
      rw [List.getElem?_append_left (lt_length_of_getElem? _ _ _ he₀)]; exact he₀
    · rw [regCleanOn_iff]
      intro k hk
      show alookup (ainsertAll s.reg (D b')) k = alookup (defaultsReg D p.b) k
      by_cases hd : k ∈ dkeys D b'
      · rcases hb' with h | h
        · rw [h] at hd ⊢
          exact alookup_ainsertAll_of_mem (D p.b) _ _ k hd
        · exact absurd hd (h k hk)
      · rw [alookup_ainsertAll_of_not_mem (D b') _ k hd]; exact hr k hk
    · rw [nsClean_iff]; exact hn
    · rw [xmdClean_iff]; exact hx
  | addXmd e x =>
    cases he : s.execs[e]? with
    | none =>
      have e1 : stepO D s (.addXmd e x) = s := by simp only [stepO, addXmd, he]
      rw [e1]; exact ⟨ex₀, he₀, hbk, (regCleanOn_iff D p s).2 hr, (nsClean_iff p s).2 hn, (xmdClean_iff p _).2 hx, hj, hf⟩
    | some ex =>
      have e1 : stepO D s (.addXmd e x) = { s with execs := s.execs.set e { ex with xmd := ainsertAll ex.xmd x } } := by
        simp only [stepO, addXmd, he]
      rw [e1]
      by_cases hee : e = e₀
      · subst hee
        have hex : ex = ex₀ := by rw [he] at he₀; exact Option.some.inj he₀
        subst hex
        have hb' : ∀ k ∈ mdKinds p.md, k ∉ akeys x := by
          simpa [benignOn, List.all_eq_true] using hb2
        refine ⟨_, getElem?_set_self' _ _ _ _ he, hbk, (regCleanOn_iff D p _).2 hr, (nsClean_iff p _).2 hn, ?_, hj, hf⟩
        rw [xmdClean_iff]
        intro k hk
        rcases hx k hk with h | h
        · exact Or.inl h
        · right
          simp only [effXmd] at h ⊢
          rw [alookup_ainsertAll_of_not_mem x _ k (hb' k hk)]; exact h
      · refine ⟨ex₀, ?_, hbk, (regCleanOn_iff D p _).2 hr, (nsClean_iff p _).2 hn, (xmdClean_iff p _).2 hx, hj, hf⟩
        show (s.execs.set e _)[e₀]? = some ex₀
        rw [getElem?_set_ne' _ _ _ _ hee]; exact he₀
  | translate e q md r =>
    cases he : s.execs[e]? with
    | none =>
      rw [stepO_translate_noExec D s e q md r he]
      exact ⟨ex₀, he₀, hbk, (regCleanOn_iff D p s).2 hr, (nsClean_iff p s).2 hn, (xmdClean_iff p _).2 hx, hj, hf⟩
    | some ex =>
      obtain ⟨fn, fr, fe⟩ := stepO_translate_fields D s e q md r ex he
      have hb' : (∀ t ∈ enumTops md, t ∉ p.q.names.map some) ∧
          (if reachedStage s ex md r = some .done then
             (ex.backend = p.b ∨ ∀ k ∈ p.q.keys, k ∉ dkeys D ex.backend)
           else ∀ k ∈ p.q.keys, k ∉ declKeys md) := by
        have := hb
        simp only [benignNew, he, Bool.and_eq_true, List.all_eq_true, decide_eq_true_eq] at this
        refine ⟨this.1, ?_⟩
        have h2 := this.2
        split at h2
        · rename_i hd; simp only [hd, if_true]
          simpa [List.all_eq_true] using h2
        · rename_i hd; simp only [hd, if_false]
          simpa [List.all_eq_true] using h2
      obtain ⟨hen, hreg⟩ := hb'
      -- registry and namespaces
      have hreg' : regCleanOn D p (stepO D s (.translate e q md r)) = true := by
        rw [regCleanOn_iff, fr]
        intro k hk
        by_cases hdone : reachedStage s ex md r = some .done
        · simp only [hdone, if_true] at hreg ⊢
          have hb3 : ex.backend = p.b ∨ ∀ k ∈ p.q.keys, k ∉ dkeys D p.b := by
            have := hb2
            simp only [benignOn, he, hdone, Bool.and_eq_true, Bool.or_eq_true, decide_eq_true_eq, List.all_eq_true] at this
            rcases this.1 with (h | h) | h
            · exact absurd rfl h
            · exact Or.inl h
            · exact Or.inr h
          rcases hb3 with h | h
          · rw [h]
          · rcases hreg with h' | h'
            · rw [h']
            · rw [alookup_defaultsReg_of_not_mem D _ k (h' k hk), alookup_defaultsReg_of_not_mem D _ k (h k hk)]
        · simp only [hdone, if_false] at hreg ⊢
          unfold mdOf
          rw [mdRun_reg _ md k _ 0 (hreg k hk)]; exact hr k hk
      have hns' : nsClean p (stepO D s (.translate e q md r)) = true := by
        rw [nsClean_iff, fn]
        intro t ht
        unfold mdOf
        rw [mdRun_ns _ md t _ 0 ?_]
        · exact hn t ht
        · intro hc'
          exact hen _ hc' (List.mem_map.2 ⟨t, ht, rfl⟩)
      -- the executor
      cases hst : reachedStage s ex md r with
      | none =>
        rw [hst] at fe
        refine ⟨ex₀, by rw [fe]; exact he₀, hbk, hreg', hns', ?_, hj, hf⟩
        rw [effXmd_congr s _ ex₀ ex₀ rfl]; exact (xmdClean_iff p _).2 hx
      | some st =>
        rw [hst] at fe
        by_cases hee : e = e₀
        · subst hee
          have hex : ex = ex₀ := by rw [he] at he₀; exact Option.some.inj he₀
          subst hex
          have hb3 : (st = .transform ∨ ∀ f ∈ xitemsOf (specsOfRun s ex md), f.1 ∉ akeys p.xadd) ∧
              (st ≠ .write ∨ jobsOf (specsOfRun s ex md) = []) := by
            have := hb2
            simp only [benignOn, he, hst, Bool.and_eq_true, Bool.or_eq_true, decide_eq_true_eq, List.all_eq_true,
              List.isEmpty_iff, ne_eq, not_true_eq_false, false_or] at this
            exact this.2
          refine ⟨execAfter ex st (specsOfRun s ex md), by rw [fe]; exact getElem?_set_self' _ _ _ _ he,
            by rw [execAfter_backend]; exact hbk, hreg', hns', ?_, ?_, ?_⟩
          · rw [xmdClean_iff]
            intro k hk
            by_cases hdn : st = .done
            · subst hdn
              right; simp [effXmd, execAfter, alookup]
            · have x2 := execAfter_xmd ex st (specsOfRun s ex md) hdn
              rw [effXmd_congr s _ ex _ x2]
              exact hx k hk
          · rw [execAfter_job]
            cases st with
            | transform => exact hj
            | finder => exact hj
            | write =>
              rcases hb3.2 with h | h
              · exact absurd rfl h
              · simp [hj, h]
            | done => rfl
          · rw [execAfter_found]
            split
            · exact hf
            · rename_i hnt
              intro f hf'
              rcases List.mem_append.1 hf' with h | h
              · exact hf f h
              · rcases hb3.1 with h' | h'
                · exact absurd h' hnt
                · exact h' f h
        · refine ⟨ex₀, ?_, hbk, hreg', hns', ?_, hj, hf⟩
          · rw [fe, getElem?_set_ne' _ _ _ _ hee]; exact he₀
          · rw [effXmd_congr s _ ex₀ ex₀ rfl]; exact (xmdClean_iff p _).2 hx

theorem s₀_cleanNew (D : Defaults) (p : Probe) : cleanNew D p s₀ = true := by
  rw [cleanNew_iff, regCleanNew_iff, nsClean_iff]
  exact ⟨fun _ _ => Or.inr rfl, fun _ _ => rfl⟩

theorem benignRun_preserves_new (D : Defaults) (p : Probe) :
    ∀ (h : List OpO) (s : HState), cleanNew D p s = true → benignRunNew D p s h = true →
      cleanNew D p (runO D h s) = true := by
  intro h
  induction h with
  | nil => intro s hc _; exact hc
  | cons o h ih =>
    intro s hc hb
    simp only [benignRunNew, Bool.and_eq_true] at hb
    exact ih _ (benign_preserves_new D p s o hc hb.1) hb.2

/-- **History independence, new executor (partial).**  FULL STATEMENT (false, see the
counterexamples): `∀ h p, runProbeNew D T (runO D h s₀) p = freshResult D T p`.
PROVED: for every defaults table, every translator function, every probe and every finite history
of operations — new executors of any backend, `add_extended_md`, translations with any metadata
ending in success or in a failure at any stage — all of which are benign for the probe
(`benignRunNew`, decidable), the probe translated on a new executor gives exactly the result of a
fresh process.  MISSING: the operations `benignNew` excludes; each excluded clause is a
`leak_counterexample_*` below. -/
theorem history_indep_partial (D : Defaults) (T : Translator) (h : List OpO) (p : Probe)
    (hb : benignRunNew D p s₀ h = true) : HistoryIndependentNew D T h p :=
  clean_new_indep D T p _ (benignRun_preserves_new D p h s₀ (s₀_cleanNew D p) hb)

/-- creating the executor the probe will run on, in a clean state, gives a clean executor -/
theorem cleanOn_of_new (D : Defaults) (p : Probe) (s : HState) (hc : cleanNew D p s = true) :
    cleanOn D p (newExec D s p.b) s.execs.length = true := by
  obtain ⟨hr, hn⟩ := (cleanNew_iff D p s).1 hc
  rw [regCleanNew_iff] at hr; rw [nsClean_iff] at hn
  rw [cleanOn_iff]
  refine ⟨⟨p.b, [], [], [], []⟩, by simp [newExec], rfl, ?_, (nsClean_iff p _).2 hn,
    (xmdClean_iff p _).2 (fun _ _ => Or.inr rfl), rfl, by simp⟩
  rw [regCleanOn_iff]
  intro k hk
  show alookup (ainsertAll s.reg (D p.b)) k = alookup (defaultsReg D p.b) k
  by_cases hd : k ∈ dkeys D p.b
  · exact alookup_ainsertAll_of_mem (D p.b) _ _ k hd
  · rw [alookup_ainsertAll_of_not_mem (D p.b) _ k hd, alookup_defaultsReg_of_not_mem D _ k hd]
    rcases hr k hk with h | h
    · exact absurd h hd
    · exact h

theorem benignRun_preserves_on (D : Defaults) (p : Probe) (e₀ : Nat) :
    ∀ (h : List OpO) (s : HState), cleanNew D p s = true → (e₀ < s.execs.length → cleanOn D p s e₀ = true) →
      benignRunOn D p e₀ s h = true →
      cleanNew D p (runO D h s) = true ∧ (e₀ < (runO D h s).execs.length → cleanOn D p (runO D h s) e₀ = true) := by
  intro h
  induction h with
  | nil => intro s hc ho _; exact ⟨hc, ho⟩
  | cons o h ih =>
    intro s hc ho hb
    simp only [benignRunOn, Bool.and_eq_true] at hb
    obtain ⟨⟨hb1, hb2⟩, hb3⟩ := hb
    refine ih _ (benign_preserves_new D p s o hc hb1) ?_ hb3
    intro hlt
    by_cases hl : e₀ < s.execs.length
    · exact benign_preserves_on D p e₀ s o (ho hl) hb1 hb2
    · have hlen := stepO_length D s o
      cases o with
      | new b' =>
        simp only at hlen
        have heq : s.execs.length = e₀ := by omega
        have hbk : b' = p.b := by
          simp only [benignOn, Bool.or_eq_true, decide_eq_true_eq] at hb2
          rcases hb2 with h | h
          · exact absurd heq h
          · exact h
        subst hbk; subst heq
        exact cleanOn_of_new D p s hc
      | addXmd e x => simp only at hlen; omega
      | translate e q md r => simp only at hlen; omega

/-- **History independence, existing executor (partial).**  FULL STATEMENT (false):
`∀ h p e, e is an executor of p's backend → runProbeOn D T (runO D h s₀) p e = freshResult D T p`.
PROVED: the same for every history all of whose operations satisfy `benignNew` and `benignOn … e`
(decidable): the probe translated on the executor `e` that has lived through the whole history —
with its earlier successes and failures — gives exactly the result of a fresh process. -/
theorem history_indep_on_partial (D : Defaults) (T : Translator) (h : List OpO) (p : Probe) (e : Nat)
    (hb : benignRunOn D p e s₀ h = true) (he : e < (runO D h s₀).execs.length) :
    HistoryIndependentOn D T h p e :=
  clean_on_indep D T p _ e ((benignRun_preserves_on D p e h s₀ (s₀_cleanNew D p) (by simp [s₀]) hb).2 he)

/-! ### the same with the translator answering along the way -/

theorem translateWith_answerOf (D : Defaults) (T : Translator) (s : HState) (e : Nat) (q : Query) (md : List MdItem) :
    translateWith D (fun _ => answerOf T s e q md) s e q md = translateWith D (T q md) s e q md := by
  cases he : s.execs[e]? with
  | none => rw [translateWith_noExec D _ s e q md he, translateWith_noExec D _ s e q md he]
  | some ex =>
    cases hm : (mdOf s ex md).2 with
    | some i => rw [translateWith_mdFail D _ s e q md ex i he hm, translateWith_mdFail D _ s e q md ex i he hm]
    | none =>
      have ha : answerOf T s e q md =
          T q md (mkView ex.backend q (mdOf s ex md).1 (ex.job ++ jobsOf (mdOf s ex md).1.specs)) := by
        simp only [answerOf, he]; rfl
      rw [translateWith_run D _ s e q md ex he hm, translateWith_run D _ s e q md ex he hm]
      simp only [ha]

theorem run_eq_runO_record (D : Defaults) (T : Translator) :
    ∀ (h : List Op) (s : HState), run D T h s = runO D (record D T h s) s := by
  intro h
  induction h with
  | nil => intro s; rfl
  | cons o h ih =>
    intro s
    cases o with
    | new b => simp only [run, record, runO, step, stepO]; exact ih _
    | addXmd e x => simp only [run, record, runO, step, stepO]; exact ih _
    | translate e q md =>
      simp only [run, record, runO, stepO, translateWith_answerOf]
      exact ih _

/-- **History independence with the translator in the loop (partial).**  The earlier
translations succeed or fail as the translator function `T` itself decides in the state it finds
(so an earlier leak may change an earlier outcome); if the history with those outcomes written down
is benign for the probe, the probe's result is the fresh result. -/
theorem history_indep_T_partial (D : Defaults) (T : Translator) (h : List Op) (p : Probe)
    (hb : benignRunNew D p s₀ (record D T h s₀) = true) :
    runProbeNew D T (run D T h s₀) p = freshResult D T p := by
  rw [run_eq_runO_record]
  exact history_indep_partial D T _ p hb

/-! ### what `reset()` repairs -/

theorem stage_of_ok (r : TRes) (w : Bool) (f : String) (h : outcomeOf r w = .ok f) : stageOf r.tag w = .done := by
  unfold outcomeOf at h
  unfold stageOf
  cases ht : r.tag <;> cases w <;> simp_all

/-- **`reset()` after a successful translation.**  Whatever the state was before (any registry
contents left by any history): after a translation on executor `e` that ended `ok`, the registry is
exactly the backend's defaults, the executor has no job-script blocks, no inject blocks, an
empty extended-metadata dict; other executors are untouched.  NOT
restored: `_found_extended_md` (only grows) and the namespace/enum registry. -/
theorem reset_restores (D : Defaults) (o : View → TRes) (s : HState) (e : Nat) (q : Query) (md : List MdItem)
    (ex : Exec) (f : String) (he : s.execs[e]? = some ex) (hok : (translateWith D o s e q md).2 = .ok f) :
    (translateWith D o s e q md).1.reg = defaultsReg D ex.backend ∧
    (translateWith D o s e q md).1.execs[e]? =
      some { ex with job := [], inject := [], xmd := [],
                     found := ex.found ++ xitemsOf (mdOf s ex md).1.specs } ∧
    (translateWith D o s e q md).1.ns = (mdOf s ex md).1.ns ∧
    ∀ e', e ≠ e' → (translateWith D o s e q md).1.execs[e']? = s.execs[e']? := by
  cases hm : (mdOf s ex md).2 with
  | some i => rw [translateWith_mdFail D o s e q md ex i he hm] at hok; cases hok
  | none =>
    rw [translateWith_run D o s e q md ex he hm] at hok ⊢
    have hst := stage_of_ok _ _ f hok
    refine ⟨by simp only [hst, if_true], ?_, rfl, ?_⟩
    · show (s.execs.set e _)[e]? = _
      rw [getElem?_set_self' _ _ _ _ he, hst]; rfl
    · intro e' hne; exact getElem?_set_ne' _ _ _ _ hne

/-- **…hence the next query on that executor is translated as in a fresh process.**  After a
translation that ended `ok` — in ANY earlier state — a probe of the executor's backend on the same
executor gives the fresh result, provided only that no enum is defined below a name it resolves and
the executor has not found extended metadata of a kind the caller asks for (the two things
`reset()` does not restore). -/
theorem reset_restores_result (D : Defaults) (T : Translator) (o : View → TRes) (s : HState) (e : Nat) (q : Query)
    (md : List MdItem) (ex : Exec) (f : String) (p : Probe)
    (he : s.execs[e]? = some ex) (hok : (translateWith D o s e q md).2 = .ok f) (hb : ex.backend = p.b)
    (hns : nsClean p (translateWith D o s e q md).1 = true)
    (hfound : ∀ x ∈ ex.found ++ xitemsOf (mdOf s ex md).1.specs, x.1 ∉ akeys p.xadd) :
    runProbeOn D T (translateWith D o s e q md).1 p e = freshResult D T p := by
  obtain ⟨hr, hx, _, _⟩ := reset_restores D o s e q md ex f he hok
  apply clean_on_indep
  rw [cleanOn_iff]
  refine ⟨_, hx, hb, ?_, hns, ?_, rfl, hfound⟩
  · rw [regCleanOn_iff]; intro k _; rw [hr, hb]
  · rw [xmdClean_iff]; intro k _; right; simp [effXmd, alookup]

/-- **One success heals the registry (partial).**  Take ANY state `s` — reached by any history
whatsoever, with any leaked method types — in which no enum has been defined below a name the
probe resolves.  After one
recorded translation that reaches `reset()` on an executor of the probe's backend (and defines no
such enum itself), every benign continuation leaves the probe's result equal to the fresh one. -/
theorem success_heals_partial (D : Defaults) (T : Translator) (p : Probe) (s : HState) (e : Nat) (q : Query)
    (md : List MdItem) (r : TRes) (ex : Exec) (h₂ : List OpO)
    (he : s.execs[e]? = some ex) (hbk : ex.backend = p.b) (hdone : reachedStage s ex md r = some .done)
    (hen : ∀ t ∈ enumTops md, t ∉ p.q.names.map some)
    (hn : nsClean p s = true)
    (hb : benignRunNew D p (stepO D s (.translate e q md r)) h₂ = true) :
    runProbeNew D T (runO D (.translate e q md r :: h₂) s) p = freshResult D T p := by
  apply clean_new_indep
  apply benignRun_preserves_new D p h₂ _ _ hb
  obtain ⟨fn, fr, _⟩ := stepO_translate_fields D s e q md r ex he
  rw [cleanNew_iff, regCleanNew_iff, nsClean_iff, fn, fr]
  rw [nsClean_iff] at hn
  refine ⟨?_, ?_⟩
  · intro k hk
    by_cases hd : k ∈ dkeys D p.b
    · exact Or.inl hd
    · right
      simp only [hdone, if_true]
      rw [hbk]; exact alookup_defaultsReg_of_not_mem D _ k hd
  · intro t ht
    unfold mdOf
    rw [mdRun_ns _ md t _ 0 ?_]
    · exact hn t ht
    · intro hc
      exact hen _ hc (List.mem_map.2 ⟨t, ht, rfl⟩)

/-! ### state that never reaches the translator -/

/-- **Inject blocks never leak**: `_inject_blocks` is replaced by every `apply_ast_transformations`
before `write_cpp_files` reads it; whatever an earlier (failed) translation left there is invisible. -/
theorem inject_never_leaks (D : Defaults) (T : Translator) (p : Probe) (s : HState) (e : Nat) (ex : Exec)
    (inj : List (String × String)) (he : s.execs[e]? = some ex) :
    runProbeOn D T { s with execs := s.execs.set e { ex with inject := inj } } p e = runProbeOn D T s p e := by
  exact probe_congr D T p { s with execs := s.execs.set e { ex with inject := inj } } s e e
    { ex with inject := inj } ex (getElem?_set_self' _ _ _ _ he) he rfl rfl
    (fun _ _ => rfl) (fun _ _ => rfl) (fun _ _ _ => rfl) rfl

/-- **The name counter is never read by the model's view**: results are independent of
`unique_var_index` (the oracle compares generated files up to renumbering for exactly this reason). -/
theorem counter_never_read (D : Defaults) (T : Translator) (p : Probe) (s : HState) (e : Nat) (ex : Exec) (n : Nat)
    (he : s.execs[e]? = some ex) :
    runProbeOn D T { s with counter := n } p e = runProbeOn D T s p e := by
  exact probe_congr D T p { s with counter := n } s e e ex ex he he rfl rfl
    (fun _ _ => rfl) (fun _ _ => rfl) (fun _ _ _ => rfl) rfl

/-! ### the oracle -/

/-- **The oracle accepts equal observations**: `agreeObs` (equality up to ONE bijective renumbering
of generated names over all files, same ending, same extended metadata found) is reflexive — so it
never rejects a result for being compared with itself, whatever text the files contain. -/
theorem agreeObs_refl (o : Obs) : agreeObs o o = true := by
  obtain ⟨m, hm, _⟩ := agreeFiles_refl o.files [] (fun _ h => by cases h)
  simp [agreeObs, hm]

/-- **The theorem in the oracle's terms**: after a benign history the probe's observation agrees
(`agreeObs`, the predicate the harness evaluates on the IMPLEMENTATION's fresh-interpreter and
after-history outputs) with the fresh one. -/
theorem history_indep_agree_partial (D : Defaults) (T : Translator) (h : List OpO) (p : Probe)
    (hb : benignRunNew D p s₀ h = true) :
    agreeObs (obsOfResult (freshResult D T p)) (obsOfResult (runProbeNew D T (runO D h s₀) p)) = true := by
  rw [history_indep_partial D T h p hb]; exact agreeObs_refl _

/-! ### the full statement is false of the code: one counterexample per excluded class

Each history below is replayed against the real code on every run (known_findings.jsonl, field
`witness`); the driver checks that the replayed history has the shape of the literal used here. -/

open Witness in
/-- (a) A translation that declared `xAOD::Jet::pt → int` and then failed in `write_cpp_files`
(so `reset()` was skipped) changes the next, unrelated query on a NEW executor. -/
theorem leak_counterexample_failed_translation :
    ∃ D T h p, ¬ HistoryIndependentNew D T h p :=
  ⟨D₀, Tkey ("xAOD::Jet", "pt"), failedDecl.1, failedDecl.2, by unfold HistoryIndependentNew; decide⟩

open Witness in
/-- (a') The same when `process_metadata` itself raises after having applied the declaration. -/
theorem leak_counterexample_failed_metadata :
    ∃ D T h p, ¬ HistoryIndependentNew D T h p :=
  ⟨D₀, Tkey ("xAOD::Jet", "pt"), failedDeclMd.1, failedDeclMd.2, by unfold HistoryIndependentNew; decide⟩

open Witness in
/-- (b) An enum defined by an earlier SUCCESSFUL query stays defined: a later query that uses the
enum without declaring it translates instead of being refused. -/
theorem leak_counterexample_enum :
    ∃ D T h p, ¬ HistoryIndependentNew D T h p :=
  ⟨D₀, Tenum "xAOD" "Red", enumStays.1, enumStays.2, by unfold HistoryIndependentNew; decide⟩

open Witness in
/-- (b') …and the first definition wins: a later query that declares the enum with more values is
refused because its own declaration is ignored. -/
theorem leak_counterexample_enum_first_wins :
    ∃ D T h p, ¬ HistoryIndependentNew D T h p :=
  ⟨D₀, Tenum "xAOD" "Blue", enumFirstWins.1, enumFirstWins.2, by unfold HistoryIndependentNew; decide⟩

open Witness in
/-- (c) A successful translation on a CMS executor resets the registry to the CMS defaults: the
live ATLAS executor has lost `xAOD::TruthParticle::prodVtx`. -/
theorem leak_counterexample_cross_backend_reset :
    ∃ D T h p e, e < (runO D h s₀).execs.length ∧ ¬ HistoryIndependentOn D T h p e :=
  ⟨D₀, Tkey ("xAOD::TruthParticle", "prodVtx"), crossBackendReset.1.1, crossBackendReset.1.2, crossBackendReset.2,
    by decide, by unfold HistoryIndependentOn; decide⟩

open Witness in
/-- (c') Creating a CMS executor leaves the CMS defaults in the registry every later ATLAS query reads. -/
theorem leak_counterexample_cross_backend_new :
    ∃ D T h p, ¬ HistoryIndependentNew D T h p :=
  ⟨D₀, Tkey ("reco::Muon", "globalTrack"), crossBackendNew.1, crossBackendNew.2, by unfold HistoryIndependentNew; decide⟩

theorem addXmd_reg_ns (s : HState) (e : Nat) (x : Xmd) :
    (addXmd s e x).reg = s.reg ∧ (addXmd s e x).ns = s.ns ∧ (addXmd s e x).execs.length = s.execs.length := by
  unfold addXmd
  cases s.execs[e]? <;> simp

/-- (d, REPAIRED by fix cfca57a) **`add_extended_md` is invisible to every executor created
later.**  Whatever the state, whichever executor (reset or never reset) and whatever kinds are
registered: a probe translated on a NEW executor afterwards gives exactly what it gives without the
registration — for every translator.  (Before the fix the registration went into the constructor's
shared default dict: `leak_counterexample_shared_default`, now false.) -/
theorem addXmd_invisible_to_new_executors (D : Defaults) (T : Translator) (s : HState) (e : Nat) (x : Xmd) (p : Probe) :
    runProbeNew D T (addXmd s e x) p = runProbeNew D T s p := by
  obtain ⟨hreg, hns, hlen⟩ := addXmd_reg_ns s e x
  unfold runProbeNew
  apply probe_congr D T p (newExec D (addXmd s e x) p.b) (newExec D s p.b) (addXmd s e x).execs.length s.execs.length
    ⟨p.b, [], [], [], []⟩ ⟨p.b, [], [], [], []⟩
  · simp [newExec]
  · simp [newExec]
  · rfl
  · rfl
  · intro k _
    show alookup (ainsertAll (addXmd s e x).reg (D p.b)) k = alookup (ainsertAll s.reg (D p.b)) k
    rw [hreg]
  · intro t _
    show (addXmd s e x).ns.restrict t = s.ns.restrict t
    rw [hns]
  · intro _ _ _; rfl
  · rfl

open Witness in
/-- …in particular the history of the former finding `sharedDefault` (an `add_extended_md` of kind
`docker` on a never-reset executor, then a probe with `docker` metadata on a new executor) now
satisfies the property: the probe is refused exactly as in a fresh process. -/
theorem shared_default_repaired (T : Translator) : HistoryIndependentNew D₀ T sharedDefault.1 sharedDefault.2 :=
  history_indep_partial D₀ T sharedDefault.1 sharedDefault.2 (by decide)

open Witness in
/-- (e) `_found_extended_md` is never reset: the executor reports the previous query's item. -/
theorem leak_counterexample_found_md :
    ∃ D T h p e, e < (runO D h s₀).execs.length ∧ ¬ HistoryIndependentOn D T h p e :=
  ⟨D₀, Tconst, foundStays.1.1, foundStays.1.2, foundStays.2, by decide, by unfold HistoryIndependentOn; decide⟩

open Witness in
/-- (f) Job-script blocks appended before a failure in `write_cpp_files` are emitted with the next
query of that executor. -/
theorem leak_counterexample_job_blocks :
    ∃ D T h p e, e < (runO D h s₀).execs.length ∧ ¬ HistoryIndependentOn D T h p e :=
  ⟨D₀, Tjob, jobBlocksStay.1.1, jobBlocksStay.1.2, jobBlocksStay.2, by decide, by unfold HistoryIndependentOn; decide⟩

open Witness in
/-- (a'') Extended metadata registered on an executor survives a failed translation: the next
query on it may use a metadata kind a fresh process refuses. -/
theorem leak_counterexample_extended_md :
    ∃ D T h p e, e < (runO D h s₀).execs.length ∧ ¬ HistoryIndependentOn D T h p e :=
  ⟨D₀, Tconst, xmdStays.1.1, xmdStays.1.2, xmdStays.2, by decide, by unfold HistoryIndependentOn; decide⟩

/-! ### the caller's AST object translated again -/

/-- **Translating the same AST object again (existing executor, partial).**  Handing an AST object
that earlier operations of the history already translated — as it is, or as a sub-tree of other
queries derived from it; they are ordinary `.translate` entries of `h`, successful or failed, on
this or on other executors — to the executor `e` gives exactly what a fresh process gives for the
query, WITH its metadata, under the same hypotheses as `history_indep_on_partial` (`reuseProbe` is
the identity since fix 1c4553a; the hypothesis `p.md = []` of the earlier version is gone). -/
theorem retranslation_indep_on_partial (D : Defaults) (T : Translator) (h : List OpO) (p : Probe) (e : Nat)
    (hb : benignRunOn D p e s₀ h = true) (he : e < (runO D h s₀).execs.length) :
    runProbeOn D T (runO D h s₀) (reuseProbe p) e = freshResult D T p :=
  history_indep_on_partial D T h p e hb he

/-- **…and on a new executor (partial).** -/
theorem retranslation_indep_new_partial (D : Defaults) (T : Translator) (h : List OpO) (p : Probe)
    (hb : benignRunNew D p s₀ h = true) :
    runProbeNew D T (runO D h s₀) (reuseProbe p) = freshResult D T p :=
  history_indep_partial D T h p hb

open Witness in
/-- (h, REPAIRED by fix 1c4553a) the history of the former finding `reusedAst` — the object that
declares `xAOD::Jet::pt → int` translated once, then handed to the same executor again — now
satisfies the property for every translator: the second translation sees the declaration again. -/
theorem reused_ast_repaired (T : Translator) :
    runProbeOn D₀ T (runO D₀ reusedAst.1.1 s₀) (reuseProbe reusedAst.1.2) reusedAst.2 = freshResult D₀ T reusedAst.1.2 :=
  retranslation_indep_on_partial D₀ T reusedAst.1.1 reusedAst.1.2 reusedAst.2 (by decide) (by decide)

/-- (g) The name counter does NOT "only rename": `unique_name` concatenates name and index, so the
columns `x1` (drawn at counter 1, as in a fresh process) and `x` (drawn ten names later) get the SAME
member `_x11`; twelve names later in the life of the process (`_x113`, `_x23`) they are distinct.  The
package of such a query is not the same up to renumbering in a fresh and in an old process.  The
model's `View` leaves the counter out, i.e. the theorems above assume a query whose generated names
do not collide (listed finding `nameCounter`, replayed on the real code). -/
theorem leak_counterexample_name_counter :
    uniqueName "x1" 1 true = uniqueName "x" 11 true ∧ uniqueName "x1" 13 true ≠ uniqueName "x" 23 true := by
  decide

/-! ### non-vacuity: the hypotheses are satisfiable by histories that really do something -/

open Witness in
/-- a query WITH metadata whose object was translated twice before (once successfully, once on a
second executor), with an `add_extended_md` of the probe's own kind on that other (never-reset)
executor in between, satisfies the hypotheses of `retranslation_indep_on_partial` -/
example : benignRunOn D₀ ⟨.atlas, [], jetPt, [ptInt, dockerMd]⟩ 0 s₀
    [.new .atlas, .translate 0 jetPt [ptInt] okRes, .new .atlas, .addXmd 1 [("docker", "[\"docker\", \"img\"]")],
     .translate 1 jetPt [ptInt] okRes] = true := by decide

open Witness in
/-- a history with a declaration on the probe's own key that succeeds, a failure in
`process_metadata`, a failure in `write_cpp_files` and a second executor is benign for the probe -/
example : benignRunNew D₀ ⟨.atlas, [], jetPt, []⟩ s₀
    [.new .atlas, .translate 0 jetPt [ptInt, jobBlk] okRes, .translate 0 jetPt [.methodType "xAOD::Jet" "eta" "terminal|int", .bad] okRes,
     .translate 0 badWrite [jobBlk, .inject "blk" "x"] failWriteRes, .new .atlas,
     .translate 1 jetPt [.methodType "xAOD::Jet" "eta" "terminal|int"] failWriteRes] = true := by decide

open Witness in
/-- and the same for a probe on executor 0 (which has had a success, a metadata failure and a
failed write without job blocks) -/
example : benignRunOn D₀ ⟨.atlas, [], jetPt, []⟩ 0 s₀
    [.new .atlas, .translate 0 jetPt [ptInt, jobBlk] okRes, .translate 0 jetPt [.methodType "xAOD::Jet" "eta" "terminal|int", .bad] okRes,
     .translate 0 badWrite [.inject "blk" "x"] failWriteRes, .new .cmsAod,
     .translate 1 muonPt [] okRes] = true := by decide

open Witness in
/-- every witness of a counterexample is outside the hypotheses (the exclusions are not wider than needed
for these) -/
example : benignRunNew D₀ failedDecl.2 s₀ failedDecl.1 = false ∧ benignRunNew D₀ enumStays.2 s₀ enumStays.1 = false ∧
    benignRunNew D₀ crossBackendNew.2 s₀ crossBackendNew.1 = false ∧
    benignRunOn D₀ crossBackendReset.1.2 0 s₀ crossBackendReset.1.1 = false ∧
    benignRunOn D₀ jobBlocksStay.1.2 0 s₀ jobBlocksStay.1.1 = false ∧
    benignRunOn D₀ foundStays.1.2 0 s₀ foundStays.1.1 = false := by decide

end FaxVerif.C07
