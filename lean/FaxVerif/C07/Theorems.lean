/-
C07 — property theorems.

Statement of the property (full strength):
    ∀ D T (h : List OpO) (p : Probe), runProbeNew D T (runO D h s₀) p = freshResult D T p
    ∀ D T h p e, (runO D h s₀).execs[e]? has backend p.b → runProbeOn D T (runO D h s₀) p e = freshResult D T p
It is FALSE of the code as it stands (ten `leak_counterexample_*` theorems below, each replayed on
the real code and listed in known_findings.jsonl).  What is proved is the statement for every
history all of whose operations are benign for the probe (`benignNew`, `benignOn`: decidable, the
excluded clauses are exactly the counterexample classes), for every translator function `T` and
every defaults table `D`; plus the repair theorems (`reset_restores`, `success_heals_partial`).
Helper lemmas live in `Proofs.lean`.
-/
import FaxVerif.C07.Proofs
namespace FaxVerif.C07

/-- **What the translator can see.**  Two situations (state, executor) in which the registry agrees
on the (type, method) pairs the probe looks up, the namespace registry agrees below the names it
resolves, the effective extended-metadata dict agrees on the kinds its metadata uses (and the caller
does not register itself), the executors have the same backend and the same accumulated job-script
blocks and have found the same extended metadata of the kinds asked for, give the same result —
whatever else differs (other registry entries, other executors, inject blocks, name counter) and
whatever the translator function is. -/
theorem result_depends_on_view_only (D : Defaults) (T : Translator) (p : Probe) (s₁ s₂ : HState)
    (e₁ e₂ : Nat) (ex₁ ex₂ : Exec)
    (h₁ : s₁.execs[e₁]? = some ex₁) (h₂ : s₂.execs[e₂]? = some ex₂)
    (hb : ex₁.backend = ex₂.backend) (hj : ex₁.job = ex₂.job)
    (hreg : ∀ k ∈ p.q.keys, alookup s₁.reg k = alookup s₂.reg k)
    (hns : ∀ t ∈ p.q.names, s₁.ns.restrict t = s₂.ns.restrict t)
    (hx : ∀ kind ∈ mdKinds p.md, kind ∉ akeys p.xadd → alookup (effXmd s₁ ex₁) kind = alookup (effXmd s₂ ex₂) kind)
    (hf : ex₁.found.filter (fun f => decide (f.1 ∈ akeys p.xadd)) = ex₂.found.filter (fun f => decide (f.1 ∈ akeys p.xadd))) :
    runProbeOn D T s₁ p e₁ = runProbeOn D T s₂ p e₂ :=
  probe_congr D T p s₁ s₂ e₁ e₂ ex₁ ex₂ h₁ h₂ hb hj hreg hns hx hf

/-- **Clean state ⇒ fresh result (new executor).**  If nothing the probe can see has been left
behind (`cleanNew`: decidable), translating it on a newly created executor gives exactly what the
first query of a fresh process gives. -/
theorem clean_new_indep (D : Defaults) (T : Translator) (p : Probe) (s : HState)
    (hc : cleanNew D p s = true) : runProbeNew D T s p = freshResult D T p := by
  obtain ⟨hr, hn, hx⟩ := (cleanNew_iff D p s).1 hc
  rw [regCleanNew_iff] at hr; rw [nsClean_iff] at hn; rw [xmdClean_iff] at hx
  unfold freshResult runProbeNew
  apply probe_congr D T p (newExec D s p.b) (newExec D s₀ p.b) s.execs.length s₀.execs.length
    ⟨p.b, [], [], true, [], []⟩ ⟨p.b, [], [], true, [], []⟩
  · simp [newExec]
  · simp [newExec, s₀]
  · rfl
  · rfl
  · intro k hk
    show alookup (ainsertAll s.reg (D p.b)) k = alookup (ainsertAll s₀.reg (D p.b)) k
    by_cases hd : k ∈ dkeys D p.b
    · exact alookup_ainsertAll_of_mem (D p.b) _ _ k hd
    · rw [alookup_ainsertAll_of_not_mem (D p.b) _ k hd, alookup_ainsertAll_of_not_mem (D p.b) _ k hd]
      rcases hr k hk with h | h
      · exact absurd h hd
      · rw [h]; rfl
  · intro t ht
    show s.ns.restrict t = s₀.ns.restrict t
    rw [hn t ht]; rfl
  · intro kind hk hnk
    show alookup s.sharedXmd kind = alookup s₀.sharedXmd kind
    rcases hx kind hk with h | h
    · exact absurd h hnk
    · rw [h]; rfl
  · rfl

theorem cleanOn_iff (D : Defaults) (p : Probe) (s : HState) (e : Nat) :
    cleanOn D p s e = true ↔ ∃ ex, s.execs[e]? = some ex ∧ ex.backend = p.b ∧ regCleanOn D p s = true ∧
      nsClean p s = true ∧ xmdClean p (effXmd s ex) = true ∧ ex.job = [] ∧ ∀ f ∈ ex.found, f.1 ∉ akeys p.xadd := by
  unfold cleanOn
  cases h : s.execs[e]? with
  | none => simp
  | some ex => simp [Bool.and_eq_true, List.all_eq_true, and_assoc, List.isEmpty_iff]

/-- **Clean state ⇒ fresh result (existing executor).** -/
theorem clean_on_indep (D : Defaults) (T : Translator) (p : Probe) (s : HState) (e : Nat)
    (hc : cleanOn D p s e = true) : runProbeOn D T s p e = freshResult D T p := by
  obtain ⟨ex, he, hb, hr, hn, hx, hj, hf⟩ := (cleanOn_iff D p s e).1 hc
  rw [regCleanOn_iff] at hr; rw [nsClean_iff] at hn; rw [xmdClean_iff] at hx
  unfold freshResult runProbeNew
  apply probe_congr D T p s (newExec D s₀ p.b) e s₀.execs.length ex ⟨p.b, [], [], true, [], []⟩ he
  · simp [newExec, s₀]
  · exact hb
  · exact hj
  · intro k hk
    rw [hr k hk]; rfl
  · intro t ht
    rw [hn t ht]; rfl
  · intro kind hk hnk
    rcases hx kind hk with h | h
    · exact absurd h hnk
    · rw [h]; rfl
  · have : ex.found.filter (fun f => decide (f.1 ∈ akeys p.xadd)) = [] := by
      apply List.filter_eq_nil_iff.2
      intro f hf'; simpa using hf f hf'
    rw [this]; rfl

/-- **Benign operations keep the state clean (new-executor probe).** -/
theorem benign_preserves_new (D : Defaults) (p : Probe) (s : HState) (o : OpO)
    (hc : cleanNew D p s = true) (hb : benignNew D p s o = true) : cleanNew D p (stepO D s o) = true := by
  obtain ⟨hr, hn, hx⟩ := (cleanNew_iff D p s).1 hc
  rw [regCleanNew_iff] at hr; rw [nsClean_iff] at hn; rw [xmdClean_iff] at hx
  rw [cleanNew_iff, regCleanNew_iff, nsClean_iff, xmdClean_iff]
  cases o with
  | new b' =>
    have hb' : b' = p.b ∨ ∀ k ∈ p.q.keys, k ∉ dkeys D b' := by
      simpa [benignNew, List.all_eq_true] using hb
    refine ⟨?_, hn, hx⟩
    intro k hk
    by_cases hd : k ∈ dkeys D p.b
    · exact Or.inl hd
    · right
      have hnb : k ∉ dkeys D b' := by
        rcases hb' with h | h
        · rw [h]; exact hd
        · exact h k hk
      show alookup (ainsertAll s.reg (D b')) k = none
      rw [alookup_ainsertAll_of_not_mem (D b') _ k hnb]
      rcases hr k hk with h | h
      · exact absurd h hd
      · exact h
  | addXmd e x =>
    cases he : s.execs[e]? with
    | none => simp only [stepO, addXmd, he]; exact ⟨hr, hn, hx⟩
    | some ex =>
      by_cases hs : ex.xmdShared = true
      · have hb' : ∀ k ∈ mdKinds p.md, k ∉ akeys x := by
          simpa [benignNew, he, hs, List.all_eq_true] using hb
        have e1 : stepO D s (.addXmd e x) = { s with sharedXmd := ainsertAll s.sharedXmd x } := by
          simp only [stepO, addXmd, he, hs, if_true]
        rw [e1]
        refine ⟨hr, hn, ?_⟩
        intro k hk
        rcases hx k hk with h | h
        · exact Or.inl h
        · right
          show alookup (ainsertAll s.sharedXmd x) k = none
          rw [alookup_ainsertAll_of_not_mem x _ k (hb' k hk)]; exact h
      · have hs' : ex.xmdShared = false := by simpa using hs
        have e1 : stepO D s (.addXmd e x) = { s with execs := s.execs.set e { ex with xmdOwn := ainsertAll ex.xmdOwn x } } := by
          simp only [stepO, addXmd, he, hs', Bool.false_eq_true, if_false]
        rw [e1]; exact ⟨hr, hn, hx⟩
  | translate e q md r =>
    cases he : s.execs[e]? with
    | none => rw [stepO_translate_noExec D s e q md r he]; exact ⟨hr, hn, hx⟩
    | some ex =>
      obtain ⟨fx, fn, fr, _⟩ := stepO_translate_fields D s e q md r ex he
      have hb' : (∀ t ∈ enumTops md, t ∉ p.q.names.map some) ∧
          (if reachedStage s ex md r = some .done then
             (ex.backend = p.b ∨ ∀ k ∈ p.q.keys, k ∉ dkeys D ex.backend)
           else ∀ k ∈ p.q.keys, k ∉ declKeys md) := by
        have := hb
        simp only [benignNew, he, Bool.and_eq_true, List.all_eq_true, decide_eq_true_eq] at this
        refine ⟨this.1, ?_⟩
        have h2 := this.2
        split at h2
        · rename_i hd; simp only [hd, if_true]
          simpa [List.all_eq_true] using h2
        · rename_i hd; simp only [hd, if_false]
          simpa [List.all_eq_true] using h2
      obtain ⟨hen, hreg⟩ := hb'
      rw [fx, fn, fr]
      refine ⟨?_, ?_, hx⟩
      · intro k hk
        by_cases hd : k ∈ dkeys D p.b
        · exact Or.inl hd
        · right
          have hsk : alookup s.reg k = none := by
            rcases hr k hk with h | h
            · exact absurd h hd
            · exact h
          by_cases hdone : reachedStage s ex md r = some .done
          · simp only [hdone, if_true] at hreg ⊢
            apply alookup_defaultsReg_of_not_mem
            rcases hreg with h | h
            · rw [h]; exact hd
            · exact h k hk
          · simp only [hdone, if_false] at hreg ⊢
            unfold mdOf
            rw [mdRun_reg _ md k _ 0 (hreg k hk)]; exact hsk
      · intro t ht
        unfold mdOf
        rw [mdRun_ns _ md t _ 0 ?_]
        · exact hn t ht
        · intro hc
          exact hen _ hc (List.mem_map.2 ⟨t, ht, rfl⟩)

end FaxVerif.C07
