import sys, random, json, subprocess, collections
sys.path.insert(0,'/verif/tools'); sys.path.insert(0,'/repo')
import pipeline as P, qgen
rng = random.Random(int(sys.argv[1]) if len(sys.argv)>1 else 0)
N = int(sys.argv[2]) if len(sys.argv)>2 else 60
reqs=[]; meta=[]
stats=collections.Counter()
for i in range(N):
    b = rng.choice(P.BACKENDS)
    g = qgen.Gen(rng, b)
    q, names, form = g.top()
    src = qgen.render_functional(q, qgen.metadata(b))
    r = P.translate_functional(b, src)
    if not r['ok']:
        stats['refused:'+r['error']]+=1
        print("REFUSED", b, r['error'], r['message'][:150]); print("   ", qgen.render_top(b,q,md=[]))
        continue
    pk = qgen.package_json(r)
    banks = qgen.banks_used(q)
    evs = [qgen.gen_event(rng, b, banks) for _ in range(4)]
    reqs.append({"op":"run","package":pk,"events":evs,"query":q,"coll_types":qgen.coll_types(b)})
    meta.append((b,q,r,names))
inp="\n".join(json.dumps(x) for x in reqs)+"\n"
p=subprocess.run(["lake","env","lean","--run","FaxVerif/Cpp/Driver.lean"],cwd="/verif/lean",input=inp,capture_output=True,text=True)
outs=[json.loads(l) for l in p.stdout.splitlines() if l.strip()]
print(p.stderr[:500])
for (b,q,r,names),o in zip(meta,outs):
    if 'bad' in o: stats['bad']+=1; print("BAD", o, qgen.render_top(b,q,md=[])); continue
    for ex,de in zip(o['exec'],o['denote']):
        if 'fault' in ex or 'fault' in de:
            same = ex.get('fault','ok').split(':')[0]==de.get('fault','ok').split(':')[0]
            stats['fault-agree' if same else 'fault-DISAGREE']+=1
            if not same:
                print("FAULT-DIFF", b, ex.get('fault'), de.get('fault')); print("   ", qgen.render_top(b,q,md=[])); print("\n".join(r['query'])); break
        else:
            same = ex['num']==de['num']
            stats['rows-agree' if same else 'rows-DISAGREE']+=1
            if ex['num']: stats['nonempty']+=1
            if not same:
                print("ROWS-DIFF", b, ex['num'], de['num']); print("   ", qgen.render_top(b,q,md=[])); print("\n".join(r['query'])); break
print(stats)
