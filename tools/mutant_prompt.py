"""Print the prompt for an independent 'break the property' agent: python tools/mutant_prompt.py C05 a"""
import json, sys
pid, tag = sys.argv[1], sys.argv[2]
p = next(json.loads(l) for l in open('/verif/properties.jsonl') if json.loads(l)['id'] == pid)
wt = f"/tmp/mut-{pid}-{tag}"
print(f"""You are testing how robust a software project's guarantees are. You work ONLY inside the git worktree {wt}
(a checkout of the Python package iris-hep/func_adl_xAOD, which compiles func_adl/qastle LINQ-style query ASTs into C++ analysis code
for ATLAS xAOD / CMS AOD / miniAOD). Do not read or touch anything under /verif or /repo. Python with the package's dependencies is
/venv/bin/python (run things from inside {wt} so that `import func_adl_xAOD` picks up YOUR copy: check with
`/venv/bin/python -c "import func_adl_xAOD,sys; print(func_adl_xAOD.__file__)"` run from {wt}; use `cd {wt} && PYTHONPATH={wt} /venv/bin/python …`).
The existing test suite is run with: cd {wt} && PYTHONPATH={wt} /venv/bin/python -m pytest -q -p no:cacheprovider  (316 pass on the unchanged tree).
There is no network.

THE PROPERTY that should always hold for this code base:
  {p['title']}
  {p['statement']}
  (quantified over: {p['quantifier']['text']})

YOUR TASK: produce THREE different, realistic source changes (each one a small patch to files under func_adl_xAOD/, the kind of slip
or well-meant refactor a maintainer could make) such that for EACH change:
  1. the package still imports and the existing test suite still passes completely (316 passed) with the change applied;
  2. the property above is violated with the change, and holds without it;
  3. the violation needs something specific to manifest — an unusual input, a multi-step sequence of operations, a particular
     combination of query features, a particular order, two cooperating sites that each look fine alone — NOT something ordinary use
     would expose at once (e.g. do not simply break every query);
  4. you provide a demonstration: a small standalone Python program `demo.py` (using only /venv/bin/python and your worktree on
     PYTHONPATH; see tests/atlas/xaod/utils.py, tests/cms/*/utils.py, tests/utils/ for dummy datasets that return the generated code,
     and the README for the query language and metadata) that exits 0 and prints PASS on the UNCHANGED tree and exits 1 and prints FAIL
     with the change applied. The demo should check the property's observable consequence (e.g. inspect / reason about the generated
     C++ text, rendered files, returned values, raised exceptions) — not merely detect that the source text differs.
Make the three changes different in kind (different files or mechanisms).

Work like this for each change k = 1,2,3: edit the worktree; run the test suite; write demo; verify demo FAILs; save the patch with
`git -C {wt} diff > {wt}/mutant_k.diff`; copy demo to {wt}/demo_k.py; then `git -C {wt} checkout -- func_adl_xAOD` and verify
demo_k.py PASSes on the clean tree. Leave the worktree clean of source edits at the end, with the six files mutant_[123].diff and
demo_[123].py in {wt}/ (untracked).

FINAL REPORT: for each change: the idea in one sentence, what is needed for it to manifest, the files touched, and confirmation of
(tests pass with it / demo fails with it / demo passes without it).""")
