#!/bin/bash
# Run every claimed check (quick by default) on the clean tree, 4 at a time; print exit codes and VIOLATION lines.
# usage: tools/run_all.sh [quick|thorough] [ids…]
cd "$(dirname "$0")/.."
tier=${1:-quick}; shift
ids=${@:-$(cat tools/claimed.txt)}
mkdir -p /tmp/run_all
printf '%s\n' $ids | xargs -P 4 -I{} bash -c "./check {} --tier $tier > /tmp/run_all/{}.out 2>&1; echo '{} exit='\$?; grep VIOLATION /tmp/run_all/{}.out"
