# C16 test double for a source-able environment setup script
"$C16_ROOT/stubs/_sourced" "${BASH_SOURCE[0]}"
return $?
