"""C06 — event collections are fetched by the requested bank, type and backend idiom.

Model  : lean/FaxVerif/C06/Model.lean (validate/declare/lookup/getCollection/processNode/runJob).
Tie T  : tools/c06_lib/translate.py rewrites lean/FaxVerif/Generated/C06Tables.lean from /repo on
         every run (tables, default types, f-strings of the container and coder classes, the three
         metadata branches, executor backend tests, README names and keys); theorems over it are
         rebuilt each run.
Tie K  : the real pipeline (apply_ast_transformations + write_cpp_files) and the model on the same
         generated (declarations, calls, positions) on all three backends; process_metadata and
         _replace_whole_words directly; the built-in tables as runtime objects.
Oracle : the decidable `RunSpec` of Spec.lean evaluated by the Lean driver on the text the
         implementation produced.
"""
from __future__ import annotations

import itertools
import json
import re
from pathlib import Path
from typing import Any, Dict, List, Optional, Tuple

ID = "C06"
LEAN_MODULES = ["FaxVerif.C06.Theorems", "FaxVerif.C06.ExtTheorems"]
LEAN_SOURCES = ["FaxVerif/C06", "FaxVerif/Generated/C06Tables.lean", "FaxVerif/Generated/C06Render.lean"]
DRIVER = "FaxVerif/C06/Driver.lean"
THEOREMS: List[str] = []  # filled in below (kept next to the texts that describe them)

BACKENDS = ["atlas", "cms_aod", "cms_miniaod"]
MDTYPE = {"atlas": "add_atlas_event_collection_info", "cms_aod": "add_cms_aod_event_collection_info", "cms_miniaod": "add_cms_miniaod_event_collection_info"}

# ----------------------------------------------------------------------------------------- tie T


def translate(ctx):
    import fcntl

    import vlib
    from c06_lib import translate as tr

    # Two C06 runs on different trees (VERIF_REPO) would overwrite each other's generated tables
    # between translation, build and the driver calls: serialise whole C06 runs (the lock is
    # released when the process exits).
    if not hasattr(ctx, "_c06_lock"):
        (vlib.LEAN / ".lake").mkdir(exist_ok=True)
        ctx._c06_lock = open(vlib.LEAN / ".lake" / "c06.lock", "w")
        fcntl.flock(ctx._c06_lock, fcntl.LOCK_EX)
    text, data = tr.generate(vlib.REPO)
    vlib.write_if_changed(vlib.LEAN / "FaxVerif/Generated/C06Tables.lean", text)
    ctx.c06_data = data
    from c06_lib import render_tr

    rtext, rdata = render_tr.generate(vlib.REPO)
    vlib.write_if_changed(vlib.LEAN / "FaxVerif/Generated/C06Render.lean", rtext)
    ctx.c06_render = rdata
    ctx.count("translator:unrecognised-render", len(rdata["unrecognised"]))
    if rdata["unrecognised"]:
        ctx.notes.append("render translator could not interpret: " + "; ".join(rdata["unrecognised"][:5]))
    ctx.count("translator:unrecognised", len(data["unrecognised"]))
    if data["unrecognised"]:
        ctx.notes.append("translator could not interpret: " + "; ".join(data["unrecognised"][:5]))


# ----------------------------------------------------------------------------------------- cases
# A case: {"backend": b, "mds": [dict, ...], "where": [use..], "main": "tuple"|"selectmany", "items": [item..]}
# use  : {"name": str, "args": [arg..]}   arg: {"s": text} | {"int": n} | {"expr": python text}
# item : {"kind": "selmethod"|"count"|"single"|"nested", "use": use, "inner": use (nested only), "method": str}

METHODS = ["pt", "eta", "phi", "m"]
BANKS = ["AntiKt4EMTopoJets", "slimmedMuons", "muons", "b", "Electrons", "offlinePrimaryVertices", "a b", "x-1", "collection_name", "result", "globalMuons", "B1"]
ODD_BANKS = ['a"b', "back\\slash", "tab\there", "", "é"]


def arg_src(a: Dict[str, Any]) -> str:
    if "s" in a:
        return repr(a["s"]) if "'" not in a["s"] else json.dumps(a["s"])
    if "int" in a:
        return str(a["int"])
    return a["expr"]


def use_src(u, ev="e") -> str:
    return f"{ev}.{u['name']}({', '.join(arg_src(a) for a in u['args'])})"


def item_src(it) -> str:
    k = it["kind"]
    if k == "selmethod":
        return f"{use_src(it['use'])}.Select(lambda o: o.{it['method']}())"
    if k == "count":
        return f"{use_src(it['use'])}.Count()"
    if k == "single":
        return f"{use_src(it['use'])}.{it['method']}()"
    if k == "nested":
        return f"{use_src(it['use'])}.Select(lambda o: {use_src(it['inner'])}.Count())"
    if k == "expr":
        from c06_lib import positions

        return positions.expr_src(it["e"])
    raise ValueError(k)


def where_src(w) -> str:
    if w["kind"] == "expr":
        from c06_lib import positions

        return f"{positions.expr_src(w['e'])} > 0"
    if w["kind"] == "count":
        return f"{use_src(w['use'])}.Count() >= 0"
    return f"{use_src(w['use'])}.{w['method']}() >= 0"


def query_src(case) -> str:
    s = "ds"
    # companion metadata (function declarations, inject_code blocks): chained before or after the
    # collection declarations; never part of `mds` (the Spec's declarations)
    extras = case.get("extras") or []
    if case.get("extras_at", "pre") == "pre":
        for md in extras:
            s += f".MetaData({md!r})"
    for md in case["mds"]:
        s += f".MetaData({md!r})"
    if case.get("extras_at", "pre") != "pre":
        for md in extras:
            s += f".MetaData({md!r})"
    for w in case["where"]:
        s += f".Where({'lambda e: ' + where_src(w)!r})"
    if case["main"] == "selectmany":
        it = case["items"][0]
        s += f".SelectMany({'lambda e: ' + use_src(it['use'])!r}).Select({'lambda o: o.' + it['method'] + '()'!r})"
    else:
        items = [item_src(it) for it in case["items"]]
        if case["main"] == "dict":
            body = "{" + ", ".join(f"'k{i}': {x}" for i, x in enumerate(items)) + "}"
        else:
            body = items[0] if len(items) == 1 else "(" + ", ".join(items) + ")"
        s += f".Select({'lambda e: ' + body!r})"
    return s


def uses_of(case) -> List[Tuple[Dict[str, Any], List[int]]]:
    """The collection calls in emission order with their consumers (loops, elemCalls, selfCalls)."""
    res = []
    for w in case["where"]:
        if w["kind"] == "expr":
            from c06_lib import positions

            res += [(u, None) for u in positions.expr_uses(w["e"])]
            continue
        res.append((w["use"], [1, 0, 0] if w["kind"] == "count" else [0, 0, 1]))
    if case["main"] == "selectmany":
        res.append((case["items"][0]["use"], [1, 1, 0]))
        return res
    for it in case["items"]:
        k = it["kind"]
        if k == "selmethod":
            res.append((it["use"], [1, 1, 0]))
        elif k == "count":
            res.append((it["use"], [1, 0, 0]))
        elif k == "single":
            res.append((it["use"], [0, 0, 1]))
        elif k == "nested":
            res.append((it["use"], [1, 0, 0]))
            res.append((it["inner"], [1, 0, 0]))
        elif k == "expr":
            # how often the value is iterated / accessed depends on the position: the consumer counts
            # are read off the implementation's text (the theorems hold for every consumer list)
            from c06_lib import positions

            res += [(u, None) for u in positions.expr_uses(it["e"])]
    return res


def inc_mode(case) -> str:
    """How the include / library clause is judged (Spec.lean IncMode): exactly, on the collection
    headers only (other sources of headers present: functions), or on the include closure of the
    rendered source (inject_code blocks present)."""
    extras = case.get("extras") or []
    if any(m.get("metadata_type") == "inject_code" for m in extras):
        return "cover"
    if extras or any(it["kind"] == "expr" for it in case["items"]) or any(w["kind"] == "expr" for w in case["where"]):
        return "restricted"
    return "exact"


def md_json(md: Dict[str, Any]) -> Dict[str, Any]:
    fields = []
    for k, v in md.items():
        if k == "metadata_type":
            continue
        if isinstance(v, bool):
            fields.append([k, {"b": v}])
        elif isinstance(v, str):
            fields.append([k, {"s": v}])
        else:
            fields.append([k, {"l": list(v)}])
    return {"type": md["metadata_type"], "fields": fields}


def lean_uses(case, rng=None, obs=None) -> List[Dict[str, Any]]:
    res = []
    for i, (u, cons) in enumerate(uses_of(case)):
        args = [{"s": a["s"]} if "s" in a else {"o": 1} for a in u["args"]]
        if cons is None:
            fr = (obs or {}).get("frags") or []
            cons = [len(fr[i]["iters"]), len(fr[i]["elemOps"]), len(fr[i]["selfOps"])] if i < len(fr) else [0, 0, 0]
        res.append({"name": u["name"], "args": args, "skip": (rng.randint(0, 3) if rng else 0), "cons": cons})
    return res


def lean_job(case, rng=None, obs=None) -> Dict[str, Any]:
    # func_adl's extract_metadata hands the MetaData calls over outermost first, i.e. in the
    # reverse of the order they are chained in the query text; the model takes them in the order
    # process_metadata sees them
    return {"backend": case["backend"], "mds": [md_json(m) for m in reversed(case["mds"])], "uses": lean_uses(case, rng, obs)}


def case_key(case) -> str:
    return f"job:{case['backend']}:{query_src(case)}"


# ----------------------------------------------------------------------------------------- implementation


def fixed_includes(backend: str) -> List[str]:
    """`#include "X"` lines the template itself carries (read from the template of this run)."""
    import vlib

    rel = {"atlas": "func_adl_xAOD/template/atlas/r21/query.cxx", "cms_aod": "func_adl_xAOD/template/cms/r5/Analyzer.cc", "cms_miniaod": "func_adl_xAOD/template/cms/r7/Analyzer.cc"}[backend]
    try:
        text = (vlib.REPO / rel).read_text()
    except Exception:
        return []
    return [m.group(1) for m in re.finditer(r'^\s*#include\s+"([^"{}]+)"', text, re.M)]


_FIXED: Dict[str, List[str]] = {}


def rendered_lists(backend: str, r: Dict[str, Any]) -> Tuple[Optional[List[str]], Optional[List[str]]]:
    """Includes and link libraries as they stand in the rendered files (None: not readable)."""
    if backend not in _FIXED:
        _FIXED[backend] = fixed_includes(backend)
    main = r["files"].get("query.cxx" if backend == "atlas" else "Analyzer.cc")
    incs = None
    if main is not None:
        incs = [m.group(1) for m in re.finditer(r'^\s*#include\s+"([^"]*)"', main, re.M)]
        for f in _FIXED[backend]:
            if f in incs:
                incs.remove(f)
            else:
                incs = None
                break
    libs = None
    if backend == "atlas":
        cm = r["files"].get("package_CMakeLists.txt")
        m = re.search(r"LINK_LIBRARIES\s+AnaAlgorithmLib([^)]*)\)", cm or "")
        if m:
            libs = m.group(1).split()
    else:
        libs = []
    return incs, libs


def run_impl(case) -> Dict[str, Any]:
    """The real pipeline on the case; returns {"rejected": True, "error": cls} or the pieces of text."""
    import pipeline

    src = query_src(case)
    r = pipeline.translate(case["backend"], src)
    if not r.get("ok"):
        # a failed translation may leave process-global type state behind (C07): put the defaults back
        try:
            pipeline.make_executor(case["backend"]).reset()
        except Exception:
            pass
        return {"rejected": True, "error": r.get("error"), "message": r.get("message", "")[:200]}
    incs, libs = rendered_lists(case["backend"], r)
    mode = inc_mode(case)
    if mode == "cover":
        from c06_lib import positions

        clo = positions.include_closure("query.cxx" if case["backend"] == "atlas" else "Analyzer.cc", r["files"])
        if clo is not None:
            incs = clo
    strip = lambda ls: [l.strip() for l in ls if l.strip()]
    out = {
        "body": strip(r["query"]),
        "class_decl": strip([x if isinstance(x, str) else " ".join(x) for x in r["class_decl"]]),
        "book": strip(r["book"]),
        "includes": incs if incs is not None else list(r["includes"]),
        "libs": libs if libs is not None else list(r["link_libraries"]),
        "recorded_includes": list(r["includes"]),
        "recorded_libs": list(r["link_libraries"]),
        "rendered": incs is not None and libs is not None,
        "_files": {k: v for k, v in r["files"].items() if k in ("query.cxx", "query.h", "Analyzer.cc")},
    }
    return out


def impl_for_lean(impl: Dict[str, Any]) -> Dict[str, Any]:
    if impl.get("rejected"):
        return {"rejected": True}
    return {k: impl[k] for k in ("body", "class_decl", "book", "includes", "libs")}


# ----------------------------------------------------------------------------------------- canonical form


def canon_obs(o: Optional[Dict[str, Any]]) -> Any:
    """Generated names (variables, tokens) -> first-occurrence numbering, as whole words."""
    if o is None:
        return None
    ren: Dict[str, str] = {}
    for i, f in enumerate(o["frags"]):
        if f["var"] and f["var"] not in ren:
            ren[f["var"]] = f"V{i}"
    for i, f in enumerate(o["frags"]):
        if f["tok"] and f["tok"] not in ren:
            ren[f["tok"]] = f"T{i}"
    if ren:
        pat = re.compile("|".join(rf"(?<![A-Za-z0-9_]){re.escape(k)}(?![A-Za-z0-9_])" for k in sorted(ren, key=len, reverse=True)))
        sub = lambda s: pat.sub(lambda m: ren[m.group(0)], s)
    else:
        sub = lambda s: s
    frags = []
    for f in o["frags"]:
        frags.append({k: ([sub(x) for x in v] if isinstance(v, list) else sub(v)) for k, v in f.items()})
    return {"frags": frags, "classDecls": sorted(sub(x) for x in o["classDecls"]), "book": sorted(sub(x) for x in o["book"]), "includes": o["includes"], "libs": o["libs"]}


# ----------------------------------------------------------------------------------------- generators


def builtin_names(ctx, backend: str) -> List[Tuple[str, bool]]:
    rows = ctx.c06_data["backends"][backend]["rows"]
    return [(r["name"], r["element"] is not None) for r in rows]


NS = {"atlas": "xAOD", "cms_aod": "reco", "cms_miniaod": "pat"}
SUF = {"atlas": "Container", "cms_aod": "Collection", "cms_miniaod": "Collection"}


def gen_md(ctx, rng, backend: str, name: str, singleton: bool = False) -> Dict[str, Any]:
    base = rng.choice(["Foo", "Bar", "CaloCluster", "Tau", "Photon", "my_obj"])
    ns = rng.choice([NS[backend], NS[backend], "my", "a::b"])
    rows = ctx.c06_data["backends"][backend]["rows"]
    incs = [f"{ns.replace('::', '/')}/{base}{SUF[backend]}.h"]
    if rng.random() < 0.4:
        incs.append(f"{ns.replace('::', '/')}/{base}.h")
    if rng.random() < 0.4 and rows:  # a header a built-in also needs: exercises the de-duplication
        incs.append(rng.choice(rng.choice(rows)["includes"]))
    if rng.random() < 0.15:
        incs.append(incs[0])
    md: Dict[str, Any] = {"metadata_type": MDTYPE[backend], "name": name, "include_files": incs}
    if singleton:
        md["container_type"] = f"{ns}::{base}"
        md["contains_collection"] = False
    else:
        md["container_type"] = f"{ns}::{base}{SUF[backend]}"
        md["element_type"] = f"{ns}::{base}"
        md["contains_collection"] = True
    if backend == "atlas" and rng.random() < 0.6:
        libs = [f"{ns.replace('::', '')}{base}"]
        if rng.random() < 0.3 and rows:
            libs.append(rng.choice(rows)["libs"][0])
        md["link_libraries"] = libs
    if backend != "atlas" and rng.random() < 0.45:
        md["element_pointer"] = rng.random() < 0.5
    items = list(md.items())
    if rng.random() < 0.5:
        head, tail = items[:1], items[1:]
        rng.shuffle(tail)
        items = head + tail
    return dict(items)


def gen_bank(rng) -> str:
    return rng.choice(ODD_BANKS) if rng.random() < 0.08 else rng.choice(BANKS)


def gen_case(ctx, rng, backend: Optional[str] = None, error: Optional[str] = None) -> Dict[str, Any]:
    b = backend or rng.choice(BACKENDS)
    known = builtin_names(ctx, b)
    mds: List[Dict[str, Any]] = []
    n_md = rng.choice([0, 0, 1, 1, 2, 3])
    pool: Dict[str, bool] = dict(known)
    for _ in range(n_md):
        if rng.random() < 0.35 and known:
            name = rng.choice(known)[0]  # replaces a built-in
        else:
            name = rng.choice(["Foo", "Bars", "CaloClusters", "Taus", "my_things", "X"])
        singleton = b == "atlas" and rng.random() < 0.3
        mds.append(gen_md(ctx, rng, b, name, singleton))
    # of several declarations of one name the one written first (innermost MetaData call) is the
    # one in force: extract_metadata delivers them outermost first and the dict update keeps the last
    for md in reversed(mds):
        pool[md["name"]] = bool(md["contains_collection"])
    names = list(pool.items())
    declared = [m["name"] for m in mds]

    def pick_use(want_coll: Optional[bool] = None) -> Dict[str, Any]:
        cands = [n for n, c in names if want_coll is None or c == want_coll]
        if declared and rng.random() < 0.5:
            d = [n for n in declared if want_coll is None or pool[n] == want_coll]
            cands = d or cands
        if not cands:
            cands = [n for n, c in names if c]
        return {"name": rng.choice(cands), "args": [{"s": gen_bank(rng)}]}

    colls = [n for n, c in names if c]
    singles = [n for n, c in names if not c]
    where = []
    for _ in range(rng.choice([0, 0, 0, 1, 1, 2])):
        if singles and rng.random() < 0.3:
            where.append({"kind": "single", "use": pick_use(False), "method": rng.choice(METHODS)})
        else:
            where.append({"kind": "count", "use": pick_use(True)})
    if rng.random() < 0.12:
        main = "selectmany"
        items = [{"kind": "selmethod", "use": pick_use(True), "method": rng.choice(METHODS)}]
    else:
        main = "tuple"
        items = []
        for _ in range(rng.choice([1, 1, 2, 2, 3, 4, 5])):
            r = rng.random()
            if singles and r < 0.25:
                items.append({"kind": "single", "use": pick_use(False), "method": rng.choice(METHODS)})
            elif r < 0.6:
                items.append({"kind": "selmethod", "use": pick_use(True), "method": rng.choice(METHODS)})
            elif r < 0.8:
                items.append({"kind": "count", "use": pick_use(True)})
            else:
                items.append({"kind": "nested", "use": pick_use(True), "inner": pick_use(True)})
        if len(items) >= 2 and rng.random() < 0.4:  # the same collection (and sometimes the same bank) twice
            src = items[0]["use"]
            items[-1]["use"] = {"name": src["name"], "args": [dict(src["args"][0])] if rng.random() < 0.5 else [{"s": gen_bank(rng)}]}
            if items[-1]["kind"] == "single" and pool[src["name"]]:
                items[-1]["kind"] = "count"
            if items[-1]["kind"] != "single" and not pool[src["name"]]:
                items[-1] = {"kind": "single", "use": items[-1]["use"], "method": "pt"}
    case = {"backend": b, "mds": mds, "where": where, "main": main, "items": items}
    if error:
        inject_error(ctx, rng, case, error)
    return case


ERRORS = ["unknown_key", "missing_key", "flag_mismatch", "other_backend", "no_arg", "two_args", "int_arg", "expr_arg"]


def inject_error(ctx, rng, case, error: str):
    b = case["backend"]
    if error in ("unknown_key", "missing_key", "flag_mismatch", "other_backend"):
        if not case["mds"]:
            case["mds"].append(gen_md(ctx, rng, b, "Foo"))
        i = rng.randrange(len(case["mds"]))
        md = dict(case["mds"][i])
        if error == "unknown_key":
            k = rng.choice(["link_libraries" if b != "atlas" else "element_pointer", "includes", "bogus", "Name"])
            md[k] = (b == "atlas") if k == "element_pointer" else ["x"]
        elif error == "missing_key":
            k = rng.choice(["name", "include_files", "container_type", "contains_collection"])
            md.pop(k, None)
        elif error == "flag_mismatch":
            if md.get("contains_collection"):
                md.pop("element_type", None)
            else:
                md["element_type"] = "my::Elem"
        elif error == "other_backend":
            other = rng.choice([x for x in BACKENDS if x != b])
            md = gen_md(ctx, rng, other, md["name"])
        case["mds"][i] = md
    else:
        it = rng.choice(case["items"])
        u = it["use"]
        if error == "no_arg":
            u["args"] = []
        elif error == "two_args":
            u["args"] = [{"s": "a"}, {"s": "b"}]
        elif error == "int_arg":
            u["args"] = [{"int": rng.randint(0, 5)}]
        elif error == "expr_arg":
            u["args"] = [{"expr": rng.choice(['"a" + "b"', "e.bank", "None", "1.5", "True", "('a', 'b')"])}]


def nontrivial(case) -> bool:
    return len(uses_of(case)) >= 2 or bool(case["mds"])


# ----------------------------------------------------------------------------------------- judging


def judge_jobs(ctx, stream: str, cases: List[Dict[str, Any]], report: bool = True) -> List[Dict[str, Any]]:
    """Run implementation, model and Spec on the cases; returns per-case verdict records."""
    impls = [run_impl(c) for c in cases]
    ctx.check_time()
    # first the Spec on the implementation's text, then the model (position cases take the consumer
    # counts from the observation of the implementation's text)
    sreqs = [{"op": "spec", **lean_job(c), "impl": impl_for_lean(im), "mode": inc_mode(c)} for c, im in zip(cases, impls)]
    sans = ctx.driver(DRIVER, sreqs)
    jreqs = []
    for c, im, s in zip(cases, impls, sans):
        job = lean_job(c, ctx.rng, s.get("obs") if isinstance(s, dict) else None)
        jreqs.append({"op": "job", **job, "c0": ctx.rng.randint(0, 120), "gap": ctx.rng.randint(0, 7)})
    jans = ctx.driver(DRIVER, jreqs)
    ans = [x for pair in zip(jans, sans) for x in pair]
    out = []
    for i, (c, im) in enumerate(zip(cases, impls)):
        m, s = ans[2 * i], ans[2 * i + 1]
        rec = {"case": c, "impl": im, "model": m, "spec": s, "ok": True, "bad": "bad" in m or "bad" in s}
        out.append(rec)
        if rec["bad"]:
            continue
        src = query_src(c)
        holds = bool(s.get("holds"))
        rec["ok"] = holds
        flt = s.get("filters", {})
        if report and not all(flt.values()):
            # inside a defect exclusion / outside the modelled domain of run_spec_partial: those
            # inputs are exercised by the known-findings stream only (GUIDE rule 4)
            ctx.count("filtered:" + ",".join(k for k, v in flt.items() if not v))
            continue
        if report:
            ctx.count(f"stream:{stream[i] if isinstance(stream, list) else stream}")
            ctx.count(f"backend:{c['backend']}")
            ctx.count("impl:" + ("rejected:" + str(im.get("error")) if im.get("rejected") else "translated"))
            ctx.count(f"uses:{min(len(uses_of(c)), 7)}")
            ctx.count(f"declared:{len(c['mds'])}")
            for it in c["items"]:
                if it["kind"] == "expr":
                    from c06_lib import positions

                    for pk in positions.position_kinds(it["e"], "dict-element" if c["main"] == "dict" else "top"):
                        ctx.count("position:" + pk)
                    continue
                ctx.count("position:" + ("selectmany" if c["main"] == "selectmany" else it["kind"]))
            for w in c["where"]:
                if w["kind"] == "expr":
                    from c06_lib import positions

                    for pk in positions.position_kinds(w["e"], "where"):
                        ctx.count("position:" + pk)
                    continue
                ctx.count("position:where")
            ctx.count("include-clause:" + inc_mode(c))
            for xm in c.get("extras") or []:
                ctx.count("companion:" + str(xm.get("metadata_type")))
            if not im.get("rejected") and not im.get("rendered", True):
                ctx.count("rendered-lists-unreadable")
            ctx.case(case_key(c), nontrivial(c) and not im.get("rejected"), {"backend": c["backend"], "query": src, "implementation": "rejected" if im.get("rejected") else "translated", "spec_holds": holds})
        if not holds and report:
            ctx.violation(
                key=case_key(c),
                what="the generated job violates the collection-retrieval specification: " + str(s.get("why")),
                case=c,
                observed={"query": src, "implementation": im if im.get("rejected") else {k: im[k] for k in ("body", "class_decl", "book", "includes", "libs")}},
                how="evaluate `case` with tools/props/c06.py: query_src(case) is a func_adl expression over a dummy dataset `ds`; run it through apply_ast_transformations + write_cpp_files of the backend's executor (./check C06 --replay <this file>)",
            )
        # the tie
        mi = {"rejected": True} if "err" in m else canon_obs(m.get("ok"))
        ii = {"rejected": True} if im.get("rejected") else canon_obs(s.get("obs"))
        if inc_mode(c) != "exact" and isinstance(mi, dict) and isinstance(ii, dict) and "includes" in mi and "includes" in ii:
            # other sources of headers / libraries are present: compare the collection part
            for k in ("includes", "libs"):
                ii[k] = [h for h in ii[k] if h in mi[k]]
                if inc_mode(c) == "cover":  # the closure: a set
                    ii[k], mi[k] = sorted(set(ii[k])), sorted(set(mi[k]))
        if mi != ii and report:
            ctx.disagreement("job", {"backend": c["backend"], "query": src, "case": c}, m if "err" in m else mi, ({"rejected": im.get("error"), "message": im.get("message")} if im.get("rejected") else ii))
        rec["agree"] = mi == ii
    return out


# ----------------------------------------------------------------------------------------- executed artefact (g++, mock event store)


def declared_types(ctx, case) -> Dict[str, Any]:
    """name -> (container type, element type | None, elements are pointers) as DECLARED (built-in rows read from the source,
    then the metadata; of several declarations of a name the first written is in force)."""
    t: Dict[str, Any] = {r["name"]: (r["container"], r["element"], case["backend"] == "atlas") for r in ctx.c06_data["backends"][case["backend"]]["rows"]}
    for md in reversed(case["mds"]):
        t[md["name"]] = (md["container_type"], md.get("element_type") if md.get("contains_collection") else None, bool(md.get("element_pointer", case["backend"] == "atlas")))
    return t


def exec_stream(ctx, cases: List[Dict[str, Any]], report: bool = True) -> List[Dict[str, Any]]:
    """Compile the rendered job against the mock event store, run one event (all banks present;
    ATLAS also: one bank missing) and evaluate ExecSpec on the log."""
    from c06_lib import cppmock

    todo = []
    for c in cases:
        im = run_impl(c)
        if im.get("rejected"):
            continue
        decl = declared_types(ctx, c)
        us = [u for u, _ in uses_of(c)]
        wanted = [[decl[u["name"]][0], u["args"][0]["s"]] for u in us]
        types = sorted({decl[u["name"]] for u in us}, key=lambda x: (x[0], x[1] or "", x[2]))
        if any(("\n" in b or "|" in b or "\x1f" in b) for _, b in wanted):
            continue
        fails_list: List[List[str]] = [[]]
        if c["backend"] == "atlas":
            fails_list.append([ctx.rng.choice(us)["args"][0]["s"]])
        for fails in fails_list:
            todo.append((c, wanted, fails, im, types))
    from concurrent.futures import ThreadPoolExecutor

    def one(t):
        c, wanted, fails, im, types = t
        return (c, wanted, fails, cppmock.run_job(c["backend"], im["_files"], im["includes"], _FIXED.get(c["backend"], []), types, fails))

    with ThreadPoolExecutor(max_workers=6) as ex:
        jobs = list(ex.map(one, todo))
    reqs = []
    for c, wanted, fails, r in jobs:
        rq = [l.split("|") for l in r["log"] if l.startswith("REQUEST|")]
        ex = [l for l in r["log"] if l.startswith("EXECUTE|")]
        reqs.append({"op": "exec", "wanted": wanted, "fails": fails, "reqs": [[x[1], "|".join(x[2:-1]), x[-1] == "ok"] for x in rq],
                     "success": ex == ["EXECUTE|SUCCESS"], "crashed": (not r["compiled"]) or r["rc"] != 0 or len(ex) != 1})
    ans = ctx.driver(DRIVER, reqs)
    out = []
    for (c, wanted, fails, r), q, a in zip(jobs, reqs, ans):
        if "bad" in a:
            continue
        cons = [l.split("|")[1:] for l in r["log"] if l.startswith("CONSUMES|")]
        tok_ok = c["backend"] != "cms_miniaod" or sorted(cons) == sorted(wanted)
        ok = bool(a.get("holds")) and tok_ok
        out.append({"case": c, "ok": ok, "fails": fails, "run": r, "expected": a.get("expected")})
        if report:
            ctx.count("stream:executed")
            ctx.count("executed:" + ("bank-missing" if fails else "all-present"))
            if not r["compiled"]:
                ctx.count("executed:did-not-compile")
            ctx.case("exec:" + case_key(c) + "|" + repr(fails), True, None)
            if not ok:
                ctx.violation(
                    key="exec:" + case_key(c) + "|missing=" + repr(fails),
                    what="the compiled job does not ask the (mock) event store for exactly the requested (container type, bank) pairs / does not end the event at the missing bank"
                    + ("" if tok_ok else "; tokens are not initialised with the banks of their uses")
                    + ("" if r["compiled"] else "; the rendered job does not compile against the declared data model: " + r["stderr"][-300:]),
                    case={**c, "missing_banks": fails},
                    observed={"query": query_src(c), "log": r["log"][:40], "rc": r["rc"], "expected_requests": a.get("expected"), "consumes": cons},
                    how="./check C06 --replay <this file> (g++ is needed)",
                )
    return out


# ----------------------------------------------------------------------------------------- process_metadata directly

ALL_KEYS = ["name", "include_files", "container_type", "element_type", "contains_collection", "link_libraries", "element_pointer", "bogus"]


def md_value(k: str, flag: bool, backend: str) -> Any:
    return {
        "name": "Foo",
        "include_files": ["a/FooContainer.h", "a/Foo.h"],
        "container_type": "my::FooContainer",
        "element_type": "my::Foo",
        "contains_collection": flag,
        "link_libraries": ["libA", "libB"],
        "element_pointer": flag,
        "bogus": "x",
    }[k]


def impl_validate(md: Dict[str, Any]) -> Dict[str, Any]:
    from func_adl_xAOD.common.meta_data import process_metadata

    try:
        r = process_metadata([dict(md)])
    except Exception as e:
        return {"rejected": type(e).__name__}
    if len(r) != 1:
        return {"rejected": f"{len(r)} specifications"}
    s = r[0]
    ct = s.container_type
    is_coll = hasattr(ct, "element_type")
    tok = ct.token_type() if hasattr(ct, "token_type") else None
    return {
        "backend": s.backend_name,
        "name": s.name,
        "includes": list(s.include_files),
        "container": ct.type,
        "element": ct.element_type.type if is_coll else None,
        "depthType": ct.p_depth,
        "depthElem": ct.element_type.p_depth if is_coll else 0,
        "libraries": list(s.libraries),
        "tyStr": str(ct),
        "tokenType": tok,
    }


def validate_stream(ctx):
    cases = []
    for b in BACKENDS:
        for flag in (True, False):
            for mask in range(1 << len(ALL_KEYS)):
                ks = [k for i, k in enumerate(ALL_KEYS) if mask >> i & 1]
                if ctx.tier == "quick" and "bogus" in ks and len(ks) > 5 and mask % 3:
                    continue
                md = {"metadata_type": MDTYPE[b]}
                for k in ks:
                    md[k] = md_value(k, flag, b)
                cases.append((b, md))
    reqs = [{"op": "validate", "backend": b, "md": md_json(md)} for b, md in cases]
    ans = ctx.driver(DRIVER, reqs)
    for (b, md), a in zip(cases, ans):
        if "bad" in a:
            continue
        if a["valid"] and not a["cmsIsCollection"]:
            continue  # defect exclusion of validate_iff_cms_partial (listed finding, replayed by the findings stream)
        im = impl_validate(md)
        accepted = "rejected" not in im
        ctx.count("stream:validate")
        ctx.count("validate:" + ("accepted" if accepted else "rejected:" + str(im["rejected"])))
        key = "validate:" + json.dumps(md, sort_keys=True)
        ctx.case(key, accepted or a["valid"], {"metadata": md, "implementation": im})
        # Spec on the implementation: accepted <=> well formed; an accepted one must declare what it says
        if a["valid"] != accepted:
            ctx.violation(
                key=key,
                what=("a well-formed collection declaration is rejected" if a["valid"] else "a malformed collection declaration is accepted") + f" by process_metadata ({im.get('rejected', 'accepted')})",
                case={"metadata": md},
                observed=im,
                how="from func_adl_xAOD.common.meta_data import process_metadata; process_metadata([case['metadata']])",
            )
        # the tie: model and implementation agree on acceptance and on the specification built
        mm = {"rejected": True} if a["model"] != "ok" else a["spec"]
        ii = {"rejected": True} if not accepted else im
        if mm != ii:
            ctx.disagreement("process_metadata", {"metadata": md}, {"model": a["model"], "spec": a["spec"]}, im)


# ----------------------------------------------------------------------------------------- _replace_whole_words directly

SUBST_ATOMS = ["collection_name", "collection_name2", "xcollection_name", "_collection_name", "collection", "name", "result", " ", "(", ")", ",", ".", "->", "::", "*", "<", ">", ";", '"', "&", "collection_name"]


def subst_stream(ctx, n: int):
    from func_adl_xAOD.common.cpp_ast import _replace_whole_words

    rng = ctx.rng
    lines = []
    data = ctx.c06_data
    for b in BACKENDS:
        for code in data["backends"][b]["coder"]["code"]:
            lines.append("".join(v if k == "lit" else "T" for k, v in code))
    for _ in range(n):
        lines.append("".join(rng.choice(SUBST_ATOMS) for _ in range(rng.randint(0, 9))))
    lits = ['"b"', '"collection_name"', '"a\\\\b"', "", '"x y"']
    cases = [(l, rng.choice(lits)) for l in lines]
    ans = ctx.driver(DRIVER, [{"op": "subst", "line": l, "lit": lit} for l, lit in cases])
    for (l, lit), a in zip(cases, ans):
        if "bad" in a:
            continue
        try:
            im = _replace_whole_words(l, [("collection_name", lit)])
        except Exception as e:
            im = "raises " + type(e).__name__
        ctx.count("stream:subst")
        ctx.case("subst:" + l + "|" + lit, a.get("has", False), None)
        if im != a["out"]:
            ctx.disagreement("_replace_whole_words", {"line": l, "lit": lit}, a["out"], im)


# ----------------------------------------------------------------------------------------- tables as runtime objects


def table_item_case(ctx, item: Dict[str, Any]) -> Dict[str, Any]:
    """The failing table item as a concrete input: the row read from the source and, for a row, the
    single-call query that uses it with what the real pipeline then requests."""
    b = item.get("backend")
    case: Dict[str, Any] = {"table_item": item}
    rows = ctx.c06_data["backends"].get(b, {}).get("rows", []) if b in BACKENDS else []
    row = next((r for r in rows if r["name"] == item.get("item")), None)
    if item.get("kind") == "row" and row is not None:
        case["row"] = {k: row[k] for k in ("backend", "name", "includes", "container", "element", "dt", "de", "libs")}
        job = {"backend": b, "mds": [], "where": [], "main": "tuple", "items": [{"kind": "count" if row["element"] is not None else "single", "use": {"name": row["name"], "args": [{"s": "bank"}]}, "method": "pt"}]}
        case["query"] = query_src(job)
        im = run_impl(job)
        case["job_requests"] = {"rejected": im.get("error")} if im.get("rejected") else {"includes": im["includes"], "libs": im["libs"], "block": [l for l in im["body"] if "result" in l]}
    return case


def tablechecks_stream(ctx, report: bool = True) -> List[Dict[str, Any]]:
    """The table theorems item by item, so that a table that stops deciding names its failing row."""
    a = ctx.driver(DRIVER, [{"op": "tablechecks"}])[0]
    if "bad" in a:
        return []
    out = []
    for item in a["failing"]:
        case = table_item_case(ctx, item)
        what = {
            "row": "built-in row {item} of {backend} is not consistent with the experiment's naming scheme (container/element names, own header requested, link libraries = first path segments of the headers, pointer depths of the backend)",
            "readme-collection-missing": "the README names the collection function {item} but the {backend} table has no such row",
            "builtin-spec-differs-from-backend-convention": "a built-in of {backend} is not handed out with the backend's handle / pointer depths",
            "documented-key-refused": "the README documents the key {item} for {backend} declarations but the branch refuses it",
            "accepted-key-never-read": "the {backend} branch accepts the key {item} and never looks at it",
            "default-method-types": "default method types: {item}",
        }.get(item["kind"], item["kind"]).format(**item)
        out.append({"key": f"table:{item['kind']}:{item['backend']}:{item['item']}", "what": what, "case": case})
        if report:
            ctx.violation(key=out[-1]["key"], what=what, case=case, observed=case.get("job_requests"), how="./check C06 --replay <this file> (re-reads the table from the source and re-evaluates the row predicate of Spec.lean)")
    if report:
        ctx.count("stream:tablechecks")
        ctx.case("tablechecks", True, None)
    return out


def tables_stream(ctx):
    import importlib

    mods = {"atlas": ("func_adl_xAOD.atlas.xaod.event_collections", "atlas_xaod_collections"), "cms_aod": ("func_adl_xAOD.cms.aod.event_collections", "cms_aod_collections"), "cms_miniaod": ("func_adl_xAOD.cms.miniaod.event_collections", "cms_miniaod_collections")}
    a = ctx.driver(DRIVER, [{"op": "tables"}])[0]
    if "bad" in a:
        return
    for b, (mn, var) in mods.items():
        try:
            tab = getattr(importlib.import_module(mn), var)
            im = []
            for s in tab:
                ct = s.container_type
                is_coll = hasattr(ct, "element_type")
                im.append({"backend": s.backend_name, "name": s.name, "includes": list(s.include_files), "container": ct.type, "element": ct.element_type.type if is_coll else None, "depthType": ct.p_depth, "depthElem": ct.element_type.p_depth if is_coll else 0, "libraries": list(s.libraries), "tyStr": str(ct), "tokenType": ct.token_type() if hasattr(ct, "token_type") else None})
        except Exception as e:
            im = "raises " + type(e).__name__
        ctx.count("stream:tables")
        ctx.case("tables:" + b, True, None)
        if im != a[b]:
            ctx.disagreement("builtin-table", {"backend": b}, a[b], im)


# ----------------------------------------------------------------------------------------- known findings / corpus


def replay_entries(ctx, entries: List[Dict[str, Any]]) -> List[Optional[str]]:
    """Per entry: a non-empty reason if the listed input fails now, "" if it passes, None if it cannot
    be replayed.  One driver call for all job inputs, one for all metadata inputs."""
    res: List[Optional[str]] = [None] * len(entries)
    job_ix = [i for i, e in enumerate(entries) if "case" in e.get("input", {})]
    if job_ix:
        recs = judge_jobs(ctx, "findings", [entries[i]["input"]["case"] for i in job_ix], report=False)
        for i, r in zip(job_ix, recs):
            res[i] = None if r["bad"] else ("" if r["ok"] else (str(r["spec"].get("why")) or "specification false"))
    md_ix = [i for i, e in enumerate(entries) if "metadata" in e.get("input", {}) and "case" not in e.get("input", {})]
    if md_ix:
        mds = [entries[i]["input"]["metadata"] for i in md_ix]
        bs = [next((k for k, v in MDTYPE.items() if v == md.get("metadata_type")), "atlas") for md in mds]
        ans = ctx.driver(DRIVER, [{"op": "validate", "backend": b, "md": md_json(md)} for b, md in zip(bs, mds)])
        for i, md, a in zip(md_ix, mds, ans):
            if "bad" in a:
                continue
            im = impl_validate(md)
            res[i] = "" if a["valid"] == ("rejected" not in im) else f"well formed={a['valid']}, process_metadata: {im.get('rejected', 'accepted')}"
    return res


def findings_stream(ctx):
    known, fixed = ctx.known_entries("known"), ctx.known_entries("fixed")
    res = replay_entries(ctx, known + fixed)
    for e, r in zip(known, res[: len(known)]):
        ctx.count("stream:known-findings")
        if r:
            ctx.violation(key=e["key"], what=e["what"], case=e.get("input"))
    for e, r in zip(fixed, res[len(known) :]):
        ctx.count("stream:fixed-findings")
        if r:
            ctx.violation(
                key="regressed:" + e["key"],
                what=f"the input of a repaired defect fails again: {r} (the repaired defect was: {e['what']})",
                case=e.get("input", {}).get("case", e.get("input")),
                how="./check C06 --replay <this file>",
            )


def systematic_cases(ctx) -> List[Dict[str, Any]]:
    """Every built-in collection of every backend once, alone, with a plain bank; every ordered
    pair of (distinct or equal) built-ins of the backend in one tuple."""
    res = []
    for b in BACKENDS:
        names = builtin_names(ctx, b)
        for n, coll in names:
            it = {"kind": "selmethod" if coll else "single", "use": {"name": n, "args": [{"s": "bank_" + n}]}, "method": "pt"}
            res.append({"backend": b, "mds": [], "where": [], "main": "tuple", "items": [it]})
        for i, ((n1, c1), (n2, c2)) in enumerate(itertools.product(names, repeat=2)):
            if ctx.tier == "quick" and b == "atlas" and (i + ctx.seed) % 3:
                continue
            its = [{"kind": "count" if c else "single", "use": {"name": n, "args": [{"s": bank}]}, "method": "pt"} for (n, c, bank) in ((n1, c1, "b1"), (n2, c2, "b2"))]
            res.append({"backend": b, "mds": [], "where": [], "main": "tuple", "items": its})
    return res


def _rows_of(ctx):
    return lambda b: ctx.c06_data["backends"][b]["rows"]


def position_cases(ctx, n_random: int) -> List[Dict[str, Any]]:
    """Collection calls at every position of a query: the directed family (every position kind x
    backend) and random expression trees over built-in and declared collections."""
    from c06_lib import positions

    res = positions.directed_position_cases(ctx, _rows_of(ctx))
    rng = ctx.rng
    for _ in range(n_random):
        b = rng.choice(BACKENDS)
        pool: Dict[str, bool] = dict(builtin_names(ctx, b))
        mds = []
        if rng.random() < 0.35:
            name = rng.choice(["Foo", "Bars", "my_things"] + [n for n, c in pool.items() if c][:2])
            mds.append(gen_md(ctx, rng, b, name))
            pool[name] = True

        def pick_use(want_coll=None, pool=pool, mds=mds):
            cands = [n for n, c in pool.items() if want_coll is None or c == want_coll]
            if mds and rng.random() < 0.4 and (want_coll is None or want_coll):
                cands = [mds[0]["name"]]
            return {"name": rng.choice(cands), "args": [{"s": gen_bank(rng)}]}

        items = []
        for _k in range(rng.choice([1, 1, 2, 3])):
            if items and rng.random() < 0.3:
                items.append({"kind": "count", "use": pick_use(True)})
            else:
                items.append({"kind": "expr", "e": positions.gen_expr(rng, pick_use, pool, rng.choice([1, 2, 2, 3]))})
        where = []
        if rng.random() < 0.3:
            where.append({"kind": "expr", "e": positions.gen_expr(rng, pick_use, pool, rng.choice([1, 2]))})
        main = "dict" if rng.random() < 0.3 else "tuple"
        res.append(positions.mk_case(b, items, where=where, mds=mds, main=main, extras_at=rng.choice(["pre", "post"])))
    return res


def declaration_cases(ctx, full: bool) -> List[Dict[str, Any]]:
    from c06_lib import positions

    return positions.decl_order_cases(ctx, _rows_of(ctx), full)


def companion_cases(ctx, full: bool) -> List[Dict[str, Any]]:
    from c06_lib import positions

    return positions.companion_cases(ctx, _rows_of(ctx), full)


# ----------------------------------------------------------------------------------------- run


def run(ctx):
    import logging

    logging.disable(logging.WARNING)
    if not hasattr(ctx, "c06_data"):
        translate(ctx)
    findings_stream(ctx)
    from vlib import corpus_cases

    corpus = [c["case"] for c in corpus_cases(ID) if "case" in c]
    if corpus:
        judge_jobs(ctx, "corpus", corpus)
    tables_stream(ctx)
    tablechecks_stream(ctx)
    validate_stream(ctx)
    subst_stream(ctx, 1000 if ctx.tier == "quick" else 12000)
    all_recs = judge_jobs(ctx, "systematic", systematic_cases(ctx))
    pc, dc, cc = position_cases(ctx, 40 if ctx.tier == "quick" else 700), declaration_cases(ctx, ctx.tier != "quick"), companion_cases(ctx, ctx.tier != "quick")
    all_recs += judge_jobs(ctx, ["positions"] * len(pc) + ["declaration-lists"] * len(dc) + ["companions"] * len(cc), pc + dc + cc)
    ctx.check_time()
    n = 500 if ctx.tier == "quick" else 6000
    cases = []
    for i in range(n):
        err = ctx.rng.choice(ERRORS) if ctx.rng.random() < 0.22 else None
        cases.append(gen_case(ctx, ctx.rng, error=err))
    for k in range(0, len(cases), 1500):
        all_recs += judge_jobs(ctx, "random", cases[k : k + 1500])
        ctx.check_time()
    if ctx.tier == "thorough":
        # executed-artefact oracle on jobs of the clean domain (faulty ones are refused before any code exists)
        good = [r["case"] for r in all_recs if not r["bad"] and r["ok"] and not r["impl"].get("rejected") and all(r["spec"].get("filters", {}).values()) and inc_mode(r["case"]) == "exact"]
        sample = [c for c in good if len(uses_of(c)) == 1][:15] + [c for c in good if len(uses_of(c)) > 1][:30]
        exec_stream(ctx, sample)
        ctx.check_time()
    ctx.extra_cov["exhaustive"] = False
    ctx.extra_cov["exhaustive_part"] = (
        "process_metadata: every subset of 8 keys x contains_collection in {True, False} x 3 backends"
        + (" (quick: a third of the large subsets containing the unknown key)" if ctx.tier == "quick" else "")
        + "; jobs: every built-in collection alone and every ordered pair of built-ins per backend"
        + (" (quick: a third of the ATLAS pairs)" if ctx.tier == "quick" else "")
    )


# ----------------------------------------------------------------------------------------- search / shrink / replay


def shrink(ctx, case):
    """Structural deletion while the Spec still fails on the implementation."""

    def fails(c) -> bool:
        try:
            r = judge_jobs(ctx, "shrink", [c], report=False)[0]
        except Exception:
            return False
        return not r["bad"] and not r["ok"]

    changed = True
    while changed:
        changed = False
        cands = []
        for i in range(len(case["items"])):
            if len(case["items"]) > 1:
                cands.append({**case, "items": case["items"][:i] + case["items"][i + 1 :]})
        for i in range(len(case["where"])):
            cands.append({**case, "where": case["where"][:i] + case["where"][i + 1 :]})
        for i in range(len(case["mds"])):
            cands.append({**case, "mds": case["mds"][:i] + case["mds"][i + 1 :]})
        from c06_lib import positions

        for i, it in enumerate(case["items"]):
            if it["kind"] == "expr":  # a sub-expression that still holds a collection call in place of the expression
                for ch in positions.expr_children(it["e"]):
                    if positions.expr_uses(ch):
                        cands.append({**case, "items": case["items"][:i] + [{"kind": "expr", "e": ch}] + case["items"][i + 1 :]})
        ex = case.get("extras") or []
        for i in range(len(ex)):
            needed = {f for it in case["items"] if it["kind"] == "expr" for f in positions.expr_fns(it["e"])} | {f for w in case["where"] if w["kind"] == "expr" for f in positions.expr_fns(w["e"])}
            if ex[i].get("metadata_type") == "add_cpp_function" and ex[i].get("name") in needed:
                continue
            cands.append({**case, "extras": ex[:i] + ex[i + 1 :]})
        for c in cands:
            if fails(c):
                case, changed = c, True
                break
    return case


def search(ctx, broken):
    """Targeted sweep (every built-in row alone and in pairs, declared collections of every shape),
    then a random sweep, with the Spec on the implementation's text as the only judge."""
    if not hasattr(ctx, "c06_data"):
        translate(ctx)
    tb = tablechecks_stream(ctx, report=False)
    if tb:
        return {**tb[0], "observed": tb[0]["case"].get("job_requests"), "replay_how": "./check C06 --replay <this file>"}
    cases = systematic_cases(ctx)
    for b in BACKENDS:
        for singleton in ([False, True] if b == "atlas" else [False]):
            md = gen_md(ctx, ctx.rng, b, "Foo", singleton)
            it = {"kind": "single" if singleton else "selmethod", "use": {"name": "Foo", "args": [{"s": "bank"}]}, "method": "pt"}
            cases.append({"backend": b, "mds": [md], "where": [], "main": "tuple", "items": [it]})
    cases += declaration_cases(ctx, True) + companion_cases(ctx, True) + position_cases(ctx, 300)
    for _ in range(1500):
        cases.append(gen_case(ctx, ctx.rng, error=ctx.rng.choice(ERRORS) if ctx.rng.random() < 0.2 else None))
    recs = judge_jobs(ctx, "search", cases, report=False)
    bad = [r for r in recs if not r["bad"] and not r["ok"]]
    # a listed finding is not news
    known = {e["key"] for e in ctx.known_entries("known")}
    bad = [r for r in bad if case_key(r["case"]) not in known]
    if not bad:
        # second judge: the compiled job against the mock event store (every built-in alone)
        ex = exec_stream(ctx, [c for c in cases if len(uses_of(c)) == 1 and not c["mds"] and inc_mode(c) == "exact"][:20], report=False)
        exbad = [e for e in ex if not e["ok"]]
        if exbad:
            e = exbad[0]
            return {
                "key": "exec:" + case_key(e["case"]) + "|missing=" + repr(e["fails"]),
                "what": "the compiled job does not ask the (mock) event store for exactly the requested (container type, bank) pairs / does not end the event at the missing bank",
                "case": {**e["case"], "missing_banks": e["fails"]},
                "observed": {"query": query_src(e["case"]), "log": e["run"]["log"][:40], "rc": e["run"]["rc"], "expected_requests": e["expected"]},
                "replay_how": "./check C06 --replay <this file>",
            }
        return None
    best = min(bad, key=lambda r: len(query_src(r["case"])))
    case = shrink(ctx, best["case"])
    r = judge_jobs(ctx, "search", [case], report=False)[0]
    return {
        "key": case_key(case),
        "what": "the generated job violates the collection-retrieval specification: " + str(r["spec"].get("why")),
        "case": case,
        "observed": {"query": query_src(case), "implementation": {k: v for k, v in r["impl"].items() if k != "_files"}},
        "replay_how": "./check C06 --replay <this file>",
    }


def replay(ctx, rep) -> int:
    import logging

    logging.disable(logging.WARNING)
    translate(ctx)
    case = rep.get("case")
    if isinstance(case, dict) and "metadata" in case and "backend" not in case:
        md = case["metadata"]
        b = next((k for k, v in MDTYPE.items() if v == md.get("metadata_type")), "atlas")
        a = ctx.driver(DRIVER, [{"op": "validate", "backend": b, "md": md_json(md)}])[0]
        im = impl_validate(md)
        print("process_metadata:", im)
        print("well formed according to the specification:", a.get("valid"))
        return 0 if a.get("valid") == ("rejected" not in im) else 1
    if isinstance(case, dict) and "table_item" in case:
        tb = tablechecks_stream(ctx, report=False)
        hit = [t for t in tb if t["case"]["table_item"] == case["table_item"]]
        print("table items failing now:", [t["key"] for t in tb])
        for t in hit:
            print(json.dumps(t["case"], indent=1)[:2000])
        return 1 if hit else 0
    if isinstance(case, dict) and "missing_banks" in case:
        c = {k: v for k, v in case.items() if k != "missing_banks"}
        ctx.rng.choice = lambda seq: next((u for u in seq if isinstance(u, dict) and u.get("args") and u["args"][0].get("s") in case["missing_banks"]), seq[0])  # the same missing bank again
        ex = exec_stream(ctx, [c], report=False)
        for e in ex:
            print("missing:", e["fails"], "holds:", e["ok"], "log:", e["run"]["log"][:30], e["run"]["stderr"][-300:])
        return 0 if ex and all(e["ok"] for e in ex) else 1
    if not isinstance(case, dict) or "backend" not in case:
        print("replay file carries no job case:", json.dumps(rep)[:400])
        return 1
    r = judge_jobs(ctx, "replay", [case], report=False)[0]
    print("query:", query_src(case))
    print("implementation:", json.dumps({k: v for k, v in r["impl"].items() if k != "_files"}, indent=1)[:3000])
    print("spec:", r["spec"].get("holds"), r["spec"].get("why"))
    return 0 if r["ok"] and not r["bad"] else 1


# ----------------------------------------------------------------------------------------- manifest texts

THEOREMS = ["FaxVerif.C06." + t for t in [
    "source_recognised",
    "builtin_rows",
    "builtin_names",
    "builtin_specs",
    "default_types",
    "documented_keys",
    "whitelist_keys_read",
    "bank_substitution",
    "retrieval",
    "retrieval_typename_counterexample",
    "singleton_is_value",
    "failed_retrieve_aborts",
    "unchecked_retrieve_counterexample",
    "validate_iff",
    "validate_iff_cms_partial",
    "validate_cms_singleton_counterexample",
    "validate_declares",
    "element_pointer_honoured",
    "backend_refused",
    "override",
    "call_shape",
    "call_shape_job",
    "dedup",
    "job_includes",
    "run_spec_partial",
    "miniaod_tokens_distinct",
    "run_spec_element_pointer",
    # extension (ExtTheorems.lean)
    "render_source_recognised",
    "every_collection_call_found",
    "finder_without_descent_counterexample",
    "run_spec_tree_partial",
    "decl_refused_iff",
    "foreign_decl_refused_any_position",
    "include_closure_covers",
    "link_line_covers",
    "header_includes_only_atlas",
    "run_spec_modes",
    "run_spec_closure",
]]

RULE = (
    "jobs: a backend, 0-3 metadata declarations of collections (new names or names of built-ins, ATLAS also singletons, headers that overlap "
    "with built-ins' headers, optional link libraries / element_pointer True or False, shuffled key order), 0-2 Where clauses and a tuple Select of "
    "1-5 items or a SelectMany, every item one or two collection calls (element method in a Select, Count, nested inside another collection's "
    "lambda, singleton method) with banks from a pool incl. quotes, backslash, tab, empty, non-ASCII, the words collection_name/result, the same "
    "collection and the same bank twice; 22% of the cases carry one fault (unknown key, missing required key, element_type/contains_collection "
    "mismatch, declaration for another backend, no / two / integer / non-constant argument); plus every built-in alone and every ordered pair "
    "of built-ins per backend. A job is non-trivial when it is translated and has >=2 collection calls or >=1 declaration; distinct = distinct "
    "(backend, query text). process_metadata: every subset of 8 keys x contains_collection x 3 backends (non-trivial: accepted or well formed). "
    "_replace_whole_words: the running-code lines plus random concatenations of 21 atoms (non-trivial: contains the word collection_name). "
    "Positions: per backend a directed family that puts e.<Coll>(bank) (.Count(), .First().m(), .Select(..).Sum(), singleton method) inside the "
    "arguments of DeltaR, of functions declared with add_cpp_function (plain and method-style), of sqrt/abs, of element methods, in test and "
    "branches of conditionals, as operands, in nested lambdas (Where / Select bodies), in dict and tuple elements and in Where clauses, with built-in "
    "and declared collections; plus random expression trees of depth 1-3 over these constructors (40 quick / 700 thorough). Declaration lists: per backend "
    "pairs and triples of declarations of ONE name for the own and the foreign backends (identical fields or different), every order, an unrelated "
    "declaration in between, own-only lists (thorough: all permutations). Companions: every (quick: two) built-in collection and a declared one beside "
    "inject_code blocks naming the collection's own headers / libraries in header_includes, body_includes, both or neither, chained before or after; "
    "the include clause is then judged on the include closure of the rendered main source (cover), with C++ functions present on the collection "
    "headers among the body includes (restricted). "
    "Inputs inside a defect exclusion of a _partial theorem are produced by the known-findings stream only. Thorough tier: 45 translated jobs "
    "are compiled with g++ against a generated stand-in of the declared data model and a mock event store and run for one event (ATLAS also with "
    "one bank missing); ExecSpec is evaluated on the log of (container type, bank) requests."
)
TRUSTED_BASE = [
    "hand model lean/FaxVerif/C06/Model.lean of validate/declare/lookup/get_collection/process_ast_node, tied to the code by the job, process_metadata, "
    "_replace_whole_words and built-in-table correspondence streams of this run",
    "tools/c06_lib/translate.py (Python ast -> Lean data; anything it cannot interpret lands in Gen.unrecognised and breaks theorem source_recognised)",
    "the harness tools/props/c06.py and tools/pipeline.py (query generator, canonicalisation of generated names by first occurrence as whole words, "
    "reading the include / LINK_LIBRARIES lines of the rendered files); the text reader observeText of Spec.lean (executed by the driver, not verified)",
    "the consumer model (Frag.observe): a collection value is only ever iterated and its elements accessed with the operator of the declared element "
    "pointer depth, a singleton value is accessed through the pointer - tied by the same job stream",
    "C++ meaning of ANA_CHECK / retrieve / getByLabel / getByToken / consumes: runRetrieve is a three-line semantics of the checked idiom, validated "
    "in the thorough tier by running the rendered jobs compiled against tools/c06_lib/cppmock.py (mock event store / event, a test double); "
    "string literal escaping is C18's subject (cppLit is re-stated here and tied by the job stream)",
    "func_adl (front end, extract_metadata order: outermost MetaData first, simplify_chained_calls) - tied only by correspondence",
    "tools/c06_lib/positions.py: the position-expression grammar, its rendering as func_adl text and the emission order of the collection calls "
    "(depth first, func field before arguments, test of a conditional before its branches) - the order is checked by the job stream itself "
    "(a wrong order pairs blocks with the wrong calls); the tree model PExpr of ExtModel.lean abstracts python ast nodes to "
    "{atom, string, name.attr(args), fn(args), other call, other node} and is tied to cpp_ast_finder only through these jobs",
    "tools/c06_lib/render_tr.py (write_cpp_files' list expressions and the #include / LINK_LIBRARIES loops of the templates -> Generated/C06Render.lean); "
    "the include closure read from the rendered files follows #include lines to other rendered files by base name",
    "in restricted / cover mode a block `{ ...; x = result; }` counts as a retrieval only if it holds a retrieve( / getByLabel( / getByToken( call "
    "(inline blocks of C++ functions end in `x = result;` too)",
]
ASSUMPTIONS = [
    "metadata values have the documented Python types (Md.WellTyped); other types are outside the model",
    "type names, collection names and code lines are ASCII (Python's \\b and str.lower are modelled on ASCII; C11 lists the non-ASCII finding)",
    "collection names do not end in a digit (unique_name = name + counter is injective only then; C02/C11 list that finding)",
    "one MetaData dict per declaration with distinct keys; the order in which declarations reach process_metadata is func_adl's (outermost first)",
]
LEVEL_TEXT = (
    "Machine-checked proof (Lean 4, 38 theorems) about an executable model of the collection path (process_metadata branches, backend test, "
    "name table with override, get_collection, whole-word substitution of the bank, process_ast_node, include/library accumulation, name counter): "
    "for every backend, every list of metadata declarations, every list of collection calls with arbitrary bank strings and repetitions and every "
    "position of the name counters, run_spec_partial proves RunSpec: refusal exactly for malformed/foreign declarations and ill-shaped calls, "
    "otherwise one block `T x; { T result(=0); IDIOM_b(T, bank); x = result; }` per call with the hand-written idiom of the backend, distinct "
    "variables, distinct once-declared once-initialised miniAOD tokens, singleton = value, headers/libraries de-duplicated in order of first use; "
    "plus validate_iff, override, backend_refused, call_shape, dedup, failed_retrieve_aborts and decide-theorems over the tables regenerated from "
    "the source on every run (built-in rows, default types, whitelists vs README). Extension: cpp_ast_finder as a traversal of expression trees - "
    "every_collection_call_found: for every tree and every position (arguments of rewritten calls included) each call naming a known function is "
    "rewritten exactly once and none is left (with the no-descent traversal as a proved counterexample); decl_refused_iff / "
    "foreign_decl_refused_any_position: a declaration list is refused iff some member, at any position, is malformed or foreign; "
    "include_closure_covers / link_line_covers / run_spec_closure: on every backend and beside any inject_code blocks the include closure of the "
    "rendered main source (lists and template loops regenerated from executor.py and the templates) holds every header of every used collection. "
    "The decidable RunSpec (RunSpecM with the include clause read exactly / on collection headers / on the include closure) is evaluated on the "
    "text the real pipeline produced for every generated job; model and implementation are compared on the same inputs."
)
LEVEL_NOTE = (
    "Partial where the code violates the property: run_spec_partial excludes (decidable hypotheses, each with a counterexample theorem and a listed "
    "finding replayed every run) CMS singleton declarations (KeyError), container types containing the "
    "word collection_name (hit by the substitution); and collection names ending in a digit (unique_name collision, C02/C11). "
    "Trusted: Lean kernel (axioms audited: propext, Classical.choice, Quot.sound), the hand model's agreement with the Python (differential execution, "
    "not proved), the translator, the harness, the text reader, the consumer model; where in the per-event code the translator places the block "
    "(C01's Gen model) is not part of this claim - blocks are found wherever they are. failed_retrieve_aborts rests on a stated semantics of the "
    "status-checked idiom; the thorough tier validates it by executing g++-compiled jobs against a mock event store with a missing bank "
    "(sampled, not proved). Extension: the finder theorems are about the tree model PExpr (python ast abstracted to six node kinds; tied to "
    "cpp_ast_finder by translating generated queries with collection calls at every position kind, not by a source translator); the include "
    "closure theorems are about write_cpp_files' list expressions and the templates' #include loops as regenerated by render_tr.py (a change of "
    "either to something else than plain concatenation / a plain loop stops render_source_recognised); that the visitor's include list holds the "
    "collection headers beside function headers is tied by the restricted-mode job stream (function headers disjoint from collection headers)."
)
TECHNIQUE = "Lean 4 theorems over an executable model + source translator (tables, templates, metadata branches) + differential execution against the real pipeline"
DESIGN_REF = "DESIGN.md §4 C06"
