"""C14 — injected code blocks land once, in order, in their documented places.

Lean:  lean/FaxVerif/C14/{Model,Spec,Proofs,Theorems,Driver}.lean, lean/FaxVerif/Generated/C14Templates.lean
Tie T: every template file named in the three executors' file lists, and the InjectCodeBlock
       dataclass field list, are re-read from the repository on every run and written as Lean data
       (tools/c14_tmpl/translate.py); the per-template theorems are re-checked by `lake build`.
Tie K: (A) the model's `render` against the real jinja2 on the real template directories, whole files,
           on generated contexts;
       (B) the model's `processMd` against the real `process_metadata`;
       (C) the model's `runPackage` against the real executors (apply_ast_transformations, the public
           `*_include_files` / `private_members` / … properties, write_cpp_files), whole files.
Oracle: the decidable Spec (`SpecProcess`, `SpecFileAt`, `SpecOutcome`) evaluated by the Lean driver on
        what the *implementation* returned, in every stream.
"""
from __future__ import annotations

import copy
import json
import shutil
import tempfile
from pathlib import Path
from typing import Any, Dict, List, Optional, Tuple

ID = "C14"
LEAN_MODULES = ["FaxVerif.C14.Theorems"]
LEAN_SOURCES = ["FaxVerif/C14", "FaxVerif/Generated/C14Templates.lean"]
DRIVER = "FaxVerif/C14/Driver.lean"
THEOREMS = [
    # rendering, for every template / layout / context
    "FaxVerif.C14.render_layout",
    "FaxVerif.C14.verbatim",
    "FaxVerif.C14.order",
    "FaxVerif.C14.once",
    "FaxVerif.C14.render_shape",
    "FaxVerif.C14.region",
    # the templates and the dataclass of the repository as they are on this run (generated constants)
    "FaxVerif.C14.atlas_docs_ok",
    "FaxVerif.C14.cms_aod_docs_ok",
    "FaxVerif.C14.cms_miniaod_docs_ok",
    "FaxVerif.C14.all_templates_have_layouts",
    "FaxVerif.C14.fields_documented",
    "FaxVerif.C14.cms_only_body_includes",
    "FaxVerif.C14.render_shape_atlas",
    "FaxVerif.C14.render_shape_cms_aod",
    "FaxVerif.C14.render_shape_cms_miniaod",
    # metadata
    "FaxVerif.C14.dedup_conflict",
    "FaxVerif.C14.refused_iff_bad",
    "FaxVerif.C14.refusal_kind",
    "FaxVerif.C14.effective_once",
    "FaxVerif.C14.fetch_order",
    "FaxVerif.C14.ok_to_add",
    "FaxVerif.C14.info_lists",
    # whole runs
    "FaxVerif.C14.package",
    "FaxVerif.C14.package_atlas",
    "FaxVerif.C14.package_cms_aod",
    "FaxVerif.C14.package_cms_miniaod",
    "FaxVerif.C14.line_placed",
    "FaxVerif.C14.injected_line_placed",
    "FaxVerif.C14.cms_include_placed",
    "FaxVerif.C14.repeat_invariant",
]
RULE = (
    "three seeded streams. (A) contexts for the real jinja2: for every list variable of the backend's templates 0-4 "
    "lines drawn from a pool of C++/CMake-looking lines and of strings special to jinja2 ({{ }}, {% %}, {# #}, -%}, raw), "
    "to HTML escaping (<, >, &, quotes), to C++ ( //, /* */, braces, backslashes ), unicode, empty string, embedded "
    "newline / tab / CR, leading/trailing blanks, plus random strings over those alphabets; keys sometimes absent. "
    "(B) metadata lists of 0-7 items for process_metadata: inject_code dictionaries over 4 names and any subset of the "
    "7 fields, exact repeats, repeats differing by an explicit empty field, repeats with one changed line, unknown keys, "
    "missing name, empty dictionary, interleaved add_job_script items reusing the names. (C) the same metadata through "
    "the three real executors with a fixed query per backend. A case is non-trivial when (A) >=2 variables hold lines and "
    "a jinja-special string occurs, (B) >=2 inject_code dictionaries of which two share a name or one is malformed, "
    "(C) the package is generated with >=2 non-empty injected fields, or is refused. distinct = distinct input."
)
TRUSTED_BASE = [
    "tools/c14_tmpl/jinja_subset.py: lexer/parser of the jinja2 subset (whitespace control, comments, newline normalisation, trailing newline) that turns template files into Lean data; validated on every run by whole-file equality of the model's rendering with the real jinja2 on every file of every executor's file list",
    "jinja2 rendering of the subset (text, {{ name }}, {% for x in xs %}) is modelled (FaxVerif.Tmpl.render), not verified; same validation",
    "hand model of process_metadata / ok_to_add_code_block / _ib_fetch / the replacement dictionary (Model.lean), tied by differential execution on this run's streams B and C",
    "the structural recognisers of the documented places (Spec.lean: C++ brace/comment scanner, CMake argument scanner, anchors such as `query::initialize()`, `LINK_LIBRARIES`) are part of the specification",
    "String.toList / String.ofList and UTF-8 JSON transport between Python str and Lean List Char (no lone surrogates generated)",
    "func_adl.ast.extract_metadata is used to learn the order in which the executor sees the metadata",
    "the harness tools/props/c14.py (generators, recovery of the query's own lines from the package generated without inject_code blocks)",
]
ASSUMPTIONS = [
    "block names and lines are Python str, field values are lists of str, metadata dictionaries have str keys",
    "templates are rendered by jinja2 with the executor's settings (default Environment: no autoescape, trim_blocks/lstrip_blocks off, keep_trailing_newline off) and written with the locale's UTF-8 encoding",
    "the lines the query itself contributes (query_code, book_code, class_decl, its includes and libraries) do not depend on the inject_code blocks",
]
TECHNIQUE = "Lean 4 theorems over an executable model; templates and dataclass fields regenerated from the source each run; differential execution against jinja2, process_metadata and the three executors; decidable Spec evaluated on the implementation's output"
DESIGN_REF = "DESIGN.md §4 C14, §3.4"

BACKENDS = ["atlas", "cms_aod", "cms_miniaod"]
PROPS = {  # public executor property -> inject_code field
    "body_include_files": "body_includes",
    "header_include_files": "header_includes",
    "private_members": "private_members",
    "instance_initialization": "instance_initialization",
    "ctor_lines": "ctor_lines",
    "link_libraries": "link_libraries",
    "initialize_lines": "initialize_lines",
}
QUERIES = {
    "atlas": ['lambda e: e.EventInfo("EventInfo").runNumber()', "lambda e: 1"],
    "cms_aod": ['lambda e: e.Muons("muons").Count()'],
    "cms_miniaod": ['lambda e: e.Muons("slimmedMuons").Count()'],
}

# ------------------------------------------------------------------ line pools

PLAIN = {
    "body_includes": ["a.h", "xAODJet/Jet.h", "my/Tool.h"],
    "header_includes": ["h1.hpp", "AsgTools/AnaToolHandle.h"],
    "private_members": ["int m_x;", "asg::AnaToolHandle<ITool> m_tool;", "std::vector<float> m_v {1, 2};"],
    "instance_initialization": ["m_x(0)", 'm_tool("Tool/t", this)'],
    "ctor_lines": ["m_x = 1;", 'declareProperty("p", m_x);'],
    "initialize_lines": ["ANA_CHECK(m_tool.retrieve());", "m_x++;"],
    "link_libraries": ["LibA", "xAODJet", "JetCalibToolsLib"],
}
SPECIAL = [
    "{{ l }}", "{{l}}", "{% for x in y %}", "{% endfor %}", "{%- endfor -%}", "{# c #}", "#}", "{{", "}}", "{%", "%}", "-%}",
    "{% raw %}", "{% endraw %}", "{{ x|e }}", "${VAR}", "$(X)",
    'say "hi"', "'c'", "a<b && c>d", "&amp;", "<lib>", "x // comment", "/* c */", "// }", "}", "{", "};", ")", "(",
    "back\\slash", "\\", "tab\there", "two\nlines", "cr\r\nlf", " leading", "trailing ", "", " ", "é ü → 𝒳", "日本",
    '#include "z.h"', "private:", "query :: initialize ()", "LINK_LIBRARIES", "return StatusCode::SUCCESS;",
]
JINJA_SPECIAL = ("{{", "}}", "{%", "%}", "{#", "#}")
ALPHABET = "ab{}%#-+ \"'<>&\\\n/*()_;:,|"
NAMES = ["b1", "b2", "tool", "é"]


def rand_line(rng, field: Optional[str] = None) -> str:
    r = rng.random()
    if r < 0.45 and field in PLAIN:
        return rng.choice(PLAIN[field])
    if r < 0.85:
        return rng.choice(SPECIAL)
    return "".join(rng.choice(ALPHABET) for _ in range(rng.randint(0, 8)))


def rand_lines(rng, field: Optional[str] = None) -> List[str]:
    return [rand_line(rng, field) for _ in range(rng.choice([1, 1, 1, 2, 2, 3, 4]))]


# ------------------------------------------------------------------ metadata generator

def fresh_name(rng, used: List[str]) -> str:
    free = [n for n in NAMES + ["jet_tool", "x y", "{{n}}"] if n not in used]
    return rng.choice(free) if free else "b%d" % len(used)


def rand_block(rng, fields: List[str], name: Optional[str] = None) -> Dict[str, Any]:
    b: Dict[str, Any] = {"metadata_type": "inject_code", "name": name if name is not None else rng.choice(NAMES)}
    k = rng.choice([0, 1, 1, 2, 2, 3, 4, len(fields)])
    for f in rng.sample(fields, min(k, len(fields))):
        b[f] = rand_lines(rng, f)
    return b


def rand_mds(rng, fields: List[str], allow_bad: bool = True) -> List[Dict[str, Any]]:
    """A metadata list; `allow_bad` controls unknown keys / missing names / conflicts."""
    n = rng.choice([0, 1, 1, 2, 2, 3, 3, 4, 5, 7])
    mds: List[Dict[str, Any]] = []
    want_conflict = allow_bad and rng.random() < 0.12
    want_malformed = allow_bad and rng.random() < 0.10
    for i in range(n):
        r = rng.random()
        prev = [m for m in mds if m["metadata_type"] == "inject_code" and "name" in m]
        if prev and r < 0.25:  # identical repeat, possibly spelt differently
            m = copy.deepcopy(rng.choice(prev))
            absent = [f for f in fields if f not in m]
            if absent and rng.random() < 0.5:
                m[rng.choice(absent)] = []  # an explicit empty field is the default: still identical
            if rng.random() < 0.3:  # key order does not matter
                items = list(m.items())
                rng.shuffle(items)
                m = dict(items)
            mds.append(m)
        elif prev and want_conflict and r < 0.55:
            m = copy.deepcopy(rng.choice(prev))
            f = rng.choice(fields)
            kind = rng.random()
            old = list(m.get(f, []))
            if kind < 0.4 or not old:
                m[f] = old + [rand_line(rng, f)]
            elif kind < 0.7:
                m[f] = old[:-1]
            else:
                m[f] = list(reversed(old)) if len(set(old)) > 1 else old + ["x"]
            mds.append(m)
        elif r < 0.70 or not allow_bad:
            # a new name, unless a clash is wanted (two random blocks of one name nearly always differ)
            used = [m.get("name") for m in prev]
            mds.append(rand_block(rng, fields, None if want_conflict and rng.random() < 0.3 else fresh_name(rng, used)))
        elif r < 0.85:
            # another kind of metadata whose object also has `.name` (possibly the same name)
            mds.append({"metadata_type": "add_job_script", "name": "js%d_%s" % (i, rng.choice(NAMES)) if rng.random() < 0.5 else rng.choice(NAMES) + "_js%d" % i,
                        "script": [rng.choice(["job.options().setDouble(ROOT.EL.Job.optMaxEvents, 5)", "# {{i}}", "print('x')"]) for _ in range(rng.randint(0, 2))], "depends_on": []})
        elif r < 0.90:
            mds.append({"metadata_type": "inject_code"})  # no key at all: skipped
        else:
            mds.append(rand_block(rng, fields, fresh_name(rng, [m.get("name") for m in prev])))
    if want_malformed and mds:
        cands = [m for m in mds if m["metadata_type"] == "inject_code"]
        if cands:
            m = rng.choice(cands)
            k = rng.random()
            if k < 0.5:
                m[rng.choice(["bodyincludes", "include_files", "ctor_line", "name2", "Private_members"])] = rand_lines(rng)
            elif k < 0.8 and "name" in m and len(m) > 2:
                del m["name"]
            else:
                m["unknown_field"] = []
    return mds


def same_script_names_ok(mds) -> bool:
    names = [m["name"] for m in mds if m["metadata_type"] == "add_job_script"]
    return len(names) == len(set(names))


def md_to_model(m: Dict[str, Any]) -> Dict[str, Any]:
    if m["metadata_type"] != "inject_code":
        return {"other": str(m.get("name", ""))}
    return {"inject": {"name": m.get("name"), "fields": [[k, list(v)] for k, v in m.items() if k not in ("metadata_type", "name")]}}


def job_lines(mds) -> List[str]:
    out: List[str] = []
    for m in mds:
        if m["metadata_type"] == "add_job_script":
            out.extend(m["script"])
    return out


# ------------------------------------------------------------------ the implementation

def real_process(mds: List[Dict[str, Any]], fields: List[str]) -> Dict[str, Any]:
    from func_adl_xAOD.common.meta_data import InjectCodeBlock, process_metadata

    try:
        res = process_metadata(copy.deepcopy(mds))
    except Exception as e:
        return {"err": type(e).__name__}
    blocks = []
    for b in res:
        if isinstance(b, InjectCodeBlock):
            blocks.append({"name": b.name, "vals": [[f, list(getattr(b, f))] for f in fields]})
    return {"ok": blocks}


_DS = None


def _dataset():
    global _DS
    if _DS is None:
        from func_adl import EventDataset

        class DS(EventDataset):
            async def execute_result_async(self, a, title):
                return a

        _DS = DS
    return _DS()


def executor_for(backend: str):
    if backend == "atlas":
        from func_adl_xAOD.atlas.xaod.executor import atlas_xaod_executor

        return atlas_xaod_executor()
    if backend == "cms_aod":
        from func_adl_xAOD.cms.aod.executor import cms_aod_executor

        return cms_aod_executor()
    from func_adl_xAOD.cms.miniaod.executor import cms_miniaod_executor

    return cms_miniaod_executor()


def deterministic_names():
    """Generated C++ names carry a process-wide running index (common/cpp_vars.unique_var_index);
    restart it before each run so that the query's own lines are the same text in every run."""
    import vlib

    try:
        import func_adl_xAOD.common.cpp_vars as cpp_vars

        if not isinstance(cpp_vars.unique_var_index, int):
            raise AttributeError
        cpp_vars.unique_var_index = 0
    except (ImportError, AttributeError):
        raise vlib.InternalError("cannot restart the generated-name index (func_adl_xAOD.common.cpp_vars.unique_var_index): the query's own lines would differ from run to run")


def real_package(backend: str, mds: List[Dict[str, Any]], query: str) -> Dict[str, Any]:
    """The public pipeline. Returns the metadata in the order the executor sees it, the public
    inject properties after apply_ast_transformations, and the text of every generated file."""
    import logging

    from func_adl.ast import extract_metadata

    logging.disable(logging.WARNING)
    executor_for(backend)  # imports (some consume name indices at import time) happen before the restart
    deterministic_names()
    ds = _dataset()
    for m in mds:
        ds = ds.MetaData(copy.deepcopy(m))
    a = ds.Select(query).value()
    _, seen = extract_metadata(copy.deepcopy(a))  # the visitor rewrites the tree it is given
    res: Dict[str, Any] = {"seen": seen}
    d = tempfile.mkdtemp(prefix="c14_")
    try:
        exe = executor_for(backend)
        try:
            a2 = exe.apply_ast_transformations(a)
            res["props"] = {p: list(getattr(exe, p)) for p in PROPS}
            info = exe.write_cpp_files(a2, Path(d))
            res["files"] = {f: (Path(d) / f).read_bytes().decode("utf-8") for f in info.all_filenames}
        except Exception as e:
            res["err"] = type(e).__name__
            try:
                exe.reset()
            except Exception:
                pass
    finally:
        shutil.rmtree(d, ignore_errors=True)
    return res


def real_render(tdir: Path, files: List[str], info: Dict[str, Any], via_file: bool) -> Dict[str, str]:
    """What executor._copy_template_file does, for every file of the list."""
    import jinja2

    env = jinja2.Environment(loader=jinja2.FileSystemLoader(str(tdir)))
    out = {}
    if via_file:
        d = tempfile.mkdtemp(prefix="c14_")
        try:
            for f in files:
                env.get_template(f).stream(info).dump(str(Path(d) / f))
                out[f] = (Path(d) / f).read_bytes().decode("utf-8")
        finally:
            shutil.rmtree(d, ignore_errors=True)
    else:
        for f in files:
            out[f] = "".join(env.get_template(f).stream(info))
    return out


# ------------------------------------------------------------------ the query's own lines

def unrender(layout: Dict[str, Any], text: str) -> Optional[Dict[str, List[str]]]:
    """Read the lists back out of a file rendered from `layout` (used on the package generated
    *without* inject_code blocks, whose content is the translator's own benign output)."""
    head, rest = layout["head"], layout["rest"]
    if not text.startswith(head):
        return None

    def merge(a: Dict[str, List[str]], xs: str, items: List[str]) -> Optional[Dict[str, List[str]]]:
        if xs in a and a[xs] != items:
            return None
        r = dict(a)
        r[xs] = items
        return r

    def go(i: int, pos: int) -> Optional[Dict[str, List[str]]]:
        if i == len(rest):
            return {} if pos == len(text) else None
        s = rest[i]
        pre, post, static = s["pre"], s["post"], s["static"]

        def items(pos: int, acc: List[str], depth: int) -> Optional[Dict[str, List[str]]]:
            if text.startswith(static, pos):
                r = go(i + 1, pos + len(static))
                if r is not None:
                    m = merge(r, s["xs"], acc)
                    if m is not None:
                        return m
            if depth > 400 or not text.startswith(pre, pos):
                return None
            start = pos + len(pre)
            # the item: up to an occurrence of `post`; the translator's own lines are short and may
            # end with a newline (class declarations do), so look at most three newlines ahead
            limit = start
            for _ in range(3):
                nl = text.find("\n", limit + 1 if limit > start else start)
                if nl < 0:
                    limit = len(text)
                    break
                limit = nl
            ends = []
            if post:
                j = text.find(post, start)
                while 0 <= j <= limit:
                    ends.append(j)
                    j = text.find(post, j + 1)
            else:
                ends = list(range(start + 1, limit + 1))
            for j in ends:
                r = items(j + len(post), acc + [text[start:j]], depth + 1)
                if r is not None:
                    return r
            return None

        return items(pos, [], 0)

    return go(0, len(head))


class Baseline:
    """Per (backend, query): the lines the query itself contributes, recovered from the package the
    real executor generates without any inject_code block."""

    def __init__(self, ctx, fields: List[str]):
        self.ctx = ctx
        self.fields = fields
        self.cache: Dict[Tuple[str, str], Optional[Dict[str, List[str]]]] = {}
        self.layouts: Dict[Tuple[str, str], Any] = {}

    def layout(self, backend: str, file: str):
        k = (backend, file)
        if not self.layouts:  # one driver call for every file of every backend
            t = self.ctx.c14_templates
            ks = [(b, f) for b in BACKENDS for f in (t.backends[b]["files"] or [])]
            ans = self.ctx.driver(DRIVER, [{"op": "layout", "backend": b, "file": f} for b, f in ks])
            self.layouts = dict(zip(ks, ans))
        if k not in self.layouts:
            self.layouts[k] = self.ctx.driver(DRIVER, [{"op": "layout", "backend": backend, "file": file}])[0]
        return self.layouts[k]

    def get(self, backend: str, query: str) -> Optional[Dict[str, List[str]]]:
        k = (backend, query)
        if k in self.cache:
            return self.cache[k]
        r = real_package(backend, [], query)
        base: Optional[Dict[str, List[str]]] = None
        if "files" in r:
            lists: Dict[str, List[str]] = {}
            ok = True
            for f, text in r["files"].items():
                lay = self.layout(backend, f)
                if "head" not in lay:
                    ok = ok and False if lay.get("none") and any(x in text for x in ()) else ok
                    continue
                u = unrender(lay, text)
                if u is None:
                    ok = False
                    self.ctx.notes.append(f"baseline: cannot read the query's own lines back from {backend}/{f}")
                    continue
                for xs, items in u.items():
                    if xs in lists and lists[xs] != items:
                        ok = False
                    lists[xs] = items
            if ok:
                base = {
                    "query_code": lists.get("query_code", []),
                    "class_decl": lists.get("class_decl", []),
                    "book_code": lists.get("book_code", []),
                    "includes": lists.get("body_include_files", []),
                    "link_libs": lists.get("link_libraries", []),
                }
        self.cache[k] = base
        return base


# ------------------------------------------------------------------ translate

def translate(ctx):
    import vlib
    from c14_tmpl.translate import Templates

    t = Templates(vlib.REPO)
    ctx.c14_templates = t
    changed = vlib.write_if_changed(vlib.LEAN / "FaxVerif" / "Generated" / "C14Templates.lean", t.lean())
    ctx.count("translator:files", sum(len(e["files"] or []) for e in t.backends.values()))
    if changed:
        ctx.notes.append("Generated/C14Templates.lean rewritten from the repository's templates")


# ------------------------------------------------------------------ streams

def stream_sizes(ctx) -> Dict[str, int]:
    if ctx.tier == "quick":
        return {"A": 120, "B": 3000, "C": 400}
    return {"A": 1000, "B": 30000, "C": 3000}


def template_vars(t, backend: str) -> List[str]:
    vs: List[str] = []

    def walk(nodes):
        for n in nodes:
            if n[0] == "for":
                if n[2] not in vs:
                    vs.append(n[2])
                walk(n[3])

    for f, ast_ in t.backends[backend]["strict"].items():
        walk(ast_)
    return vs


def rand_info(rng, vars_: List[str]) -> Dict[str, List[str]]:
    info: Dict[str, List[str]] = {}
    style = rng.random()
    for v in vars_:
        r = rng.random()
        if style < 0.1:
            continue  # everything undefined
        if r < 0.12:
            continue  # undefined: jinja2 iterates over nothing
        if r < 0.3:
            info[v] = []
        else:
            info[v] = [rand_line(rng, None) for _ in range(rng.choice([1, 1, 2, 2, 3, 4]))]
    if rng.random() < 0.3:
        info["not_a_template_variable"] = ["x"]
    return info


def sample_for(ctx, stream: str, nontrivial: bool, sample: Any) -> Any:
    """At most two recorded samples per stream, so that the evidence shows all three."""
    seen = ctx.__dict__.setdefault("c14_samples", {})
    if nontrivial and seen.get(stream, 0) < 2:
        seen[stream] = seen.get(stream, 0) + 1
        return sample
    return None


def run_stream_a(ctx, n: int):
    """model render vs real jinja2, whole files, every file of every backend; Spec on jinja2's output."""
    import vlib

    t = ctx.c14_templates
    cases = []
    for backend in BACKENDS:
        e = t.backends[backend]
        if e["files"] is None or e["dir"] is None:
            ctx.broken.append({"kind": "translator", "what": f"file list / template directory of the {backend} executor not recognised"})
            continue
        vars_ = template_vars(t, backend)
        for i in range(n):
            info = rand_info(ctx.rng, vars_) if i > 0 else {}
            try:
                out = real_render(vlib.REPO / e["dir"], e["files"], info, via_file=(i % 10 == 0))
                cases.append((backend, info, {"files": out}))
            except Exception as ex:  # jinja2 refuses the template: nothing can be generated
                cases.append((backend, info, {"err": type(ex).__name__ + ": " + str(ex)[:200]}))
    reqs = []
    for backend, info, r in cases:
        reqs.append({"op": "render", "backend": backend, "lists": info})
        reqs.append({"op": "spec_info", "backend": backend, "lists": info, "files": r.get("files", {})})
    ans = ctx.driver(DRIVER, reqs)
    for i, (backend, info, r) in enumerate(cases):
        m, s = ans[2 * i], ans[2 * i + 1]
        special = any(any(j in l for j in JINJA_SPECIAL) for ls in info.values() for l in ls)
        nonempty = sum(1 for ls in info.values() if ls)
        ctx.count("A:backend:" + backend)
        ctx.count("A:nonempty-lists:%d" % min(nonempty, 6))
        nt = nonempty >= 2 and special
        ctx.case(["A", backend, info], nt, sample_for(ctx, "A", nt, {"stream": "A", "backend": backend, "lists": info}))
        if "bad" in m or "bad" in s:
            continue
        if "err" in r:
            ctx.count("A:jinja-error")
            ctx.violation(key=key_of({"stream": "A", "backend": backend, "lists": info}), what="jinja2 cannot render a template of the package: " + r["err"],
                          case={"stream": "A", "backend": backend, "lists": info}, observed=r, how="render the backend's template directory with jinja2.Environment(loader=FileSystemLoader(dir)) and the lists of `case`")
            continue
        if not s.get("holds", False):
            ctx.violation(key="render:" + backend + ":" + json.dumps(info, sort_keys=True, ensure_ascii=False), what="rendered file violates the layout specification: " + str(s.get("why")),
                          case={"stream": "A", "backend": backend, "lists": info}, observed={k: v for k, v in r["files"].items() if k in str(s.get("why"))},
                          how="jinja2.Environment(loader=FileSystemLoader(<template dir of the backend>)).get_template(f).stream(lists).dump(path) for the lists of `case`")
        unrec = [f for f, ok in m.get("recognised", {}).items() if not ok]
        if unrec:
            ctx.disagreement("jinja2-render", {"backend": backend, "lists": info}, {"unrecognised directive in": unrec}, {"rendered": True})
        elif m.get("files") != r["files"]:
            diff = [f for f in r["files"] if m.get("files", {}).get(f) != r["files"][f]]
            f0 = diff[0] if diff else "?"
            ctx.disagreement("jinja2-render", {"backend": backend, "lists": info, "file": f0}, m.get("files", {}).get(f0), r["files"].get(f0))


def exhaustive_mds(fields: List[str], maxlen: int):
    """Every metadata list of <= maxlen items over a small alphabet of items: two names x presence /
    emptiness / two contents of one field x presence of another field, an unknown key, a missing
    name, the empty dictionary, a non-inject item carrying one of the names."""
    import itertools

    f1, f2 = fields[0], fields[-1]
    forms: List[Dict[str, Any]] = []
    for name in ("a", "b"):
        for v1 in (None, [], ["x"], ["y"]):
            for v2 in (None, ["x"]):
                m: Dict[str, Any] = {"metadata_type": "inject_code", "name": name}
                if v1 is not None:
                    m[f1] = v1
                if v2 is not None:
                    m[f2] = v2
                forms.append(m)
    forms.append({"metadata_type": "inject_code", "name": "a", "no_such_field": ["x"]})
    forms.append({"metadata_type": "inject_code", f1: ["x"]})
    forms.append({"metadata_type": "inject_code"})
    forms.append({"metadata_type": "add_job_script", "name": "a", "script": ["s"], "depends_on": []})
    for k in range(maxlen + 1):
        for combo in itertools.product(forms, repeat=k):
            yield [copy.deepcopy(m) for m in combo]


def run_stream_b(ctx, n: int, fields: List[str]):
    """model processMd vs real process_metadata; SpecProcess on the real outcome."""
    cases = []
    nex = 0
    if fields:
        for mds in exhaustive_mds(fields, 2 if ctx.tier == "quick" else 3):
            cases.append((mds, real_process(mds, fields)))
            nex += 1
    ctx.count("B:exhaustive", nex)
    ctx.extra_cov["exhaustive_part"] = "stream B: all metadata lists of <=%d items over 20 item forms (2 names x 4 states of one field x 2 states of another, unknown key, missing name, empty dictionary, a job-script item of the same name)" % (2 if ctx.tier == "quick" else 3)
    for i in range(n):
        mds = rand_mds(ctx.rng, fields)
        cases.append((mds, real_process(mds, fields)))
    reqs = []
    for mds, r in cases:
        mm = [md_to_model(m) for m in mds]
        reqs.append({"op": "process", "mds": mm})
        reqs.append({"op": "spec_process", "mds": mm, "outcome": {"ok": r["ok"]} if "ok" in r else {"refused": True}})
    ans = ctx.driver(DRIVER, reqs)
    for i, (mds, r) in enumerate(cases):
        m, s = ans[2 * i], ans[2 * i + 1]
        inj = [x for x in mds if x["metadata_type"] == "inject_code" and len(x) > 1]
        names = [x.get("name") for x in inj]
        ctx.count("B:impl:" + ("ok" if "ok" in r else r["err"]))
        ctx.count("B:items:%d" % min(len(mds), 8))
        nt = len(inj) >= 2 and (len(set(names)) < len(names) or "err" in r)
        ctx.case(["B", mds], nt, sample_for(ctx, "B", nt and len(mds) >= 3, {"stream": "B", "mds": mds, "implementation": r if "err" in r else {"kept blocks": [b["name"] for b in r["ok"]]}}))
        if "bad" in m or "bad" in s:
            continue
        key = "process:" + json.dumps(mds, sort_keys=True, ensure_ascii=False)
        if not s.get("holds", False):
            ctx.violation(key=key, what="process_metadata violates the block specification: " + str(s.get("why")), case={"stream": "B", "mds": mds}, observed=r,
                          how="func_adl_xAOD.common.meta_data.process_metadata(case['mds'])")
        # any exception is a refusal: the class (ValueError today) is not part of the property
        canon_m = {"ok": m["ok"]} if "ok" in m else {"refused": True}
        canon_r = {"ok": r["ok"]} if "ok" in r else {"refused": True}
        if canon_m != canon_r:
            ctx.disagreement("process_metadata", {"mds": mds}, canon_m, canon_r)


def pipeline_case(ctx, base: Baseline, backend: str, mds: List[Dict[str, Any]], query: str) -> Dict[str, Any]:
    r = real_package(backend, mds, query)
    b = base.get(backend, query)
    return {"backend": backend, "mds": mds, "query": query, "real": r, "base": b}


def pipeline_requests(c: Dict[str, Any]) -> List[Dict[str, Any]]:
    seen = c["real"]["seen"]
    mm = [md_to_model(m) for m in seen]
    b = dict(c["base"] or {})
    b["job_options"] = job_lines(seen) if c["backend"] == "atlas" else []
    out = {"files": c["real"]["files"]} if "files" in c["real"] else {"refused": True}
    return [
        {"op": "package", "backend": c["backend"], "mds": mm, "base": b},
        {"op": "spec", "backend": c["backend"], "mds": mm, "base": b, "outcome": out},
    ]


def judge_pipeline(ctx, c: Dict[str, Any], m: Dict[str, Any], s: Dict[str, Any], report: bool = True) -> Optional[Dict[str, Any]]:
    """Returns a violation record if the Spec fails on the implementation's output."""
    r = c["real"]
    case = {"stream": "C", "backend": c["backend"], "query": c["query"], "mds": c["mds"]}
    key = "package:" + c["backend"] + ":" + json.dumps(c["mds"], sort_keys=True, ensure_ascii=False)
    how = "ds.MetaData(m) for m in case['mds'] in order, .Select(case['query']).value(); exe = <backend>_executor(); exe.write_cpp_files(exe.apply_ast_transformations(ast), dir)"
    v = None
    if not s.get("holds", False):
        why = str(s.get("why"))
        obs: Dict[str, Any] = {"err": r["err"]} if "err" in r else ({f: t for f, t in r["files"].items() if f in why} or {"generated_files": sorted(r["files"])})
        v = {"key": key, "what": "generated package violates the specification: " + why, "case": case, "observed": obs, "how": how}
    if v is not None and report:
        ctx.violation(key=v["key"], what=v["what"], case=v["case"], observed=v["observed"], how=v["how"])
    return v


def run_stream_c(ctx, n: int, fields: List[str]):
    base = Baseline(ctx, fields)
    cases = []
    for i in range(n):
        backend = BACKENDS[0] if i % 5 < 3 else BACKENDS[1 + (i % 2)]
        query = QUERIES[backend][0] if ctx.rng.random() < 0.8 else ctx.rng.choice(QUERIES[backend])
        mds = rand_mds(ctx.rng, fields)
        while not same_script_names_ok(mds):
            mds = rand_mds(ctx.rng, fields)
        cases.append(pipeline_case(ctx, base, backend, mds, query))
        if i % 50 == 0:
            ctx.check_time()
    usable = [c for c in cases if c["base"] is not None]
    if len(usable) < len(cases):
        ctx.broken.append({"kind": "baseline", "what": "the query's own lines could not be read back from the package generated without inject_code blocks",
                           "backends": sorted({c["backend"] for c in cases if c["base"] is None})})
    reqs = []
    for c in usable:
        reqs.extend(pipeline_requests(c))
    ans = ctx.driver(DRIVER, reqs)
    for i, c in enumerate(usable):
        m, s = ans[2 * i], ans[2 * i + 1]
        r = c["real"]
        ctx.count("C:backend:" + c["backend"])
        ctx.count("C:impl:" + ("ok" if "files" in r else r.get("err", "?")))
        nf = 0
        if "props" in r:
            nf = sum(1 for p in PROPS if r["props"][p])
        ctx.count("C:nonempty-fields:%d" % nf)
        nt = nf >= 2 or "err" in r
        ctx.case(["C", c["backend"], c["query"], c["mds"]], nt, sample_for(ctx, "C", nf >= 3, {"stream": "C", "backend": c["backend"], "mds": c["mds"], "outcome": "generated" if "files" in r else r.get("err")}))
        if "bad" in m or "bad" in s:
            continue
        judge_pipeline(ctx, c, m, s)
        # the tie
        if "err" in r:
            if "err" not in m:
                ctx.disagreement("executor", {"backend": c["backend"], "mds": c["mds"]}, "generated", r["err"])
            continue
        if "err" in m:
            ctx.disagreement("executor", {"backend": c["backend"], "mds": c["mds"]}, m["err"], "generated")
            continue
        # public properties of the executor vs the model's lists (the injected part)
        lists = m.get("lists", {})
        b = c["base"]
        for p, f in PROPS.items():
            want = lists.get(p, [])
            if p == "body_include_files":
                want = want[len(b["includes"]):]
            if p == "link_libraries":
                want = want[len(b["link_libs"]):]
            if want != r["props"][p]:
                ctx.disagreement("executor." + p, {"backend": c["backend"], "mds": c["mds"]}, want, r["props"][p])
                break
        else:
            if m.get("files") != r["files"]:
                diff = [f for f in r["files"] if m.get("files", {}).get(f) != r["files"][f]]
                f0 = diff[0] if diff else "?"
                ctx.disagreement("write_cpp_files", {"backend": c["backend"], "mds": c["mds"], "file": f0}, m.get("files", {}).get(f0), r["files"].get(f0))
    return base


def key_of(inp: Dict[str, Any]) -> str:
    """Canonical form of a failing input."""
    if inp.get("stream") == "A":
        return "render:" + inp["backend"] + ":" + json.dumps(inp["lists"], sort_keys=True, ensure_ascii=False)
    if inp.get("stream") == "B":
        return "process:" + json.dumps(inp["mds"], sort_keys=True, ensure_ascii=False)
    return "package:" + inp["backend"] + ":" + json.dumps(inp["mds"], sort_keys=True, ensure_ascii=False)


def replay_known(ctx, fields: List[str]):
    """Findings stream: every listed input is replayed on the real code."""
    entries = [(st, e) for st in ("known", "fixed") for e in ctx.known_entries(st)]
    if not entries:
        return
    base = Baseline(ctx, fields)
    for (status, e), v in zip(entries, replay_inputs(ctx, [e["input"] for _, e in entries], base, fields)):
        if v is not None:
            key = e["key"] if status == "known" else "regressed:" + e["key"]
            ctx.violation(key=key, what=v["what"], case=v["case"], observed=v.get("observed"), how=v.get("how", ""))


def prepare_input(ctx, inp: Dict[str, Any], base: Optional["Baseline"], fields: List[str]):
    """Run one recorded case on the real code. Returns (driver requests, judge) where
    judge(answers) -> violation record or None; or (None, verdict) when no driver call is needed."""
    stream = inp.get("stream")
    if stream == "A":
        import vlib

        e = ctx.c14_templates.backends[inp["backend"]]
        try:
            out = real_render(vlib.REPO / e["dir"], e["files"], inp["lists"], via_file=True)
        except Exception as ex:
            return None, {"what": "jinja2 cannot render: " + str(ex)[:200], "case": inp, "observed": None}

        def judge_a(ans):
            s = ans[0]
            if s.get("holds") or "bad" in s:
                return None
            return {"what": "rendered file violates the layout specification: " + str(s.get("why")), "case": inp, "observed": {k: v for k, v in out.items() if k in str(s.get("why"))}}

        return [{"op": "spec_info", "backend": inp["backend"], "lists": inp["lists"], "files": out}], judge_a
    if stream == "B":
        r = real_process(inp["mds"], fields)
        mm = [md_to_model(m) for m in inp["mds"]]

        def judge_b(ans):
            s = ans[0]
            if s.get("holds") or "bad" in s:
                return None
            return {"what": "process_metadata violates the block specification: " + str(s.get("why")), "case": inp, "observed": r}

        return [{"op": "spec_process", "mds": mm, "outcome": {"ok": r["ok"]} if "ok" in r else {"refused": True}}], judge_b
    if stream == "C":
        if base is None:
            base = Baseline(ctx, fields)
        c = pipeline_case(ctx, base, inp["backend"], inp["mds"], inp.get("query", QUERIES[inp["backend"]][0]))
        if c["base"] is None:
            return None, {"what": "the package generated without inject_code blocks cannot be read back against its templates", "case": inp, "observed": None}

        def judge_c(ans):
            if "bad" in ans[1]:
                return None
            return judge_pipeline(ctx, c, ans[0], ans[1], report=False)

        return pipeline_requests(c), judge_c
    return None, None


def replay_inputs(ctx, inps: List[Dict[str, Any]], base: Optional["Baseline"], fields: List[str]) -> List[Optional[Dict[str, Any]]]:
    """Many cases, one driver call. Returns a violation record (or None) per case."""
    prepared = [prepare_input(ctx, i, base, fields) for i in inps]
    reqs: List[Dict[str, Any]] = []
    spans = []
    for r, j in prepared:
        if r is None:
            spans.append(None)
        else:
            spans.append((len(reqs), len(reqs) + len(r)))
            reqs.extend(r)
    ans = ctx.driver(DRIVER, reqs)
    out = []
    for (r, j), sp in zip(prepared, spans):
        out.append(j if sp is None else j(ans[sp[0]:sp[1]]))
    return out


def replay_input(ctx, inp: Dict[str, Any], base: Optional["Baseline"], fields: List[str]):
    """Re-run one recorded case on the real code; returns (rc, violation or None)."""
    if inp.get("stream") not in ("A", "B", "C"):
        return 2, None
    v = replay_inputs(ctx, [inp], base, fields)[0]
    return (0, None) if v is None else (1, v)


def run(ctx):
    import dataclasses

    import vlib

    if not hasattr(ctx, "c14_templates"):
        translate(ctx)
    # the translator's reading of the dataclass against the running code
    from func_adl_xAOD.common.meta_data import InjectCodeBlock

    real_fields = [f.name for f in dataclasses.fields(InjectCodeBlock) if f.name != "name"]
    gen = ctx.driver(DRIVER, [{"op": "fields"}] + [{"op": "docs_ok", "backend": b} for b in BACKENDS])
    if "bad" in gen[0]:
        return
    fields = gen[0]["fields"]
    if fields != real_fields:
        ctx.disagreement("InjectCodeBlock-fields", {}, fields, real_fields)
        fields = real_fields
    for b, g in zip(BACKENDS, gen[1:]):
        ctx.count("docs_ok:" + b + ":" + str(g.get("ok")))
        if not g.get("ok"):
            ctx.notes.append(f"templates of {b} are not at their documented places: {g.get('detail')}")

    replay_known(ctx, fields)
    corpus = [c.get("case", c) for c in vlib.corpus_cases(ID)]
    corpus = [c for c in corpus if isinstance(c, dict) and c.get("stream") in ("A", "B", "C")]
    if corpus:
        base0 = Baseline(ctx, fields)
        for c, v in zip(corpus, replay_inputs(ctx, corpus, base0, fields)):
            ctx.case(["corpus", c], True)
            ctx.count("corpus")
            if v is not None:
                ctx.violation(key=key_of(c), what=v["what"], case=v["case"], observed=v.get("observed"), how=v.get("how", ""))

    sizes = stream_sizes(ctx)
    run_stream_a(ctx, sizes["A"])
    ctx.check_time()
    run_stream_b(ctx, sizes["B"], fields)
    ctx.check_time()
    run_stream_c(ctx, sizes["C"], fields)
    # present failing inputs in their smallest form; a shrunk input that is a listed finding is reported as such
    if ctx.violations:
        recorded, ctx.violations = ctx.violations, []
        base = Baseline(ctx, fields)
        for v0 in recorded[:3]:
            case0 = v0.get("case")
            if not (isinstance(case0, dict) and case0.get("stream") in ("A", "B", "C")) or str(v0.get("key", "")).startswith(("regressed:", "corpus:")):
                ctx.violations.append(v0)
                continue
            try:
                small = shrink(ctx, case0, base, fields)
                rc, v = replay_input(ctx, small, base, fields)
            except Exception as e:  # shrinking is a convenience
                ctx.notes.append(f"shrinking raised {type(e).__name__}: {e}")
                small, v = case0, None
            if v is None:
                ctx.violations.append(v0)
            else:
                ctx.violation(key=key_of(small), what=v["what"], case=small, observed=v.get("observed"), how=v0.get("replay_how", ""))
    ctx.extra_cov["exhaustive"] = False
    ctx.extra_cov["streams"] = sizes
    ctx.extra_cov["generated_from_source"] = {k: {"dir": e["dir"], "files": e["files"]} for k, e in ctx.c14_templates.backends.items()}


# ------------------------------------------------------------------ search / shrink / replay

def targeted_mds(rng, fields: List[str]) -> List[List[Dict[str, Any]]]:
    """Inputs derived from what usually breaks: every field filled, special characters, two blocks,
    repeats, conflicts, malformed dictionaries."""
    out: List[List[Dict[str, Any]]] = []
    for f in fields:
        out.append([{"metadata_type": "inject_code", "name": "b1", f: ["x1", "x2"]}])
        out.append([{"metadata_type": "inject_code", "name": "b1", f: ["a<b>&\"'"]}])
        out.append([{"metadata_type": "inject_code", "name": "b1", f: ["x1"]}, {"metadata_type": "inject_code", "name": "b2", f: ["y1"]}])
    full = {"metadata_type": "inject_code", "name": "b1"}
    for f in fields:
        full[f] = [f + "_1", f + "_2"]
    out.append([full])
    out.append([full, copy.deepcopy(full)])
    out.append([{"metadata_type": "inject_code", "name": "b1", fields[0]: ["x"]}, {"metadata_type": "inject_code", "name": "b1", fields[0]: ["y"]}])
    out.append([{"metadata_type": "inject_code", "name": "b1", fields[0]: ["x"]}, {"metadata_type": "inject_code", "name": "b1", fields[-1]: ["y"]}])
    out.append([{"metadata_type": "inject_code", "name": "b1", "no_such_field": ["x"]}])
    out.append([{"metadata_type": "inject_code", fields[0]: ["x"]}])
    out.append([{"metadata_type": "add_job_script", "name": "b1", "script": ["s"], "depends_on": []}, {"metadata_type": "inject_code", "name": "b1", fields[0]: ["x"]}])
    for _ in range(300):
        out.append(rand_mds(rng, fields))
    return [m for m in out if same_script_names_ok(m)]


def search(ctx, broken):
    """Targeted + random sweep through the real executors and process_metadata with the Spec on the
    implementation's output as the only judge; shrink the first failing input."""
    import dataclasses

    from func_adl_xAOD.common.meta_data import InjectCodeBlock

    fields = [f.name for f in dataclasses.fields(InjectCodeBlock) if f.name != "name"]
    base = Baseline(ctx, fields)
    # (1) metadata level
    t_mds = targeted_mds(ctx.rng, fields)
    rs = [real_process(m, fields) for m in t_mds]
    ans = ctx.driver(DRIVER, [{"op": "spec_process", "mds": [md_to_model(x) for x in m], "outcome": {"ok": r["ok"]} if "ok" in r else {"refused": True}} for m, r in zip(t_mds, rs)])
    for m, r, s in zip(t_mds, rs, ans):
        if "bad" in s:
            break
        if not s.get("holds", False):
            inp = shrink(ctx, {"stream": "B", "mds": m}, base, fields)
            rc, v = replay_input(ctx, inp, base, fields)
            if v is not None:
                return {"key": "process:" + json.dumps(inp["mds"], sort_keys=True, ensure_ascii=False), "what": v["what"], "case": inp, "observed": v.get("observed")}
    # (2) packages
    for backend in BACKENDS:
        cases = [pipeline_case(ctx, base, backend, m, QUERIES[backend][0]) for m in t_mds]
        usable = [c for c in cases if c["base"] is not None]
        if not usable:
            # not even the package without blocks can be explained by the templates: report that input
            rc, v = replay_input(ctx, {"stream": "C", "backend": backend, "mds": []}, base, fields)
            if v is not None:
                return {"key": "package:" + backend + ":[]", "what": v["what"], "case": v["case"], "observed": v.get("observed")}
            continue
        reqs = []
        for c in usable:
            reqs.extend(pipeline_requests(c))
        ans = ctx.driver(DRIVER, reqs)
        for i, c in enumerate(usable):
            m, s = ans[2 * i], ans[2 * i + 1]
            if "bad" in s:
                break
            v = judge_pipeline(ctx, c, m, s, report=False)
            if v is not None:
                inp = shrink(ctx, v["case"], base, fields)
                rc, v2 = replay_input(ctx, inp, base, fields)
                v = v2 or v
                return {"key": "package:" + backend + ":" + json.dumps(inp["mds"], sort_keys=True, ensure_ascii=False), "what": v["what"], "case": inp, "observed": v.get("observed")}
    # (3) the templates against jinja2 with hostile contexts
    import vlib

    t = ctx.c14_templates
    for backend in BACKENDS:
        e = t.backends[backend]
        if e["files"] is None or e["dir"] is None:
            continue
        vars_ = template_vars(t, backend)
        infos = [{v: [sp] for v in vars_} for sp in SPECIAL] + [rand_info(ctx.rng, vars_) for _ in range(200)]
        outs = []
        for info in infos:
            try:
                outs.append(real_render(vlib.REPO / e["dir"], e["files"], info, via_file=False))
            except Exception:
                outs.append(None)
        ans = ctx.driver(DRIVER, [{"op": "spec_info", "backend": backend, "lists": i, "files": o or {}} for i, o in zip(infos, outs)])
        for info, o, s in zip(infos, outs, ans):
            if "bad" in s:
                break
            if o is None or not s.get("holds", False):
                inp = shrink(ctx, {"stream": "A", "backend": backend, "lists": info}, base, fields)
                rc, v = replay_input(ctx, inp, base, fields)
                if v is not None:
                    return {"key": "render:" + backend + ":" + json.dumps(inp["lists"], sort_keys=True, ensure_ascii=False), "what": v["what"], "case": inp, "observed": v.get("observed")}
    return None


def shrink_candidates(inp: Dict[str, Any]) -> List[Dict[str, Any]]:
    out = []
    if inp["stream"] == "A":
        lists = inp["lists"]
        for k in list(lists):
            out.append({**inp, "lists": {a: b for a, b in lists.items() if a != k}})
            for i in range(len(lists[k])):
                out.append({**inp, "lists": {**lists, k: lists[k][:i] + lists[k][i + 1:]}})
        for k in list(lists):
            for i, l in enumerate(lists[k]):
                if l != "x":
                    out.append({**inp, "lists": {**lists, k: lists[k][:i] + ["x"] + lists[k][i + 1:]}})
                if len(l) > 1:
                    out.append({**inp, "lists": {**lists, k: lists[k][:i] + [l[: len(l) // 2]] + lists[k][i + 1:]}})
                    out.append({**inp, "lists": {**lists, k: lists[k][:i] + [l[len(l) // 2:]] + lists[k][i + 1:]}})
        return out
    mds = inp["mds"]
    for i in range(len(mds)):
        out.append({**inp, "mds": mds[:i] + mds[i + 1:]})
    for i, m in enumerate(mds):
        if m.get("metadata_type") != "inject_code":
            continue
        for k in [k for k in m if k not in ("metadata_type", "name")]:
            m2 = {a: b for a, b in m.items() if a != k}
            out.append({**inp, "mds": mds[:i] + [m2] + mds[i + 1:]})
            if isinstance(m[k], list):
                for j in range(len(m[k])):
                    out.append({**inp, "mds": mds[:i] + [{**m, k: m[k][:j] + m[k][j + 1:]}] + mds[i + 1:]})
    for i, m in enumerate(mds):
        if m.get("metadata_type") != "inject_code":
            continue
        for k in [k for k in m if k not in ("metadata_type", "name", "depends_on")]:
            if isinstance(m[k], list):
                for j, l in enumerate(m[k]):
                    if isinstance(l, str) and l != "x":
                        out.append({**inp, "mds": mds[:i] + [{**m, k: m[k][:j] + ["x"] + m[k][j + 1:]}] + mds[i + 1:]})
                    if isinstance(l, str) and len(l) > 1:
                        out.append({**inp, "mds": mds[:i] + [{**m, k: m[k][:j] + [l[: len(l) // 2]] + m[k][j + 1:]}] + mds[i + 1:]})
                        out.append({**inp, "mds": mds[:i] + [{**m, k: m[k][:j] + [l[len(l) // 2:]] + m[k][j + 1:]}] + mds[i + 1:]})
    return out


def shrink(ctx, inp: Dict[str, Any], base: Baseline, fields: List[str]) -> Dict[str, Any]:
    """Greedy structural shrinking while the Spec still fails on the real code (one driver call per round)."""
    for _ in range(40):
        cands = [c for c in shrink_candidates(inp) if c["stream"] == "A" or same_script_names_ok(c["mds"])][:60]
        if not cands:
            break
        vs = replay_inputs(ctx, cands, base, fields)
        hit = next((c for c, v in zip(cands, vs) if v is not None), None)
        if hit is None:
            break
        inp = hit
    return inp


def replay(ctx, rep) -> int:
    import dataclasses

    from func_adl_xAOD.common.meta_data import InjectCodeBlock

    translate(ctx)
    ok = ctx.lake_build(["FaxVerif.Generated.C14Templates", "FaxVerif.C14.Spec"])
    fields = [f.name for f in dataclasses.fields(InjectCodeBlock) if f.name != "name"]
    case = rep.get("case")
    if not isinstance(case, dict) or "stream" not in case:
        print("replay file carries no failing input (kind:", rep.get("kind"), ")")
        print(json.dumps(rep.get("no_longer_checks", rep.get("broken")), indent=1, default=str)[:3000])
        return 1
    rc, v = replay_input(ctx, case, None, fields)
    print("input:", json.dumps(case, ensure_ascii=False))
    if v is None:
        print("the specification holds on the implementation's output for this input")
        return 0 if rc == 0 else rc
    print("VIOLATED:", v["what"])
    if v.get("observed") is not None:
        print("observed:", json.dumps(v["observed"], ensure_ascii=False, default=str)[:6000])
    return 1


LEVEL_TEXT = (
    "Machine-checked proof (Lean 4). For every list of metadata items, every block, every line (any characters, any "
    "length): the model of process_metadata refuses exactly the bad lists (unknown key, no name, same name with different "
    "content) and otherwise keeps the first occurrences in order (identical repeats once); the model of the package "
    "generator renders every template as static0 ++ slot1 ++ static1 ++ ..., each slot being its lines once, in block-then-"
    "line order, verbatim between fixed decorations, and each slot lies at its documented place (include area, member-"
    "initialiser list, constructor body, initialize() body, private section of the class, LINK_LIBRARIES arguments; CMS: "
    "include area), the place being recognised structurally in the template's own text. The per-template facts are "
    "decided by the Lean kernel on constants regenerated from the repository's templates on every run."
)
LEVEL_NOTE = (
    "Trusted / not proved: the Lean kernel (axioms audited: propext, Classical.choice, Quot.sound); the jinja-subset "
    "parser that turns template files into Lean data and the semantics given to that subset (both checked on every run "
    "by whole-file equality with the real jinja2 on all 15 files, not proved); the hand model of process_metadata / "
    "_ib_fetch / the replacement dictionary (checked by differential execution against the real functions and the three "
    "real executors, not proved); the structural recognisers of the documented places are part of the specification. "
    "The query's own lines are taken as given (Base). On CMS only body_includes has a documented place; the other "
    "fields are ignored there (theorem cms_only_body_includes), which the property's text allows."
)
