"""C12 — every documented math function is accepted and computes its namesake.

Model: lean/FaxVerif/C12/Model.lean (table lookup, name resolution, call/arithmetic emission, meanings).
Tie T: `translate` regenerates lean/FaxVerif/Generated/C12Table.lean from the *current* source on every run
        (add_function_mapping rows, README function list, _type_priority, operator tables, the eval scope of
        find_known_functions.visit_Call); the table theorems are re-proved by `lake build`.
Tie K: the real find_known_functions on a pool of names; the real pipeline (apply_ast_transformations +
        write_cpp_files, three backends) on every row standalone and inside arithmetic; the model's text, type and
        include files are compared with what the generated C++ contains.
Oracles on the implementation's output: (1) `SpecRow` on every row of the live `functions_to_replace`; (2) `SpecEmit`
        on the emitted text (parsed by the Lean side); (3) g++: the emitted expressions are compiled against a tiny
        stand-in for the loop variable, with exactly the include files the translator added, evaluated at sample
        points and compared with the function of that name (python's math / the C definitions).
"""
from __future__ import annotations

import ast
import builtins
import json
import math
import os
import re
import shutil
import subprocess
import sys
import tempfile
from fractions import Fraction
from pathlib import Path
from typing import Any, Dict, List, Optional, Tuple

import vlib
from vlib import lean_list, lean_str

ID = "C12"
LEAN_MODULES = ["FaxVerif.C12.Theorems"]
LEAN_SOURCES = ["FaxVerif/C12", "FaxVerif/Generated/C12Table.lean"]
DRIVER = "FaxVerif/C12/Driver.lean"
GENERATED = vlib.LEAN / "FaxVerif" / "Generated" / "C12Table.lean"

# --------------------------------------------------------------------------------------------
# tie T: the translator
# --------------------------------------------------------------------------------------------

SRC_FUNCS = "func_adl_xAOD/common/cpp_functions.py"
SRC_UTILS = "func_adl_xAOD/common/utils.py"
SRC_TRANS = "func_adl_xAOD/common/ast_to_cpp_translator.py"
SRC_README = "README.md"


def _lit_str(n: ast.AST) -> Optional[str]:
    return n.value if isinstance(n, ast.Constant) and type(n.value) is str else None


def read_rows(src: str) -> Tuple[List[Dict[str, Any]], List[str]]:
    """Every `add_function_mapping(...)` call of cpp_functions.py, in source order.

    Returns (rows, unrecognised).  A row is recognised iff the call is a module-level expression
    statement whose four arguments are literals (str, str, str | [str…], str).  Anything else that
    touches the table (a call in a loop/function, computed arguments, a direct write to
    `functions_to_replace`) is returned as `unrecognised` text."""
    tree = ast.parse(src)
    rows: List[Dict[str, Any]] = []
    bad: List[str] = []
    top_calls = set()
    for st in tree.body:
        if isinstance(st, ast.Expr) and isinstance(st.value, ast.Call) and isinstance(st.value.func, ast.Name) and st.value.func.id == "add_function_mapping":
            top_calls.add(id(st.value))
            c = st.value
            names = ["python_name", "cpp_name", "include_files", "return_type"]
            vals: Dict[str, ast.AST] = {}
            ok = len(c.args) <= 4
            for n, a in zip(names, c.args):
                vals[n] = a
            for kw in c.keywords:
                if kw.arg in names and kw.arg not in vals:
                    vals[kw.arg] = kw.value
                else:
                    ok = False
            if not ok or set(vals) != set(names):
                bad.append(ast.unparse(c))
                continue
            py, cpp, ret = _lit_str(vals["python_name"]), _lit_str(vals["cpp_name"]), _lit_str(vals["return_type"])
            inc_node = vals["include_files"]
            if _lit_str(inc_node) is not None:
                incs: Optional[List[str]] = [_lit_str(inc_node)]  # type: ignore
            elif isinstance(inc_node, ast.List) and all(_lit_str(e) is not None for e in inc_node.elts):
                incs = [_lit_str(e) for e in inc_node.elts]  # type: ignore
            else:
                incs = None
            if py is None or cpp is None or ret is None or incs is None:
                bad.append(ast.unparse(c))
                continue
            rows.append({"py": py, "cpp": cpp, "includes": incs, "ret": ret, "line": c.lineno})
    # anything else that can change the table
    fdef = next((s for s in tree.body if isinstance(s, ast.FunctionDef) and s.name == "add_function_mapping"), None)
    inside_def = {id(n) for n in ast.walk(fdef)} if fdef is not None else set()
    if fdef is None:
        bad.append("no module-level def add_function_mapping")
    for n in ast.walk(tree):
        if id(n) in inside_def:
            continue
        if isinstance(n, ast.Call) and isinstance(n.func, ast.Name) and n.func.id == "add_function_mapping" and id(n) not in top_calls:
            bad.append(ast.unparse(n))
        if isinstance(n, (ast.Subscript, ast.Attribute)) and isinstance(n.value, ast.Name) and n.value.id == "functions_to_replace":
            if isinstance(n, ast.Subscript) and isinstance(n.ctx, (ast.Store, ast.Del)):
                bad.append(ast.unparse(n))
            if isinstance(n, ast.Attribute) and n.attr in ("update", "pop", "popitem", "clear", "setdefault", "__setitem__", "__delitem__"):
                bad.append(ast.unparse(n))
    # the normalisation add_function_mapping applies must be the one the rows above assume
    if fdef is not None:
        body = ast.unparse(fdef)
        want = ["functions_to_replace[python_name] = cpp_function(cpp_name", "terminal(return_type)", "include_files if type(include_files) is list else [include_files]"]
        for w in want:
            if w not in body:
                bad.append("add_function_mapping body: expected `" + w + "`")
    return rows, bad


def read_readme(text: str) -> Tuple[List[str], List[str]]:
    """The function list of the `### Math` section: the bullet that starts 'Math functions'."""
    m = re.search(r"^### Math\s*$(.*?)(?=^#{1,3} |\Z)", text, re.S | re.M)
    if not m:
        return [], ["README: no '### Math' section"]
    bullets = [b for b in re.split(r"^\s*[-*] ", m.group(1), flags=re.M) if b.strip().startswith("Math functions")]
    if len(bullets) != 1:
        return [], [f"README Math section: {len(bullets)} bullets start with 'Math functions'"]
    b = re.sub(r"\[[^\]]*\]\([^)]*\)", " ", bullets[0])  # drop the markdown link (its text has back-quotes too)
    names = re.findall(r"`([^`]+)`", b)
    bad = [f"README function name {n!r}" for n in names if not re.fullmatch(r"[A-Za-z_][A-Za-z_0-9]*", n)]
    if not names:
        bad.append("README Math functions bullet lists no names")
    return [n for n in names if re.fullmatch(r"[A-Za-z_][A-Za-z_0-9]*", n)], bad


def _module_dict(src: str, name: str) -> Optional[ast.Dict]:
    for st in ast.parse(src).body:
        if isinstance(st, ast.AnnAssign) and isinstance(st.target, ast.Name) and st.target.id == name and isinstance(st.value, ast.Dict):
            return st.value
        if isinstance(st, ast.Assign) and len(st.targets) == 1 and isinstance(st.targets[0], ast.Name) and st.targets[0].id == name and isinstance(st.value, ast.Dict):
            return st.value
    return None


def read_priority(src: str) -> Tuple[List[Tuple[str, int]], List[str]]:
    d = _module_dict(src, "_type_priority")
    if d is None:
        return [], ["utils.py: no literal dict _type_priority"]
    out, bad = [], []
    for k, v in zip(d.keys, d.values):
        if k is not None and _lit_str(k) is not None and isinstance(v, ast.Constant) and type(v.value) is int and v.value >= 0:
            out.append((_lit_str(k), v.value))
        else:
            bad.append("utils.py _type_priority entry " + (ast.unparse(k) if k is not None else "**") + ": " + ast.unparse(v))
    return out, bad  # type: ignore


def read_ops(src: str, name: str) -> Tuple[List[Tuple[str, str]], List[str]]:
    d = _module_dict(src, name)
    if d is None:
        return [], [f"ast_to_cpp_translator.py: no literal dict {name}"]
    out, bad = [], []
    for k, v in zip(d.keys, d.values):
        if isinstance(k, ast.Attribute) and isinstance(k.value, ast.Name) and k.value.id == "ast" and _lit_str(v) is not None:
            out.append((k.attr, _lit_str(v)))
        else:
            bad.append(f"{name} entry " + (ast.unparse(k) if k is not None else "**") + ": " + ast.unparse(v))
    return out, bad  # type: ignore


def eval_scope(src: str) -> Tuple[List[str], List[str]]:
    """Names that are *local* at the `eval(node.func.id)` of find_known_functions.visit_Call when it runs
    (the parameters of the method)."""
    tree = ast.parse(src)
    for cls in [s for s in tree.body if isinstance(s, ast.ClassDef) and s.name == "find_known_functions"]:
        for fn in [s for s in cls.body if isinstance(s, ast.FunctionDef) and s.name == "visit_Call"]:
            return [a.arg for a in fn.args.posonlyargs + fn.args.args + fn.args.kwonlyargs], []
    return [], ["cpp_functions.py: no find_known_functions.visit_Call"]


def binding_of(name: str, locals_: List[str], module_ns: Dict[str, Any]) -> Tuple[str, Optional[str]]:
    """What `eval(name)` finds in visit_Call's scope and what `.__module__` gives:
    ('unbound', None) | ('module', m) | ('nomodule', None).  Local parameters are an instance of the
    transformer class (`self`) and an `ast.Call` (`node`)."""
    if name in locals_:
        if locals_.index(name) == 0:
            return ("module", module_ns.get("__name__", "func_adl_xAOD.common.cpp_functions"))
        return ("module", "ast")
    if name in module_ns:
        obj = module_ns[name]
    elif hasattr(builtins, name):
        obj = getattr(builtins, name)
    else:
        return ("unbound", None)
    try:
        m = obj.__module__
    except AttributeError:
        return ("nomodule", None)
    return ("module", str(m))


def lean_binding(b: Tuple[str, Optional[str]]) -> str:
    if b[0] == "unbound":
        return ".unbound"
    if b[0] == "nomodule":
        return ".noModuleAttr"
    return f".inModule {lean_str(b[1] or '')}"


def live_module():
    import func_adl_xAOD.common.cpp_functions as m

    return m


def read_all() -> Dict[str, Any]:
    src_f = (vlib.REPO / SRC_FUNCS).read_text()
    rows, bad = read_rows(src_f)
    readme, bad2 = read_readme((vlib.REPO / SRC_README).read_text())
    prio, bad3 = read_priority((vlib.REPO / SRC_UTILS).read_text())
    src_t = (vlib.REPO / SRC_TRANS).read_text()
    binops, bad4 = read_ops(src_t, "_known_binary_operators")
    unops, bad5 = read_ops(src_t, "_known_unary_operators")
    locals_, bad6 = eval_scope(src_f)
    ns = vars(live_module())
    # names whose resolution can matter to a lookup: the documented names, the bare keys and the last
    # component of the dotted keys; plus everything bound in the scope of the eval (parameters, module
    # globals, builtins) that has no `__module__` (the resolver raises on those).  For any other name
    # neither `name` nor `<module>.name` can be a key, whatever it is bound to.
    interest: List[str] = []
    for n in readme + [r["py"].split(".")[-1] for r in rows] + locals_ + [k for k in ns if not k.startswith("__")]:
        if re.fullmatch(r"[A-Za-z_][A-Za-z_0-9]*", n) and n not in interest:
            interest.append(n)
    env = [(n, binding_of(n, locals_, ns)) for n in interest]
    for k in dir(builtins):
        if re.fullmatch(r"[A-Za-z_][A-Za-z_0-9]*", k) and not k.startswith("__") and k not in interest:
            b = binding_of(k, locals_, ns)
            if b[0] == "nomodule":
                env.append((k, b))
    env = [(n, b) for n, b in env if b[0] != "unbound"]
    return {"rows": rows, "readme": readme, "prio": prio, "binops": binops, "unops": unops, "env": env, "locals": locals_,
            "unrecognised": bad + bad2 + bad3 + bad4 + bad5 + bad6}


def render_generated(g: Dict[str, Any]) -> str:
    L = ["/- GENERATED by tools/props/c12.py from /repo on every run — do not edit.",
         f"   sources: {SRC_FUNCS}, {SRC_README}, {SRC_UTILS}, {SRC_TRANS} -/",
         "import FaxVerif.C12.Model", "namespace FaxVerif.C12.Gen", "open FaxVerif.C12", "",
         "/-- the `add_function_mapping` rows in source order -/", "def table : List Row := ["]
    L.append(",\n".join(f"  ⟨{lean_str(r['py'])}, {lean_str(r['cpp'])}, {lean_list(lean_str(i) for i in r['includes'])}, {lean_str(r['ret'])}⟩" for r in g["rows"]))
    L += ["]", "", "/-- README.md, section Math: the documented function names -/",
          "def readmeFunctions : List String := " + lean_list(lean_str(n) for n in g["readme"]), "",
          "/-- common/utils.py `_type_priority` -/",
          "def typePriority : List (String × Nat) := " + lean_list(f"({lean_str(k)}, {v})" for k, v in g["prio"]), "",
          "/-- `_known_binary_operators` / `_known_unary_operators`: python ast class ↦ C++ symbol -/",
          "def binOps : List (String × String) := " + lean_list(f"({lean_str(k)}, {lean_str(v)})" for k, v in g["binops"]),
          "def unOps : List (String × String) := " + lean_list(f"({lean_str(k)}, {lean_str(v)})" for k, v in g["unops"]), "",
          "/-- every name that is bound where `eval(node.func.id)` runs (parameters of visit_Call, globals of",
          "cpp_functions.py, python builtins) with the `__module__` of what it is bound to -/",
          "def evalEnv : Env := ["]
    L.append(",\n".join(f"  ({lean_str(n)}, {lean_binding(b)})" for n, b in g["env"]))
    L += ["]", "", "/-- source text the translator could not read as data (must be empty) -/",
          "def unrecognised : List String := " + lean_list(lean_str(u) for u in g["unrecognised"]), "",
          "def cfg : Cfg := ⟨table, evalEnv, typePriority, binOps, unOps⟩", "", "end FaxVerif.C12.Gen", ""]
    return "\n".join(L)


def translate(ctx):
    g = read_all()
    ctx.gen = g
    changed = vlib.write_if_changed(GENERATED, render_generated(g))
    ctx.count("generated-file-changed", 1 if changed else 0)
